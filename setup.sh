#!/bin/bash
# Build the repo-independent Coq library (coq/lib). Everything that depends on /repo is rebuilt by ./check.
set -e
cd /verif/coq/lib
ls *.v | sort > .files
{ echo "-Q . VLib"; cat .files; } > _CoqProject
coq_makefile -f _CoqProject -o Makefile.coq >/dev/null
timeout 3000 make -f Makefile.coq -j16 >/verif/coq/lib/build.log 2>&1 || { tail -40 /verif/coq/lib/build.log; exit 1; }
echo "coq/lib built: $(ls *.vo | wc -l) files"
