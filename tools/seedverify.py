#!/usr/bin/env python3
"""Confirm a seeded change in a scratch worktree and record the outcome in seeded/<id>/meta.json.

usage: tools/seedverify.py <seed-id e.g. C12-B> [--no-tests | --check-only (keep the recorded demo/test results, rerun only the check)]
 1. demo on the unchanged tree must exit 0;  2. patch applies;  3. demo with the change must exit != 0;
 4. the test files the author ran (from meta_agent.json) still pass with the change;
 5. ./check <pid> with VERIF_REPO pointing at the changed tree: exit code, VIOLATION lines (with/without a concrete input).
"""
import json
import os
import re
import subprocess
import sys
import time
from pathlib import Path

V = Path("/verif")


def sh(cmd, cwd=None, env=None, timeout=3600):
    e = dict(os.environ)
    e.update(env or {})
    try:
        r = subprocess.run(cmd, shell=True, cwd=cwd, env=e, capture_output=True, text=True, timeout=timeout)
        return r.returncode, r.stdout + r.stderr
    except subprocess.TimeoutExpired:
        return 124, "TIMEOUT"


def main():
    sid = sys.argv[1]
    run_tests = "--no-tests" not in sys.argv and "--check-only" not in sys.argv
    check_only = "--check-only" in sys.argv
    pid = sid.split("-")[0]
    d = V / "seeded" / sid
    wt = f"/tmp/wt-seedverify-{sid}"
    agent = json.load(open(d / "meta_agent.json")) if (d / "meta_agent.json").exists() else {}
    out = {"property": pid, "seed": sid, "summary": agent.get("summary"), "needs": agent.get("needs"), "ran": {}}
    prev = json.load(open(d / "meta.json")) if check_only and (d / "meta.json").exists() else None
    sh(f"git -C /repo worktree remove --force {wt}")
    rc, o = sh(f"git -C /repo worktree add -q {wt} HEAD")
    if rc:
        print("cannot create worktree", o)
        return 2
    env = {"PYTHONPATH": f"{wt}/src", "PYTHONHASHSEED": "0", "PYTHONDONTWRITEBYTECODE": "1"}
    try:
        rc0, o0 = sh(f"timeout 900 /venv/bin/python -W ignore {d}/demo.py", cwd=wt, env=env)
        out["ran"]["demo_unchanged_exit"] = rc0
        rca, oa = sh(f"git -C {wt} apply {d}/patch.diff")
        if (d / "apply.sh").exists():
            rca, oa = sh(f"bash {d}/apply.sh {wt}")
        out["ran"]["patch_applies"] = rca == 0
        if rca:
            out["ran"]["patch_error"] = oa[-400:]
        else:
            rc1, o1 = sh(f"timeout 900 /venv/bin/python -W ignore {d}/demo.py", cwd=wt, env=env)
            out["ran"]["demo_changed_exit"] = rc1
            out["ran"]["demo_changed_tail"] = o1[-400:]
            if run_tests:
                files = sorted(set(re.findall(r"test_\w+\.py", json.dumps(agent.get("tests_run", "")))))
                tests = {}
                for f in files:
                    t = time.time()
                    rct, ot = sh(f"timeout 2400 /venv/bin/python -m pytest -q -x -p no:cacheprovider src/grid/tests/{f}", cwd=wt, env=env, timeout=2500)
                    tail = [l for l in ot.splitlines() if "passed" in l or "failed" in l or "error" in l.lower()][-1:] or [ot[-200:]]
                    tests[f] = {"exit": rct, "summary": tail[0][:160], "s": round(time.time() - t)}
                out["ran"]["tests_with_change"] = tests
            rcc, oc = sh(f"./check {pid}", cwd=str(V), env={"VERIF_REPO": wt}, timeout=3000)
            lines = [l for l in oc.splitlines() if l.startswith("VIOLATION")]
            out["ran"]["check_exit"] = rcc
            out["ran"]["check_violations"] = len(lines)
            out["ran"]["check_violations_with_input"] = sum(1 for l in lines if "no-failing-input-found" not in l)
            out["ran"]["check_first_messages"] = [l.strip()[:300] for l in oc.splitlines() if l.startswith("  [")][:3]
            out["ran"]["check_summary"] = [l for l in oc.splitlines() if l.startswith("[C")][-1:]
    finally:
        sh(f"git -C /repo worktree remove --force {wt}")
    if prev is not None:  # keep the earlier confirmation (demo + tests), refresh only what the check reports
        for k, v in prev["ran"].items():
            if k.startswith(("demo_", "tests_with_change")):
                out["ran"][k] = v
    r = out["ran"]
    out["confirmed"] = bool(r.get("demo_unchanged_exit") == 0 and r.get("patch_applies") and r.get("demo_changed_exit") not in (0, None)
                            and all(t["exit"] == 0 for t in r.get("tests_with_change", {}).values()))
    out["caught"] = r.get("check_exit") == 1
    out["repo_head"] = subprocess.run("git -C /repo rev-parse --short HEAD", shell=True, capture_output=True, text=True).stdout.strip()
    json.dump(out, open(d / "meta.json", "w"), indent=1)
    print(sid, "confirmed" if out["confirmed"] else "NOT-CONFIRMED", "caught" if out["caught"] else "MISSED",
          f"(violations {r.get('check_violations')}, with input {r.get('check_violations_with_input')})", {k: v["summary"][:40] for k, v in r.get("tests_with_change", {}).items()})


if __name__ == "__main__":
    sys.exit(main())
