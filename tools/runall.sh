#!/bin/bash
# usage: tools/runall.sh [tier] [pids...]  -- one summary line (+ violations) per property
tier=${1:-quick}; shift
pids=${@:-$(python3 -c "import json;print(' '.join(c['property_id'] for c in json.load(open('/verif/MANIFEST.json'))['checks']))")}
for p in $pids; do ./check $p --tier $tier 2>&1 | grep -E "^VIOLATION|^KNOWN-FINDING|^\[C|Traceback" | cut -c1-160; done
