#!/usr/bin/env python3
"""Regenerate /verif/MANIFEST.json from the table below (keeps the manifest valid at all times)."""
import json
import sys

CLAIMED = {
    # pid: (technique, level text, level_note, design_ref)
    "C12": (
        "Coq proof of the resolution rule over tables regenerated from angular.py + exhaustive vm_compute correspondence",
        "Theorems (Coq 8.16, axiom-free): bisect_left/resolve specification for every request on any strictly sorted table, "
        "instantiated on the four tables regenerated from src/grid/angular.py on every run (sortedness, mutual inverse, data files "
        "with matching point counts: computed in the kernel); converter loop = element-wise rule for every sequence. The hand model "
        "of _get_degree_and_size is tied to the code by an exhaustive comparison of all ~115 000 integer requests.",
        "Trusted: Coq kernel+vm_compute; the ast-based table extractor (validated against the imported module); npz header "
        "reading; the harness. No axioms. Modelled by hand: _get_degree_and_size, convert_angular_sizes_to_degrees (tied by "
        "exhaustive / random correspondence).",
        "DESIGN.md section 6 C12",
    ),
}

CLAIMED.update({
    "C18": (
        "Coq proof by induction over domains/chunks of a hand model of ngrid.py + exact integer correspondence",
        "16 theorems (axiom-free, any semiring incl. R and Z): itertools.product order/set, chunk concatenation and shape, "
        "non-vectorised result independent of every chunk size >= 1 and equal to the nested sum, vectorised = nested sum, "
        "separable integrands factorise, size/order specs, repeated-grid mode = k copies. The hand model (generators, chunk "
        "alignment, partial application over the last domain) is tied to the code by exact integer correspondence evaluated by "
        "vm_compute (points, weights, sizes, all chunk sizes, both routes).",
        "Trusted: Coq kernel+vm_compute; hand model of MultiDomainGrid tied by sampled exact correspondence (integer grids, "
        "integrands as monomial data); IEEE rounding is outside the model (exact integers are used).",
        "DESIGN.md section 6 C18",
    ),
    "C14": (
        "Coq proof over the order generators re-translated from utils.py each run + exact/oracle correspondence of Grid.moments",
        "12 theorems: the Cartesian / pure / pure-radial / radial order lists (generator translated from the Python source on every "
        "run) are exactly the documented sets in Horton order without duplicates for every order; (l,m)->row index arithmetic is the "
        "position in the order list; every entry of the moments model is the quadrature of f times the basis function about the "
        "centre for all four types and any number of centres; dipole helper formula. Model of Grid.moments tied by exact Z "
        "correspondence (Cartesian) and by bigQ model + independent closed-form solid harmonics (pure types).",
        "Trusted: Coq kernel+vm_compute; the ast translator for generate_orders_horton_order (validated by exact correspondence for "
        "orders 0..8/12); solid-harmonic oracle hypothesis `solid_rows` (validated numerically each run); stdlib real axioms for dipole_spec.",
        "DESIGN.md section 6 C14",
    ),
})

CLAIMED.update({
    "C03": (
        "Coq/Coquelicot proofs (auto_derive + field, symbolic real parameters) over formulas re-translated from rtransform.py each run + interval-arithmetic translation validation",
        "89 theorems about the definitions regenerated from src/grid/rtransform.py on every run (py2coq/real): for each of the 11 transform "
        "classes and ALL real parameters the constructor admits (k, m any positive real) and all interior x: deriv/deriv2/deriv3 are the "
        "successive derivatives of transform (is_derive), inverse undoes transform both ways, sign of deriv (monotonicity; MultiExp decreasing), "
        "value end points; the generic BaseTransform.deriv*_inverse and InverseRTransform formulas are the first three derivatives of the "
        "inverse map (inverse function theorem, proved once, instantiated for Becke/MultiExp/Knowles/Handy). The translator is validated on "
        "every run by `interval` enclosures of each generated term against the implementation's float output at random dyadic inputs.",
        "Trusted: Coq kernel; stdlib real-number axioms (reported per theorem); py2coq/real translator (fail-closed subset) + interval "
        "tactic for its validation; IEEE rounding < 1e-9 relative at sampled points; trim_inf endpoint branch and array/scalar dispatch are "
        "checked on the implementation only; HandyMod theorems assume the common denominator is non-zero (2^m - 1 < rmax - rmin for monotonicity); "
        "left end points of Rpower-based maps (x = -1) are outside Rpower's domain and covered by the implementation sweep only.",
        "DESIGN.md section 6 C03",
    ),
})

CLAIMED.update({
    "C10": (
        "Coq proof by induction over operation histories of a per-class state-machine model (lazy k-d tree as oracle) + history correspondence",
        "18 theorems: for every grid class, every history of point/weight reassignments, queries and selections, the query result is a "
        "permutation of the brute-force ball specification over the grid's current public points and weights (full strength under the "
        "`good` configuration; a `_partial` version for any configuration lists exactly which histories are excluded), inf radius = whole "
        "grid, indices map back, selection by int / NumPy int / slice / index array / mask returns exactly the selected rows with domain or "
        "lattice carried over; five `_refuted` theorems with concrete witnesses for the defects of the pinned code (each replayed on the "
        "implementation every run and listed as a known finding). Model tied by random history correspondence evaluated by vm_compute.",
        "Trusted: Coq kernel+vm_compute; stdlib real axioms (radius_bridge only); k-d tree oracle hypothesis `oracle_ok` (validated "
        "against scipy cKDTree each run); hand model per class with 7 behaviour flags decided on each run from directed witness histories "
        "and validated by the random-history correspondence; integer coordinates only (float round-off at ball boundaries out of scope).",
        "DESIGN.md section 6 C10",
    ),
})

CLAIMED.update({
    "C17": (
        "Coq/Coquelicot proofs on formulas symbolically executed from coulomb.py each run (erf defined as an integral) + integral/interval translation validation",
        "10 theorems on the terms regenerated from coulomb.py (masked NumPy statements symbolically executed over the r<threshold / r>=threshold "
        "partition): for all alpha>0, r>0 the s-type function satisfies the radial Poisson equation (rV)'' = -4 pi r rho for its documented "
        "density (first derivative computed by auto_derive, not typed by hand), the small-r values are the r->0 limits of the main branches, "
        "unnormalised variants differ by the documented factors (and that factor relates the two densities), superposition, every shipped "
        "parameter set well-formed (computed). p_poisson is REFUTED on the current code (p_poisson_refuted_lemma; known finding, the test "
        "suite pins the wrong formula); its positive proof script is kept and was validated against the corrected formula.",
        "Trusted: Coq kernel; stdlib real axioms; the symbolic executor for coulomb_gaussian_s/p (validated by `integral`+`interval` enclosures "
        "each run); scipy erf accuracy; partial: r*V -> Q at infinity (needs erf(inf)=1, absent from the libraries) and continuity across "
        "the 1e-12 switch are checked on the implementation (mpmath oracle) only.",
        "DESIGN.md section 6 C17",
    ),
    "C13": (
        "Coq proofs (lia/induction/interval) over index maps re-translated from cubic.py each run and hand models of layout/weights/box/closest point + exact correspondence",
        "36 theorems: flat index <-> coordinates round trips for every 2-D/3-D shape on the definitions regenerated from the source each run; "
        "layout (point at index = origin + i a1 + j a2 + k a3, last index fastest, skewed axes), tensor weights and separability; weight-sum "
        "bound for Rectangle/Trapezoid/Alternative for all shapes, Fourier1 factorisation for all shapes and the bound for n_i <= 64 "
        "(`_partial`, bound in the statement); from_molecule box margins (`_partial` + `box_refuted`), closest_point (`_partial` for positive "
        "diagonal axes within half a spacing + `closest_refuted`), cube data chunking, tricubic reproduction over a spline oracle, log-variant "
        "chain rule to order 3; `fourier2_refuted`. Hand models tied by exact integer/rational correspondence; six known findings re-derived each run.",
        "Trusted: Coq kernel+vm_compute; stdlib real/classical axioms and primitive-float axioms (Interval) for the Fourier1 bounds; index-map "
        "translator (validated exhaustively on small shapes); 1-D spline oracle (validated on cubics against scipy each run); the decimal "
        "cube-file codec, interpolation beyond the oracle, Fourier1 for n>64 and log-variant order>3 are covered by sweeps only (partial).",
        "DESIGN.md section 6 C13",
    ),
})

CLAIMED.update({
    "C04": (
        "Coq proofs over the point/weight formulas re-translated from transform_1d_grid each run (list induction, Coquelicot RInt change of variables) + interval correspondence",
        "8 theorems on the formulas regenerated from BaseTransform.transform_1d_grid (composed with C03's regenerated transforms): nodes are the "
        "mapped nodes; the sum of f over the new grid equals the old rule applied to f(r(x)) times the Jacobian factor (= its magnitude wherever "
        "the factor is non-negative), for every grid and integrand; non-negative weights stay non-negative for increasing maps; the new domain is "
        "ordered and contains every node for monotone maps in either direction; a rule exact to degree D on [-1,1] mapped linearly to [a,b] is "
        "exact to degree D on [a,b] (affine substitution closure + RInt_comp_lin). `weights_nonneg_decreasing` is REFUTED on the current code "
        "(signed derivative; known finding pinned by the test-suite).",
        "Trusted: Coq kernel; stdlib real axioms; pattern-checked translator of transform_1d_grid + C03's translator (validated by interval "
        "enclosures); oracle hypothesis of exactness transport (reference rule exact to degree D; validated for Gauss-Legendre with exact "
        "rational moments by the sweep); OneDGrid's domain validation and np.sort of the image are checked on the implementation only.",
        "DESIGN.md section 6 C04",
    ),
})

CLAIMED.update({
    "C11": (
        "Coq proof (Cauchy-Schwarz completeness of the image box, exactness, no duplicates) of a generic model of PeriodicGrid.get_localgrid + exact bigQ correspondence and brute-force oracle",
        "15 theorems at R for any list of lattice vectors with dual reciprocal vectors (up to 3 dimensions): every (point, lattice translation) "
        "inside the sphere lies in the enumerated integer box (`complete`), the model's range is the code's ceil/floor formula, the local grid is "
        "exactly the set of images within the radius with parent weight and index, no duplicates, stored position = parent + translation, "
        "wrapping is irrelevant, no lattice = plain grid; `_refuted` theorems document the three defects of the pinned commit (repaired by fix: "
        "commits). Model tied by exact correspondence at bigQ on dyadic lattices and by a brute-force integer oracle on the implementation.",
        "Trusted: Coq kernel+vm_compute; stdlib real and funext axioms; hypotheses validated each run: reciprocal vectors of the code (SVD "
        "pseudo-inverse) are dual to the lattice vectors, cKDTree ball query contract; dimension <= 3, at least one point; float ties on box "
        "boundaries are compared modulo lattice vectors.",
        "DESIGN.md section 6 C11",
    ),
    "C07": (
        "Coq proof (induction over the constructor loop; fan-out characterisations) of a model of MolGrid + exact bigQ correspondence and constructor-vs-by-hand differential runs",
        "19 theorems for any number of atoms and any commutative semiring (R instance given): the constructor loop yields the concatenation, the "
        "index table delimits the atoms, weights = atomic weights x aim weights, the molecular integral decomposes into atomic integrals of "
        "w_A f, get_atomic_grid spec, store-independence of every observable except __getitem__ (`_partial`; the full statement is `_refuted` "
        "on the current code: known finding), fan-out of from_size/from_preset/from_pruned (single/list/dict arguments) equals building by hand. "
        "Tie: exact vm_compute correspondence on dyadic grids and bitwise constructor-vs-by-hand comparison on the implementation.",
        "Trusted: Coq kernel+vm_compute; stdlib real axioms for the two R instances; Becke weights, default radial grids and the AtomGrid "
        "builders are Section variables (C05/C06); partial: the end-to-end 1% clause is runtime numerics, covered by a seeded search sweep only "
        "(six presets violate it for a light atom 1.2-1.4 bohr from a heavy atom: known findings).",
        "DESIGN.md section 6 C07",
    ),
})

NOT_YET = {
    # pid: reason (kept current; a property moves to CLAIMED once its check is green on the unchanged tree)
}


def main():
    props = [json.loads(l) for l in open("/verif/properties.jsonl")]
    checks = []
    for p in props:
        pid = p["id"]
        if pid not in CLAIMED:
            continue
        tech, text, note, ref = CLAIMED[pid]
        checks.append({
            "property_id": pid,
            "quick_cmd": f"./check {pid} --tier quick",
            "thorough_cmd": f"./check {pid} --tier thorough",
            "evidence_file": f"/verif/evidence/{pid}.json",
            "replay_cmd_template": f"./check {pid} --replay {{path}}",
            "engine": "coq-proof+correspondence",
            "level_claimed": {"category": "proof", "text": text, "design_ref": ref},
            "level_note": note,
            "technique": tech,
        })
    na = []
    for p in props:
        pid = p["id"]
        if pid not in CLAIMED:
            na.append({"property_id": pid, "reason": NOT_YET.get(pid, "check not yet built/green on the unchanged tree in this round (see DESIGN.md section 6 for the plan); not claimed until it is")})
    man = {
        "version": 1,
        "setup_cmd": "./setup.sh",
        "hooks": {
            "guard": "THEOCHEM_GRID_VERIF",
            "enable": "no hooks are needed: all observation is through the public API and module-level helpers",
            "baseline_off_cmd": "cd /repo && /venv/bin/python -m pytest -ra -q -p no:cacheprovider --timeout=900 --continue-on-collection-errors",
            "source_commits": [],
            "add_only": True,
        },
        "engines": [{
            "name": "coq-proof+correspondence",
            "path": "/verif/check",
            "serves_properties": [c["property_id"] for c in checks],
            "kind_free_text": "Coq 8.16.1 theorems about models regenerated from /repo (py2coq translators) or hand models tied by "
                              "vm_compute/interval correspondence with the implementation on every run",
        }],
        "checks": checks,
        "not_applicable": na,
        "notes": "Single entry point ./check <id> [--tier quick|thorough]; honours VERIF_SEED and VERIF_TIER. Known findings: /verif/known_findings.jsonl.",
    }
    json.dump(man, open("/verif/MANIFEST.json", "w"), indent=1)
    print(f"MANIFEST.json: {len(checks)} checks, {len(na)} not claimed")


if __name__ == "__main__":
    sys.exit(main())
