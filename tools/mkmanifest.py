#!/usr/bin/env python3
"""Regenerate /verif/MANIFEST.json from the table below (keeps the manifest valid at all times)."""
import json
import sys

CLAIMED = {
    # pid: (technique, level text, level_note, design_ref)
    "C12": (
        "Coq proof of the resolution rule over tables regenerated from angular.py + exhaustive vm_compute correspondence",
        "Theorems (Coq 8.16, axiom-free): bisect_left/resolve specification for every request on any strictly sorted table, "
        "instantiated on the four tables regenerated from src/grid/angular.py on every run (sortedness, mutual inverse, data files "
        "with matching point counts: computed in the kernel); converter loop = element-wise rule for every sequence. The hand model "
        "of _get_degree_and_size is tied to the code by an exhaustive comparison of all ~115 000 integer requests.",
        "Trusted: Coq kernel+vm_compute; the ast-based table extractor (validated against the imported module); npz header "
        "reading; the harness. No axioms. Modelled by hand: _get_degree_and_size, convert_angular_sizes_to_degrees (tied by "
        "exhaustive / random correspondence).",
        "DESIGN.md section 6 C12",
    ),
}

CLAIMED.update({
    "C18": (
        "Coq proof by induction over domains/chunks of a hand model of ngrid.py + exact integer correspondence",
        "17 theorems (axiom-free, any semiring incl. R and Z; incl. `history_routes_agree` for histories of weight/point/grid replacement on one object): itertools.product order/set, chunk concatenation and shape, "
        "non-vectorised result independent of every chunk size >= 1 and equal to the nested sum, vectorised = nested sum, "
        "separable integrands factorise, size/order specs, repeated-grid mode = k copies. The hand model (generators, chunk "
        "alignment, partial application over the last domain) is tied to the code by exact integer correspondence evaluated by "
        "vm_compute (points, weights, sizes, all chunk sizes, both routes).",
        "Trusted: Coq kernel+vm_compute; hand model of MultiDomainGrid tied by sampled exact correspondence (integer grids, "
        "integrands as monomial data); IEEE rounding is outside the model (exact integers are used).",
        "DESIGN.md section 6 C18",
    ),
    "C14": (
        "Coq proof over the order generators re-translated from utils.py each run + exact/oracle correspondence of Grid.moments",
        "11 theorems: the Cartesian / pure / pure-radial / radial order lists (generator translated from the Python source on every "
        "run) are exactly the documented sets in Horton order without duplicates for every order; (l,m)->row index arithmetic is the "
        "position in the order list; every entry of the moments model is the quadrature of f times the basis function about the "
        "centre for all four types and any number of centres; dipole helper formula. Model of Grid.moments tied by exact Z "
        "correspondence (Cartesian) and by bigQ model + independent closed-form solid harmonics (pure types).",
        "Trusted: Coq kernel+vm_compute; the ast translator for generate_orders_horton_order (validated by exact correspondence for "
        "orders 0..8/12); solid-harmonic oracle hypothesis `solid_rows` (validated numerically each run); stdlib real axioms for dipole_spec.",
        "DESIGN.md section 6 C14",
    ),
})

CLAIMED.update({
    "C03": (
        "Coq/Coquelicot proofs (auto_derive + field, symbolic real parameters) over formulas re-translated from rtransform.py each run + interval-arithmetic translation validation",
        "89 theorems about the definitions regenerated from src/grid/rtransform.py on every run (py2coq/real): for each of the 11 transform "
        "classes and ALL real parameters the constructor admits (k, m any positive real) and all interior x: deriv/deriv2/deriv3 are the "
        "successive derivatives of transform (is_derive), inverse undoes transform both ways, sign of deriv (monotonicity; MultiExp decreasing), "
        "value end points; the generic BaseTransform.deriv*_inverse and InverseRTransform formulas are the first three derivatives of the "
        "inverse map (inverse function theorem, proved once, instantiated for Becke/MultiExp/Knowles/Handy). The translator is validated on "
        "every run by `interval` enclosures of each generated term against the implementation's float output at random dyadic inputs.",
        "Trusted: Coq kernel; stdlib real-number axioms (reported per theorem); py2coq/real translator (fail-closed subset) + interval "
        "tactic for its validation; IEEE rounding < 1e-9 relative at sampled points; trim_inf endpoint branch and array/scalar dispatch are "
        "checked on the implementation only; HandyMod theorems assume the common denominator is non-zero (2^m - 1 < rmax - rmin for monotonicity); "
        "left end points of Rpower-based maps (x = -1) are outside Rpower's domain and covered by the implementation sweep only.",
        "DESIGN.md section 6 C03",
    ),
})

CLAIMED.update({
    "C10": (
        "Coq proof by induction over operation histories of a per-class state-machine model (lazy k-d tree as oracle) + history correspondence",
        "19 theorems: for every grid class, every history (incl. histories that continue on a grid returned by a selection, operation `Enter`) of point/weight reassignments, queries and selections, the query result is a "
        "permutation of the brute-force ball specification over the grid's current public points and weights (full strength under the "
        "`good` configuration; a `_partial` version for any configuration lists exactly which histories are excluded), inf radius = whole "
        "grid, indices map back, selection by int / NumPy int / slice / index array / mask returns exactly the selected rows with domain or "
        "lattice carried over; five `_refuted` theorems with concrete witnesses for the defects of the pinned code (each replayed on the "
        "implementation every run and listed as a known finding). Model tied by random history correspondence evaluated by vm_compute.",
        "Trusted: Coq kernel+vm_compute; stdlib real axioms (radius_bridge only); k-d tree oracle hypothesis `oracle_ok` (validated "
        "against scipy cKDTree each run); hand model per class with 7 behaviour flags decided on each run from directed witness histories "
        "and validated by the random-history correspondence; integer coordinates only (float round-off at ball boundaries out of scope).",
        "DESIGN.md section 6 C10",
    ),
})

CLAIMED.update({
    "C17": (
        "Coq/Coquelicot proofs on formulas symbolically executed from coulomb.py each run (erf defined as an integral) + integral/interval translation validation",
        "15 theorems on the terms regenerated from coulomb.py (masked NumPy statements symbolically executed over the r<threshold / r>=threshold "
        "partition): for all alpha>0, r>0 the s-type function satisfies the radial Poisson equation (rV)'' = -4 pi r rho for its documented "
        "density (first derivative computed by auto_derive, not typed by hand), the small-r values are the r->0 limits of the main branches, "
        "unnormalised variants differ by the documented factors (and that factor relates the two densities), superposition, every shipped "
        "parameter set well-formed (computed); far field: erf (DEFINED as 2/sqrt(pi) int_0^x e^(-t^2)) tends to 1 with 0 <= 1 - erf x <= 4/pi e^(-x^2) - the Gaussian "
        "integral is PROVED (differentiation under the integral sign, atan 1 = pi/4), hence r*V(r) -> total charge with explicit Gaussian bounds for s, "
        "unnormalised s, p and unnormalised p. p_poisson is REFUTED on the current code (p_poisson_refuted_lemma; known finding, the test "
        "suite pins the wrong formula); its positive proof script is kept and was validated against the corrected formula.",
        "Trusted: Coq kernel; stdlib real axioms; the symbolic executor for coulomb_gaussian_s/p (validated by `integral`+`interval` enclosures "
        "each run); scipy erf accuracy; partial: continuity across the 1e-12 switch is a floating-point statement and is checked on the "
        "implementation (mpmath oracle) only.",
        "DESIGN.md section 6 C17",
    ),
    "C13": (
        "Coq proofs (lia/induction/interval) over index maps re-translated from cubic.py each run and hand models of layout/weights/box/closest point + exact correspondence",
        "36 theorems: flat index <-> coordinates round trips for every 2-D/3-D shape on the definitions regenerated from the source each run; "
        "layout (point at index = origin + i a1 + j a2 + k a3, last index fastest, skewed axes), tensor weights and separability; weight-sum "
        "bound for Rectangle/Trapezoid/Alternative for all shapes, Fourier1 factorisation for all shapes and the bound for n_i <= 64 "
        "(`_partial`, bound in the statement); from_molecule box margins (`_partial` + `box_refuted`), closest_point (`_partial` for positive "
        "diagonal axes within half a spacing + `closest_refuted`), cube data chunking, tricubic reproduction over a spline oracle, log-variant "
        "chain rule to order 3; `fourier2_refuted`. Hand models tied by exact integer/rational correspondence; six known findings re-derived each run.",
        "Trusted: Coq kernel+vm_compute; stdlib real/classical axioms and primitive-float axioms (Interval) for the Fourier1 bounds; index-map "
        "translator (validated exhaustively on small shapes); 1-D spline oracle (validated on cubics against scipy each run); the decimal "
        "cube-file codec, interpolation beyond the oracle, Fourier1 for n>64 and log-variant order>3 are covered by sweeps only (partial).",
        "DESIGN.md section 6 C13",
    ),
})

CLAIMED.update({
    "C04": (
        "Coq proofs over the point/weight formulas re-translated from transform_1d_grid each run (list induction, Coquelicot RInt change of variables) + interval correspondence",
        "8 theorems on the formulas regenerated from BaseTransform.transform_1d_grid (composed with C03's regenerated transforms): nodes are the "
        "mapped nodes; the sum of f over the new grid equals the old rule applied to f(r(x)) times the Jacobian factor (= its magnitude wherever "
        "the factor is non-negative), for every grid and integrand; non-negative weights stay non-negative for increasing maps; the new domain is "
        "ordered and contains every node for monotone maps in either direction; a rule exact to degree D on [-1,1] mapped linearly to [a,b] is "
        "exact to degree D on [a,b] (affine substitution closure + RInt_comp_lin). `weights_nonneg_decreasing` is REFUTED on the current code "
        "(signed derivative; known finding pinned by the test-suite).",
        "Trusted: Coq kernel; stdlib real axioms; pattern-checked translator of transform_1d_grid + C03's translator (validated by interval "
        "enclosures); oracle hypothesis of exactness transport (reference rule exact to degree D; validated for Gauss-Legendre with exact "
        "rational moments by the sweep); OneDGrid's domain validation and np.sort of the image are checked on the implementation only.",
        "DESIGN.md section 6 C04",
    ),
})

CLAIMED.update({
    "C11": (
        "Coq proof (Cauchy-Schwarz completeness of the image box, exactness, no duplicates) of a generic model of PeriodicGrid.get_localgrid + exact bigQ correspondence and brute-force oracle",
        "13 theorems at R for any list of lattice vectors with dual reciprocal vectors (up to 3 dimensions): every (point, lattice translation) "
        "inside the sphere lies in the enumerated integer box (`complete`), the model's range is the code's ceil/floor formula, the local grid is "
        "exactly the set of images within the radius with parent weight and index, no duplicates, stored position = parent + translation, "
        "wrapping is irrelevant, no lattice = plain grid; `_refuted` theorems document the three defects of the pinned commit (repaired by fix: "
        "commits). Model tied by exact correspondence at bigQ on dyadic lattices and by a brute-force integer oracle on the implementation.",
        "Trusted: Coq kernel+vm_compute; stdlib real and funext axioms; hypotheses validated each run: reciprocal vectors of the code (SVD "
        "pseudo-inverse) are dual to the lattice vectors, cKDTree ball query contract; dimension <= 3, at least one point; float ties on box "
        "boundaries are compared modulo lattice vectors.",
        "DESIGN.md section 6 C11",
    ),
    "C07": (
        "Coq proof (induction over the constructor loop; fan-out characterisations) of a model of MolGrid + exact bigQ correspondence and constructor-vs-by-hand differential runs",
        "19 theorems for any number of atoms and any commutative semiring (R instance given): the constructor loop yields the concatenation, the "
        "index table delimits the atoms, weights = atomic weights x aim weights, the molecular integral decomposes into atomic integrals of "
        "w_A f, get_atomic_grid spec, store-independence of every observable except __getitem__ (`_partial`; the full statement is `_refuted` "
        "on the current code: known finding), fan-out of from_size/from_preset/from_pruned (single/list/dict arguments) equals building by hand. "
        "Tie: exact vm_compute correspondence on dyadic grids and bitwise constructor-vs-by-hand comparison on the implementation.",
        "Trusted: Coq kernel+vm_compute; stdlib real axioms for the two R instances; Becke weights, default radial grids and the AtomGrid "
        "builders are Section variables (C05/C06); partial: the end-to-end 1% clause is runtime numerics, covered by a seeded search sweep only "
        "(six presets violate it for a light atom 1.2-1.4 bohr from a heavy atom: known findings).",
        "DESIGN.md section 6 C07",
    ),
})

CLAIMED.update({
    "C02": (
        "kernel-checked exact integer arithmetic (vm_compute over BigZ) of a proved-sound grid checker on the shipped data + numeric search for the rest",
        "Theorems for every l, m: Legendre theory (Bonnet recurrence, derivatives, fixed-order recurrence), correctness of the division-free "
        "integer recurrence, the Cartesian Y_lm is the real spherical harmonic, and `grid_ok_sound`: grid_ok = true implies the real-number "
        "property for that grid (size, points on the sphere to 1e-13, sum of weights = 4 pi and every harmonic of degree <= d integrates to "
        "sqrt(4 pi) delta_l0 to 1e-9; pi through a proved rational enclosure). Per run one generated theorem per constructible grid with "
        "N (d+1)^2 <= B (quick B=1e6: 72 grids; thorough up to 1.2e7: 140 grids) checked by vm_compute on the exact dyadic data; "
        "`covered_grids_exact` lists exactly which grids are covered. The two defective Ahrens-Beylkin files are refuted in the kernel and listed as known findings.",
        "Trusted: Coq kernel+vm_compute; stdlib real/classical/funext axioms and the Uint63 primitives BigZ uses; npz loading and the "
        "normalisation rule re-extracted from angular.py (tied by exact correspondence with AngularGrid(...)). PARTIAL: grids above the cost "
        "bound B are covered only by the numeric search sweep (float64 + exact rational re-evaluation), which can report violations but is not a proof.",
        "DESIGN.md section 6 C02",
    ),
    "C05": (
        "Coq proofs by induction over shells of a generic model of AtomGrid + vm_compute over all regenerated preset tables + exact correspondence",
        "24 theorems (any commutative ring; R instance): constructor builds the product grid of the resolved shells, index table delimits shells, "
        "point j of shell i = centre + r_i (p_j M_i) with weight w_a w_i r_i^2, factorisation of g(r) A(direction) integrands, rotation keeps "
        "radii (under orthogonality of M_i) and never changes weights/indices/degrees, translation, get_shell_grid consistency, sector lookup, "
        "never-coarser, and by vm_compute over all 1374 (preset, element) rows regenerated from the npz files: every row builds except the "
        "listed ones (`presets_build_partial`, refutations for the potassium SG-1 row (repaired) and the silicon SG-3 data row (known finding)).",
        "Trusted: Coq kernel+vm_compute; stdlib real axioms for the R instance; rotation matrices from SciPy assumed orthogonal (validated "
        "numerically each run); sphere nodes unit-norm is C02's; branch constants of from_preset/_get_rgrid_size extracted by ast; float "
        "rounding bounded per case (<= 4 ulp x magnitude); large preset grids compared with a NumPy oracle within 64 ulp.",
        "DESIGN.md section 6 C05",
    ),
    "C06": (
        "Coq proofs at R of the Becke partition (formulas re-translated from becke.py each run) incl. chunking for every chunk size + rational correspondence on the code's own distances",
        "26 theorems for every atom count, order and point: iterated switch maps [-1,1] to itself and is odd, |a| <= 1/2 and antisymmetric "
        "with clipping, cell in [0,1] and s_AB + s_BA = 1, positive denominator (triangle inequality proved for Euclidean coordinates), weights "
        "in [0,1] summing to one, 1/0 at nuclei, dependence on distances only hence rigid-motion invariance, relabeling equivariance, the three "
        "evaluation routes agree, chunked evaluation = unchunked for EVERY chunk size >= 1 and every index table, Hirshfeld shares sum to one, "
        "radius fallback spec for Z = 1..86. switch/alpha/nu/cell/radius/chunk-size formulas are regenerated from the source by ast each run.",
        "Trusted: Coq kernel+vm_compute; stdlib real + funext axioms; ast translator of the leaf formulas (tensor lines hand-modelled with "
        "pinned source text); model executed at bigQ rounded to 2^-256 (cross-checked with exact bigQ on small cases) on distances computed by "
        "the code's own expressions; pro-atom spline is a Section variable; coincident atoms / nan control flow out of scope.",
        "DESIGN.md section 6 C06",
    ),
    "C08": (
        "Coq proofs over loop bodies symbolically executed from utils.py each run (all l for order/azimuthal/derivative structure; l <= 3 closed forms) + interval correspondence + mpmath search",
        "20 theorems on the state transformers regenerated from generate_real_spherical_harmonics / generate_derivative_real_spherical_harmonics / "
        "solid_harmonics / convert_cart_to_sph: for every l_max the loop returns the Y_lm of the recursive definition in Horton-2 order (row "
        "index map proved bijective), +-m share one polar factor with cos/sin azimuthal parts, the theta-derivative output is the true derivative, "
        "2 pi periodicity, solid harmonics definition, Cartesian <-> spherical round trip and the Jacobian used for gradient conversion is the "
        "inverse, polar-derivative output reduced to the Legendre identity for all l,m. `_partial` (l <= 3, all angles): closed forms, addition theorem, polar derivative.",
        "Trusted: Coq kernel; stdlib real/classical/funext axioms; fail-closed symbolic executor for the loop bodies (validated by interval "
        "enclosures l <= 6/10); SciPy sph_harm_y hypothesis validated against 60-digit mpmath each run. PARTIAL: closed forms, addition theorem "
        "and polar derivative beyond l = 3 are covered by the mpmath search (l <= 30..60) only.",
        "DESIGN.md section 6 C08",
    ),
    "C09": (
        "Coq proofs at R by induction over shells of a generic model of the harmonic decomposition/interpolation (spline and angular exactness as validated hypotheses) + rational correspondence",
        "14 theorems for all grids and coefficient tables: shell sums give sqrt(4 pi) g_00(r_i) in both branches, re-weighted sum = grid integral, "
        "the data handed to spline (l,m) is g_lm(r_i) (mixed degrees, pruned-shell zeroing), interpolant reproduces f at grid points and equals "
        "sum spline x harmonic elsewhere, radial / spherical derivatives are derivatives of the same interpolant, Cartesian gradient is the "
        "unique solution of the chain-rule system off the polar axis (`_partial`; `_refuted` on the axis and at the centre: known finding), "
        "spherical average integrates back, molecular interpolant = sum of atomic ones.",
        "Trusted: Coq kernel+vm_compute; stdlib real/funext/classical axioms; oracle hypotheses validated numerically each run: CubicSpline "
        "(knots, linearity, derivative), discrete orthonormality of the angular grids for the product degree (C02), harmonic derivatives (C08); "
        "thresholds and l_max//2 re-read from the source; everything between knots rests on the spline oracle.",
        "DESIGN.md section 6 C09",
    ),
    "C16": (
        "Coq proofs over ODE coefficients / right-hand sides / boundary data / loop nests re-translated from poisson.py and robust_poisson.py each run + interval correspondence through recorded solver calls",
        "20 theorems: the generated ODE is the radial Poisson equation for u = rV (V = u/r identity proved), far-field boundary data = Q/r with "
        "the Y_00 normalisation, the (l,m) loop visits every Horton row exactly once with the spline of the same row, interpolate_laplacian's "
        "row operator and degrees, molecular Laplacian/potential = sum over atoms, linearity in the density, robust recombination for both split "
        "options and exactness on the core model (using C17's s-type Poisson theorem).",
        "Trusted: Coq kernel+vm_compute; stdlib real/classical/funext axioms; ast translator + statement pins (validated by interval enclosures "
        "of every recorded coefficient/boundary value); oracles: ODE solver (linear, solves what it is given), splines, harmonic rows, NNLS. "
        "PARTIAL: agreement with analytic potentials within the documented accuracy is runtime numerics (seeded sweeps at the tests' tolerance).",
        "DESIGN.md section 6 C16",
    ),
    "C19": (
        "Coq proof by induction over call histories of a heap/alias model whose aliasing configuration is re-extracted from the source each run + history correspondence",
        "28 theorems for every history (incl. `results_function_of_call`: with the guard in place and every scale user storing the scale, each result depends only on the call): refinement of the shipped-data specification holds for all histories exactly when the (extracted) "
        "configuration isolates cache entries from returned objects (iff), separation invariant implies refinement, copying at the cache boundary "
        "establishes it, atomic grids inherit it, no counterexample shorter than 2 calls, instance theorems about the configuration extracted from "
        "AngularGrid.__init__ / _generate_atomic_grid / get_shell_grid / load_atomic_gaussian_params / set_maximum_parameter_b (scale b fixed once "
        "=> results independent of call order). Tie: random histories compared bit-for-bit (incl. np.shares_memory structure) inside Coq.",
        "Trusted: Coq kernel+vm_compute (no axioms); fail-closed abstract interpreter extracting the aliasing configuration (straight-line "
        "subset); caller edits modelled as whole-array fills / reassignments; numerical content of transform calls uninterpreted.",
        "DESIGN.md section 6 C19",
    ),
    "C20": (
        "Coq soundness proof of a may-alias/write checker over an effect IR generated from the ten anchored modules each run + dynamic snapshot tie",
        "`analysis_sound`: for every IR program, summary table and execution, a function accepted by the checker leaves every object reachable "
        "from an argument and every callback result unchanged; `C20_static`: all 252 generated functions are accepted except a pinned exception "
        "list (vm_compute), `C20_generated_sound`, and the rejected ones are really rejected at their write sites. Dynamic tie: ~350/1040 public "
        "calls with byte-wise argument snapshots, read-only arrays, aliased arguments and callbacks returning their argument or a cached array; "
        "every observed mutation must be predicted statically and vice versa.",
        "Trusted: Coq kernel+vm_compute (no axioms); the Python->IR translator and its effect tables for NumPy/SciPy (validated dynamically); "
        "PARTIAL: six higher-order list-of-closures functions are covered by the dynamic tie only; module globals/caches are C19's.",
        "DESIGN.md section 6 C20",
    ),
})

CLAIMED.update({
    "C01": (
        "Coq/Coquelicot proofs for every n (induction, telescoping trigonometric sums, auto_derive) over index-function models with leaves re-translated from onedgrid.py each run + interval correspondence + mpmath moment oracle",
        "49 theorems for every admissible n: trapezoid/midpoint/Simpson exactness (induction), discrete Chebyshev orthogonality at the Fejer-1/"
        "Gauss-Chebyshev, Clenshaw-Curtis and Fejer-2 nodes, Clenshaw-Curtis exact to degree n-1 for the weights AS THE CODE COMPUTES THEM, "
        "Fejer-1/Fejer-2 exact to the degrees that hold (`_partial`), `_refuted` at n=3 and a proof that the defect occurs at every odd n (Fejer-1) "
        "/ every n (Fejer-2) plus proofs that the proposed fixes are exact for every n; Gauss-Chebyshev exactness unconditionally, Chebyshev-2 / "
        "Laguerre / Legendre wrappers under oracle hypotheses; for every substitution rule weight = h x derivative of the (translated) node map, "
        "positive weights, ascending nodes inside the declared domain; shape theorems for all closed-form rules.",
        "Trusted: Coq kernel; stdlib real/classical/funext axioms; py2coq/real leaf translator + constructor-body translator (validated by "
        "interval enclosures of every node and weight for n = 2..12 (quick) / up to 60 (thorough)); array-level constructors are hand models tied "
        "at the sampled n; oracle hypotheses for leggauss / roots_chebyu / roots_genlaguerre validated each run by mpmath moments. PARTIAL: "
        "monotonicity and end-point limit of the Trefethen strip map are numerical only.",
        "DESIGN.md section 6 C01",
    ),
    "C15": (
        "Coq/Coquelicot proofs (chain rule to order 3, Bell matrix, explicit form, solution transfer) over helper terms symbolically executed from ode.py each run + interval correspondence through a recording solver stub",
        "33 theorems: for every thrice-differentiable transformation g and all coefficient values the generated coefficients of "
        "_transform_ode_from_derivs satisfy sum a_k y^(k)(x) = sum b_j u^(j)(g x) for y = u o g (orders 1..3), the generated derivative "
        "transformation matrix maps u-jets to y-jets and is invertible iff g' != 0, the explicit first-order form is equivalent to the ODE when "
        "the leading coefficient is non-zero, and if the solver oracle's U solves the transformed problem then the returned callable satisfies "
        "the stated ODE and the stated initial/boundary data in the original variable (IVP and BVP, orders 1..3), instantiated with C03's "
        "regenerated Becke, Knowles and MultiExp transforms.",
        "Trusted: Coq kernel; stdlib real/classical axioms; fail-closed symbolic interpreter for the helper bodies + pattern check of the "
        "hand-modelled wiring (validated by interval enclosures through a recording stub of solve_ivp/solve_bvp); oracles: sympy.bell, "
        "scipy.linalg.solve, solve_ivp/solve_bvp contract. PARTIAL: 'within the solver tolerance' and uniqueness are runtime numerics "
        "(manufactured-solution sweep over all transform classes, IVP methods and BVPs).",
        "DESIGN.md section 6 C15",
    ),
})

NOT_YET = {
    # pid: reason (kept current; a property moves to CLAIMED once its check is green on the unchanged tree)
}


def main():
    props = [json.loads(l) for l in open("/verif/properties.jsonl")]
    checks = []
    for p in props:
        pid = p["id"]
        if pid not in CLAIMED:
            continue
        tech, text, note, ref = CLAIMED[pid]
        checks.append({
            "property_id": pid,
            "quick_cmd": f"./check {pid} --tier quick",
            "thorough_cmd": f"./check {pid} --tier thorough",
            "evidence_file": f"/verif/evidence/{pid}.json",
            "replay_cmd_template": f"./check {pid} --replay {{path}}",
            "engine": "coq-proof+correspondence",
            "level_claimed": {"category": "proof", "text": text, "design_ref": ref},
            "level_note": note,
            "technique": tech,
        })
    na = []
    for p in props:
        pid = p["id"]
        if pid not in CLAIMED:
            na.append({"property_id": pid, "reason": NOT_YET.get(pid, "check not yet built/green on the unchanged tree in this round (see DESIGN.md section 6 for the plan); not claimed until it is")})
    man = {
        "version": 1,
        "setup_cmd": "./setup.sh",
        "hooks": {
            "guard": "THEOCHEM_GRID_VERIF",
            "enable": "no hooks are needed: all observation is through the public API and module-level helpers",
            "baseline_off_cmd": "cd /repo && /venv/bin/python -m pytest -ra -q -p no:cacheprovider --timeout=900 --continue-on-collection-errors",
            "source_commits": [],
            "add_only": True,
        },
        "engines": [{
            "name": "coq-proof+correspondence",
            "path": "/verif/check",
            "serves_properties": [c["property_id"] for c in checks],
            "kind_free_text": "Coq 8.16.1 theorems about models regenerated from /repo (py2coq translators) or hand models tied by "
                              "vm_compute/interval correspondence with the implementation on every run",
        }],
        "checks": checks,
        "not_applicable": na,
        "notes": "Single entry point ./check <id> [--tier quick|thorough]; honours VERIF_SEED and VERIF_TIER. Known findings: /verif/known_findings.jsonl.",
    }
    json.dump(man, open("/verif/MANIFEST.json", "w"), indent=1)
    print(f"MANIFEST.json: {len(checks)} checks, {len(na)} not claimed")


if __name__ == "__main__":
    sys.exit(main())
