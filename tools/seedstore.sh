#!/bin/bash
# usage: tools/seedstore.sh <outprefix e.g. /tmp/seedout3-> <letters e.g. "E F"> <pids...>  -- copy seed artefacts into seeded/
pre=$1; letters=$2; shift 2
for pid in "$@"; do for v in $letters; do
  [ -f $pre$pid/patch_$v.diff ] || { echo "missing $pid-$v"; continue; }
  d=seeded/$pid-$v; mkdir -p $d; cp $pre$pid/patch_$v.diff $d/patch.diff; cp $pre$pid/demo_$v.py $d/demo.py; cp $pre$pid/meta_$v.json $d/meta_agent.json
  [ -f $pre$pid/apply_$v.sh ] && { cp $pre$pid/apply_$v.sh $d/apply.sh; cp $pre$pid/*.npz $d/ 2>/dev/null; }
done; done
