#!/bin/bash
# usage: tools/seeds.sh Cxx [tier]   -- runs seeds 0,1,2 and prints the summary lines
for s in 0 1 2; do VERIF_SEED=$s ./check $1 --tier ${2:-quick} 2>&1 | grep -E "^VIOLATION|^\[C|Traceback" ; done
