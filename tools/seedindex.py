#!/usr/bin/env python3
"""Write seeded/INDEX.md from seeded/*/meta.json (which seeded change is caught by which check, and how)."""
import glob
import json
rows = []
for f in sorted(glob.glob('/verif/seeded/*/meta.json')):
    m = json.load(open(f))
    r = m.get('ran', {})
    rows.append((m['seed'], m['property'], (m.get('summary') or '')[:230].replace('\n', ' ').replace('|', '/'),
                 'yes' if m.get('confirmed') else 'NO', 'exit 1' if m.get('caught') else 'MISSED',
                 f"{r.get('check_violations_with_input', 0)}/{r.get('check_violations', 0)}", m.get('repo_head', '')))
out = ["# Seeded breaking changes", "",
       "Each directory holds `patch.diff` (or `apply.sh` for data files), `demo.py` (exits 0 on the unchanged code, 1 with the change),",
       "`meta_agent.json` (the author's description and the tests they ran) and `meta.json` (what the lead re-ran: demo on HEAD, demo with",
       "the change, the test files with the change, and `VERIF_REPO=<scratch worktree> ./check <property>`).", "",
       "| seed | property | change | confirmed | check | violations with concrete input / all | /repo HEAD |", "|---|---|---|---|---|---|---|"]
out += ["| " + " | ".join(r) + " |" for r in rows]
open('/verif/seeded/INDEX.md', 'w').write("\n".join(out) + "\n")
print(len(rows), "seeds;", sum(1 for r in rows if r[4] == 'exit 1'), "caught;", sum(1 for r in rows if r[3] == 'yes'), "confirmed")
