"""Core of the verification harness: build directory, Coq compilation, Coq evaluation of
correspondence cases, failure/known-finding bookkeeping, evidence writing.

Everything that depends on /repo is rebuilt in /verif/build/<pid>/ on every run.
"""
from __future__ import annotations

import concurrent.futures as cf
import hashlib
import json
import os
import random
import re
import shutil
import subprocess
import sys
import time
from pathlib import Path

VERIF = Path("/verif")
REPO = Path(os.environ.get("VERIF_REPO", "/repo"))
SRC = REPO / "src" / "grid"
COQLIB = VERIF / "coq" / "lib"
# runs against a scratch copy (VERIF_REPO, used for mutation tests) must not overwrite the evidence / replays of /repo itself
ALT = str(REPO) != "/repo"
EVID_DIR = VERIF / "build" / "evidence_alt" if ALT else VERIF / "evidence"
REPLAY_ROOT = VERIF / "build" / "replays_alt" if ALT else VERIF / "replays"
FORBIDDEN = re.compile(
    r"\b(Admitted|admit|Axiom|Parameter|Conjecture|Unset\s+Guard|bypass_check|Admit\s+Obligations|"
    r"Unset\s+Positivity|Unset\s+Universe)\b"
)
# a Variable/Hypothesis outside a Section also declares an axiom; checked in scan_forbidden


class Failure:
    def __init__(self, obligation, key, observed, text, replay, found_input=True):
        self.obligation = obligation  # name of theorem / correspondence that no longer checks
        self.key = key  # canonical string identifying the concrete failing input
        self.observed = observed  # fingerprint: list of floats / string / None
        self.text = text
        self.replay = replay  # dict written to the replay file
        self.found_input = found_input


def _fp_match(a, b, rtol=1e-9):
    if isinstance(a, (int, float)) and isinstance(b, (int, float)):
        if a != a and b != b:
            return True
        return abs(a - b) <= rtol * max(1.0, abs(a), abs(b))
    if isinstance(a, (list, tuple)) and isinstance(b, (list, tuple)):
        return len(a) == len(b) and all(_fp_match(x, y, rtol) for x, y in zip(a, b))
    return a == b


class Ctx:
    def __init__(self, pid: str, tier: str, seed: int, keep: bool = False):
        self.pid = pid
        self.tier = tier
        self.seed = seed
        self.keep = keep
        self.rng = random.Random(f"{pid}:{seed}")
        self.t0 = time.time()
        self.build = VERIF / "build" / pid
        # one run per property at a time: the build directory is wiped below (lock held until the process exits)
        import fcntl
        (VERIF / "build").mkdir(exist_ok=True)
        self._lock = open(VERIF / "build" / f".lock-{pid}", "w")
        fcntl.flock(self._lock, fcntl.LOCK_EX)
        if self.build.exists():
            shutil.rmtree(self.build)
        self.build.mkdir(parents=True)
        for old in (REPLAY_ROOT / pid).glob(f"{tier}_*.json"):
            old.unlink()
        self.obligations: dict[str, dict] = {}  # name -> {file,status,axioms}
        self.failures: list[Failure] = []
        self.samples: list = []
        self.cov: dict = {}
        self.trusted: list[str] = []
        self.assumptions: list[str] = []
        self.traces = 0
        self.evaluations = 0
        self.distinct = set()
        self.logs: dict[str, str] = {}
        self.gen_units: list[dict] = []
        self.notes: list[str] = []

    def known_records(self):
        recs = []
        kf = VERIF / "known_findings.jsonl"
        if kf.exists():
            for line in kf.read_text().splitlines():
                line = line.strip()
                if line and not line.startswith("#"):
                    rec = json.loads(line)
                    if rec.get("status") == "known" and rec.get("property") == self.pid:
                        recs.append(rec)
        return recs

    def is_known(self, key, observed) -> bool:
        return any(r.get("key") == key and _fp_match(r.get("observed"), observed) for r in self.known_records())

    def broken_tie(self, what: str, err, candidates: list[tuple]):
        """The translator / model tie is broken (`err`). `candidates` are failures of the property found on the
        implementation by the search: (key, observed, text, replay). The first one that is not a listed known finding
        becomes the replay of the violation; if there is none the violation is reported as no-failing-input-found."""
        for key, observed, text, replay in candidates:
            if not self.is_known(key, observed):
                rp = dict(replay or {})
                rp["broken_tie"] = f"{what}: {err}"
                self.fail(what, key, observed, f"{text}  [found while {what} no longer checks: {err}]", rp)
                return
        self.fail(what, f"{what}:{type(err).__name__}", None, f"{what} no longer checks: {err}", {"error": str(err)}, found_input=False)

    @property
    def quick(self):
        return self.tier == "quick"

    # ------------------------------------------------------------------ files
    def write(self, name: str, text: str) -> Path:
        p = self.build / name
        p.write_text(text)
        return p

    def gen(self, name: str, text: str, units: list[dict] | None = None):
        """Write a generated .v file (translator output)."""
        self.write(name, text)
        for u in units or []:
            self.gen_units.append(u)

    def copy_coq(self, *pids_or_files):
        """Copy hand-written Coq files of the given property dirs (coq/<pid>/*.v) or explicit paths."""
        for x in pids_or_files:
            p = VERIF / "coq" / x
            files = sorted(p.glob("*.v")) if p.is_dir() else [p]
            for f in files:
                shutil.copy(f, self.build / f.name)

    # ------------------------------------------------------------------ coq
    def _coq_args(self):
        return ["-Q", str(COQLIB), "VLib", "-Q", str(self.build), "P", "-w", "-all"]

    def scan_forbidden(self, files):
        bad = []
        for f in files:
            txt = re.sub(r"\(\*.*?\*\)", "", Path(f).read_text(), flags=re.S)
            for m in FORBIDDEN.finditer(txt):
                bad.append(f"{Path(f).name}: {m.group(0)}")
            depth = 0
            for line in txt.splitlines():
                s = line.strip()
                if re.match(r"Section\s+\w+", s):
                    depth += 1
                elif re.match(r"End\s+\w+", s) and depth > 0:
                    depth -= 1
                elif depth == 0 and re.match(r"(Variables?|Hypothes[ie]s|Context)\b", s):
                    bad.append(f"{Path(f).name}: {s[:40]} outside a Section")
        return bad

    def coq_build(self, timeout_per_file=900, jobs=16) -> dict[str, bool]:
        """Compile every .v in the build dir (dependency order, in parallel). Returns file->ok."""
        files = sorted(self.build.glob("*.v"))
        bad = self.scan_forbidden(files)
        if bad:
            self.logs["forbidden"] = "\n".join(bad)
        names = [f.name for f in files]
        out = subprocess.run(
            ["coqdep"] + self._coq_args()[:-2] + names, cwd=self.build, capture_output=True, text=True
        ).stdout
        deps: dict[str, set] = {n: set() for n in names}
        for line in out.splitlines():
            if ":" not in line:
                continue
            lhs, rhs = line.split(":", 1)
            tgt = [t for t in lhs.split() if t.endswith(".vo")]
            if not tgt:
                continue
            v = Path(tgt[0]).name[:-1]  # X.vo -> X.v
            if v not in deps:
                continue
            for d in rhs.split():
                dn = Path(d).name
                if dn.endswith(".vo") and dn[:-1] in deps and dn[:-1] != v and str(Path(d).parent) in (".", str(self.build)):
                    deps[v].add(dn[:-1])
        status: dict[str, bool | None] = {n: None for n in names}
        if bad:
            for b in bad:
                status[b.split(":")[0]] = False

        def compile_one(n):
            t = time.time()
            try:
                r = subprocess.run(
                    ["timeout", str(timeout_per_file), "coqc"] + self._coq_args() + [n],
                    cwd=self.build, capture_output=True, text=True,
                )
                ok = r.returncode == 0
                log = r.stdout + r.stderr
            except Exception as e:  # pragma: no cover
                ok, log = False, repr(e)
            return n, ok, log, time.time() - t

        pending = set(n for n in names if status[n] is None)
        running = {}
        with cf.ThreadPoolExecutor(max_workers=jobs) as ex:
            while pending or running:
                for n in sorted(pending):
                    ds = deps[n]
                    if any(status[d] is False for d in ds):
                        status[n] = False
                        self.logs[n] = "skipped: dependency failed: " + ",".join(d for d in ds if status[d] is False)
                        pending.discard(n)
                    elif all(status[d] is True for d in ds):
                        running[ex.submit(compile_one, n)] = n
                        pending.discard(n)
                if not running:
                    if pending:  # cycle
                        for n in pending:
                            status[n] = False
                            self.logs[n] = "dependency cycle"
                        pending = set()
                    continue
                done, _ = cf.wait(list(running), return_when=cf.FIRST_COMPLETED)
                for fut in done:
                    n, ok, log, dt = fut.result()
                    del running[fut]
                    status[n] = ok
                    self.logs[n] = log
                    self.cov.setdefault("coq_files", {})[n] = {"ok": ok, "s": round(dt, 1)}
        self.failed_files = [n for n, s in status.items() if not s and "refuted" not in n]
        return {n: bool(s) for n, s in status.items()}

    def register_props(self, status: dict[str, bool], coqchk: bool = True):
        """Every `Theorem/Lemma name` in *_props*.v is an obligation; parse Print Assumptions output."""
        for f in sorted(self.build.glob("*props*.v")):
            txt = f.read_text()
            thms = re.findall(r"^\s*(?:Theorem|Lemma|Corollary)\s+(\w+)", txt, flags=re.M)
            pas = re.findall(r"Print\s+Assumptions\s+(\w+)\s*\.", txt)
            ok = status.get(f.name, False)
            log = self.logs.get(f.name, "")
            blocks = []
            if ok:
                cur = None
                for line in log.splitlines():
                    if line.startswith("Closed under the global context"):
                        blocks.append([])
                        cur = None
                    elif line.startswith("Axioms:"):
                        cur = []
                        blocks.append(cur)
                    elif cur is not None and re.match(r"^[A-Za-z_][\w.']*", line):
                        # an axiom entry starts in column 0 with its (qualified) name; its type may wrap
                        cur.append(re.match(r"^[A-Za-z_][\w.']*", line).group(0))
            for t in thms:
                ax = None
                if ok and t in pas and len(blocks) == len(pas):
                    ax = blocks[pas.index(t)]
                self.obligations[t] = {
                    "file": f.name,
                    "status": "discharged" if ok else "failed",
                    "axioms": ax,
                }
                if ok and t not in pas:
                    self.obligations[t]["status"] = "failed"
                    self.logs[f.name + ":" + t] = "no Print Assumptions for theorem"
        if coqchk and self.tier == "thorough" and os.environ.get("VERIF_COQCHK", "1") != "0":
            self.coqchk(status)

    def mark_refuted(self, name, refuted_thm):
        """The positive obligation `name` does not hold of the faithful model: `refuted_thm` (a compiled
        `..._refuted` theorem) proves its negation.  It counts as decided iff every failure reported for it
        is a listed known finding."""
        if name in self.obligations:
            self.obligations[name]["refuted_by"] = refuted_thm

    def coqchk(self, status, timeout=1500):
        """thorough tier: re-check the compiled property files (and everything they depend on) with the independent
        checker and record the axioms it reports. A timeout is recorded as a note, a rejection is a failure."""
        skip = tuple(getattr(self, "coqchk_skip", ()))  # bulk vm_compute certificates whose re-evaluation by coqchk exceeds the budget
        allm = [f.stem for f in sorted(self.build.glob("*props*.v")) if status.get(f.name)]
        mods = ["P." + m for m in allm if m not in skip]
        mods += ["P." + m for m in getattr(self, "coqchk_extra", ()) if status.get(m + ".v")]  # dependencies re-checked on their own
        skipped = [m for m in allm if m in skip]
        if not mods:
            return
        t = time.time()
        try:
            r = subprocess.run(["timeout", str(timeout), "coqchk", "-silent", "-o", "-Q", str(COQLIB), "VLib", "-Q", str(self.build), "P"] + mods,
                               cwd=self.build, capture_output=True, text=True)
            out = r.stdout + r.stderr
        except Exception as e:  # pragma: no cover
            out, r = repr(e), None
        info = {"modules": len(mods), "s": round(time.time() - t, 1)}
        if skipped:
            info["not_rechecked"] = skipped
        if r is not None and r.returncode == 124:
            info["result"] = "timeout"
            self.notes.append(f"coqchk did not finish within {timeout}s")
        elif r is not None and r.returncode == 0 and "CONTEXT SUMMARY" in out:
            info["result"] = "ok"
            m = re.search(r"\* Axioms:(.*?)\n\s*\n\* Constants/Inductives relying on type-in-type", out, flags=re.S)
            axs = re.findall(r"^\s+([A-Za-z_][\w.']*)", m.group(1), flags=re.M) if m else []
            info["axioms"] = sorted(set(a for a in axs if a != "<none>"))
            for key in ("type-in-type", "unsafe (co)fixpoints", "positivity is assumed"):
                mm = re.search(re.escape(key) + r": (.*)", out)
                if mm and "<none>" not in mm.group(1):
                    self.fail("coqchk", f"coqchk:{key}", None, f"coqchk reports {key}: {mm.group(1)[:200]}", found_input=False)
        else:
            info["result"] = "rejected"
            self.fail("coqchk", "coqchk:rejected", None, "coqchk rejected the compiled development", {"tail": out[-2000:]}, found_input=False)
        self.cov["coqchk"] = info

    def add_obligation(self, name, ok, file="", axioms=None):
        self.obligations[name] = {"file": file, "status": "discharged" if ok else "failed", "axioms": axioms}

    def coq_run(self, name: str, text: str, timeout=600) -> tuple[bool, str]:
        """Compile one generated case file (after coq_build); returns (ok, output)."""
        self.write(name, text)
        r = subprocess.run(
            ["timeout", str(timeout), "coqc"] + self._coq_args() + [name],
            cwd=self.build, capture_output=True, text=True,
        )
        return r.returncode == 0, r.stdout + r.stderr

    def coq_run_many(self, files: dict[str, str], timeout=600, jobs=16) -> dict[str, tuple[bool, str]]:
        for n, t in files.items():
            self.write(n, t)

        def one(n):
            r = subprocess.run(
                ["timeout", str(timeout), "coqc"] + self._coq_args() + [n],
                cwd=self.build, capture_output=True, text=True,
            )
            return n, (r.returncode == 0, r.stdout + r.stderr)

        with cf.ThreadPoolExecutor(max_workers=jobs) as ex:
            return dict(ex.map(one, list(files)))

    def coq_bool_cases(self, name: str, header: str, cases: list[str], shard=400, timeout=900):
        """cases: Coq expressions of type bool. Returns list of indices that evaluate to false
        (or all indices of a shard if the shard fails to compile)."""
        files = {}
        shards = [cases[i : i + shard] for i in range(0, len(cases), shard)]
        for k, sh in enumerate(shards):
            body = [header, "Definition cases : list bool := ["]
            body.append(";\n".join("  (" + c + ")" for c in sh))
            body.append("].")
            body.append(
                "Fixpoint bad_idx (i : nat) (l : list bool) : list nat := match l with nil => nil "
                "| cons b t => if b then bad_idx (S i) t else cons i (bad_idx (S i) t) end."
            )
            body.append('Goal True. let r := eval vm_compute in (bad_idx O cases) in idtac "BADIDX" r. Abort.')
            files[f"{name}_{k}.v"] = "\n".join(body)
        res = self.coq_run_many(files, timeout=timeout)
        bad = []
        for k, sh in enumerate(shards):
            ok, out = res[f"{name}_{k}.v"]
            m = re.search(r"BADIDX\s*(.*)", out, flags=re.S)
            if not ok or not m:
                self.logs[f"{name}_{k}.v"] = out[-3000:]
                raise RuntimeError(f"correspondence case file {name}_{k}.v did not evaluate: {out[-400:]}")
            txt = m.group(1)
            txt = txt.split("\n\n")[0]
            for num in re.findall(r"\d+", txt):
                bad.append(k * shard + int(num))
        return bad

    def coq_tactic_cases(self, name: str, header: str, cases: list[tuple[str, str]], shard=60, timeout=900):
        """cases: (goal, tactic).  Each is run as `Goal g. first [tac; idtac OK | idtac FAIL]. Abort.`
        Returns list of failing indices."""
        files = {}
        shards = [cases[i : i + shard] for i in range(0, len(cases), shard)]
        for k, sh in enumerate(shards):
            body = [header]
            for j, (g, tac) in enumerate(sh):
                i = k * shard + j
                body.append(
                    f'Goal {g}.\nProof. first [ solve [ {tac} ]; idtac "CASEOK" "{i}" | idtac "CASEFAIL" "{i}" ]. Abort.'
                )
            files[f"{name}_{k}.v"] = "\n".join(body)
        res = self.coq_run_many(files, timeout=timeout)
        bad = []
        for k, sh in enumerate(shards):
            ok, out = res[f"{name}_{k}.v"]
            oks = set(int(x) for x in re.findall(r'CASEOK "?(\d+)"?', out))
            for j in range(len(sh)):
                i = k * shard + j
                if i not in oks:
                    bad.append(i)
            if not ok:
                self.logs[f"{name}_{k}.v"] = out[-3000:]
        return bad

    # ------------------------------------------------------------------ failures
    def fail(self, obligation, key, observed, text, replay=None, found_input=True):
        rp = dict(replay or {})
        rp.setdefault("property", self.pid)
        rp.setdefault("obligation", obligation)
        rp.setdefault("key", key)
        rp.setdefault("observed", observed)
        rp.setdefault("text", text)
        self.failures.append(Failure(obligation, key, observed, text, rp, found_input))

    def sample(self, s, limit=12):
        if len(self.samples) < limit:
            self.samples.append(s)

    def count(self, key, n=1):
        d = self.cov.setdefault("distribution", {})
        d[key] = d.get(key, 0) + n

    def case(self, distinct_key=None, traces=1):
        self.evaluations += 1
        self.traces += traces
        if distinct_key is not None:
            self.distinct.add(distinct_key)

    # ------------------------------------------------------------------ finish
    def finish(self) -> int:
        known = []
        kf = VERIF / "known_findings.jsonl"
        if kf.exists():
            for line in kf.read_text().splitlines():
                line = line.strip()
                if line and not line.startswith("#"):
                    rec = json.loads(line)
                    if rec.get("status") == "known" and rec.get("property") == self.pid:
                        known.append(rec)
        # a file that does not compile while no obligation is affected must not go unnoticed
        if getattr(self, "failed_files", None) and all(o["status"] == "discharged" for o in self.obligations.values()):
            for n in self.failed_files:
                self.fail(f"build:{n}", f"build:{n}", None, f"Coq file {n} does not compile", {"coq_log_tail": self.logs.get(n, "")[-2500:]}, found_input=False)
        # obligations that failed without an explicit failure record -> generic failure
        explicit = {f.obligation for f in self.failures}
        for name, ob in self.obligations.items():
            if ob["status"] != "discharged" and name not in explicit:
                log = self.logs.get(ob["file"], "")
                self.fail(
                    name, f"obligation:{name}", None,
                    f"theorem {name} ({ob['file']}) no longer checks",
                    {"coq_log_tail": log[-2500:]}, found_input=False,
                )
        violations = 0
        lines = []
        rdir = REPLAY_ROOT / self.pid
        seen_known = set()
        unmatched_obl = set()
        for f in self.failures:
            match = None
            for rec in known:
                if rec.get("key") == f.key and _fp_match(rec.get("observed"), f.observed):
                    match = rec
                    break
            if match is not None:
                if match["key"] not in seen_known:
                    seen_known.add(match["key"])
                    lines.append(f"KNOWN-FINDING: property={self.pid} {match.get('text', f.text)}")
                continue
            violations += 1
            unmatched_obl.add(f.obligation)
            rdir.mkdir(parents=True, exist_ok=True)
            h = hashlib.sha1((f.obligation + "|" + str(f.key)).encode()).hexdigest()[:10]
            rp = rdir / f"{self.tier}_{h}.json"
            rp.write_text(json.dumps(f.replay, indent=1, default=str))
            suffix = "" if f.found_input else " no-failing-input-found"
            lines.append(f"VIOLATION property={self.pid} replay={rp}{suffix}")
            print(f"  [{f.obligation}] {f.text}", file=sys.stderr)
        for l in lines:
            print(l)
        for name, ob in self.obligations.items():
            if ob["status"] != "discharged" and ob.get("refuted_by") and name not in unmatched_obl:
                ob["status"] = f"refuted by {ob['refuted_by']} (listed known finding)"
        n_ob = len(self.obligations)
        n_dis = sum(1 for o in self.obligations.values() if o["status"] == "discharged" or o["status"].startswith("refuted by"))
        axioms = sorted({a for o in self.obligations.values() for a in (o["axioms"] or [])})
        ev = {
            "property_id": self.pid,
            "tier": self.tier,
            "seed": self.seed,
            "level": "proof",
            "coverage": {
                "obligations": n_ob,
                "discharged": n_dis,
                "checker_cmd": f"coqc (Coq 8.16.1 kernel, vm_compute; no native_compute) via ./check {self.pid} --tier {self.tier}",
                "trusted_base": ["Coq 8.16.1 kernel + vm_compute"]
                + [f"axiom (stdlib): {a}" for a in axioms]
                + self.trusted,
                "theorems": {k: {"status": v["status"], "axioms": v["axioms"]} for k, v in self.obligations.items()},
                "traces_validated_against_impl": self.traces,
                "evaluations": max(self.evaluations, 1),
                "distinct_nontrivial": len(self.distinct),
                "rule": self.cov.pop("rule", "see DESIGN.md section 6 for this property"),
                "samples": self.samples or ["(no correspondence samples recorded)"],
                "translated_units": self.gen_units[:200],
                "known_findings_reported": sorted(seen_known),
                "notes": self.notes,
                **self.cov,
            },
            "assumptions": self.assumptions,
            "wall_s": round(time.time() - self.t0, 2),
            "violations": violations,
        }
        EVID_DIR.mkdir(parents=True, exist_ok=True)
        (EVID_DIR / f"{self.pid}.json").write_text(json.dumps(ev, indent=1, default=str))
        if violations and self.logs:
            (self.build / "logs.json").write_text(json.dumps(self.logs, indent=1))
        if not self.keep and not violations:
            # keep disk usage low: drop compiled objects, keep sources for inspection
            for p in self.build.glob("*.vo*"):
                p.unlink()
            for p in self.build.glob("*.glob"):
                p.unlink()
            for p in self.build.glob(".*.aux"):
                p.unlink()
        print(
            f"[{self.pid}] tier={self.tier} seed={self.seed} obligations={n_dis}/{n_ob} "
            f"cases={self.evaluations} violations={violations} known={len(seen_known)} "
            f"wall={ev['wall_s']}s",
            file=sys.stderr,
        )
        return 1 if violations else 0


def src_sha(text: str) -> str:
    return hashlib.sha256(text.encode()).hexdigest()[:16]


# ---------------------------------------------------------------------- number helpers
def z(n: int) -> str:
    """Coq Z literal."""
    return f"({n})%Z" if n < 0 else f"{n}%Z"


def zlist(xs) -> str:
    return "[" + "; ".join(z(int(x)) for x in xs) + "]"


def float_to_frac(x: float):
    """Exact (numerator, denominator) of a finite float."""
    n, d = float(x).as_integer_ratio()
    return n, d


def q_bigq(x) -> str:
    """Exact BigQ literal of a float/int/Fraction:  (n # d)%bigQ."""
    from fractions import Fraction

    fr = Fraction(x)
    return f"(BigQ.Qq ({fr.numerator})%bigZ ({fr.denominator})%bigN)" if fr.denominator != 1 else f"(BigQ.Qz ({fr.numerator})%bigZ)"


def r_lit(x) -> str:
    """Exact real literal (IZR n / IZR d) of a float/int/Fraction."""
    from fractions import Fraction

    fr = Fraction(x)
    if fr.denominator == 1:
        return f"(IZR ({fr.numerator}))"
    return f"(IZR ({fr.numerator}) / IZR {fr.denominator})"
