"""py2coq/real — fail-closed translator from elementwise NumPy formulas (Python ast) to Coq terms over R.

Supported subset (anything else raises Unsupported, which the caller reports as a broken tie):
  expressions : + - * / ** unary-, numeric literals (floats -> exact decimal rationals), names, self._attr,
                self.prop (property returning self._attr), np.pi, np.{exp,log,sqrt,cos,sin,tan,tanh,sinh,cosh,
                arctan,arcsinh,abs,fabs,power,ones,zeros,array,asarray,ones_like,zeros_like}, calls of sibling
                methods, calls through a held transform object, names bound to bound methods
  statements  : assignment / augmented assignment (-> let), return, `with` (transparent),
                `if <guard>: raise` (collected as guard, not part of the value),
                `if self.trim_inf: v = self._convert_inf(v)` (identity on finite values; recorded),
                `self.set_maximum_parameter_b(x)` (state handled by C19; recorded), warnings.warn,
                `if isinstance(x, Number): A else: B`  (array branch B is the model; scalar branch emitted separately)
Exponent rule: literal non-negative integer exponent -> `^` (pow); anything else -> Rpower (positive base only:
theorems carry the hypothesis that makes the base positive).
"""
from __future__ import annotations

import ast
from fractions import Fraction


class Unsupported(Exception):
    pass


UNARY_FUNCS = {
    "exp": "exp", "log": "ln", "sqrt": "sqrt", "cos": "cos", "sin": "sin", "tan": "tan",
    "tanh": "tanh", "sinh": "sinh", "cosh": "cosh", "arctan": "atan", "arcsinh": "arcsinh",
    "abs": "Rabs", "fabs": "Rabs", "absolute": "Rabs",
}


def lit(v) -> str:
    if isinstance(v, bool):
        raise Unsupported("bool literal")
    if isinstance(v, int):
        return f"(IZR ({v}))" if v < 0 else f"{v}"
    if isinstance(v, float):
        if v != v or v in (float("inf"), float("-inf")):
            raise Unsupported("non-finite literal")
        fr = Fraction(repr(v))  # the decimal the source text denotes
        if fr.denominator == 1:
            return lit(int(fr.numerator))
        return f"({fr.numerator} / {fr.denominator})"
    raise Unsupported(f"literal {v!r}")


class Env:
    """Naming environment of one translation unit."""

    def __init__(self, attrs: dict[str, str], props: dict[str, str], siblings: dict[str, str],
                 held: dict[str, dict[str, str]] | None = None, self_name="self"):
        self.attrs = attrs          # self._x -> coq param name
        self.props = props          # property name -> attr name ('b' -> '_b')
        self.siblings = siblings    # method name -> coq function applied to the class params
        self.held = held or {}      # self._tfm -> {method: coq function name}
        self.self_name = self_name
        self.fun_alias: dict[str, str] = {}   # local name bound to a function
        self.notes: list[str] = []
        self.guards: list[str] = []


class Tr:
    def __init__(self, env: Env):
        self.env = env

    # ---------------------------------------------------------------- expressions
    def expr(self, e: ast.expr) -> str:
        env = self.env
        if isinstance(e, ast.Constant):
            return lit(e.value)
        if isinstance(e, ast.Name):
            if e.id in env.fun_alias:
                raise Unsupported(f"function alias {e.id} used as a value")
            return "v_" + e.id
        if isinstance(e, ast.UnaryOp):
            if isinstance(e.op, ast.USub):
                return f"(- {self.expr(e.operand)})"
            if isinstance(e.op, ast.UAdd):
                return self.expr(e.operand)
            raise Unsupported("unary op")
        if isinstance(e, ast.BinOp):
            if isinstance(e.op, ast.Pow):
                return self.power(e.left, e.right)
            a, b = self.expr(e.left), self.expr(e.right)
            op = {ast.Add: "+", ast.Sub: "-", ast.Mult: "*", ast.Div: "/"}.get(type(e.op))
            if op is None:
                raise Unsupported(f"binary op {type(e.op).__name__}")
            return f"({a} {op} {b})"
        if isinstance(e, ast.Attribute):
            return self.attribute(e)
        if isinstance(e, ast.Call):
            return self.call(e)
        raise Unsupported(f"expression {type(e).__name__}: {ast.unparse(e)[:60]}")

    def attribute(self, e: ast.Attribute) -> str:
        env = self.env
        if isinstance(e.value, ast.Name) and e.value.id == env.self_name:
            if e.attr in env.attrs:
                return env.attrs[e.attr]
            if e.attr in env.props and env.props[e.attr] in env.attrs:
                return env.attrs[env.props[e.attr]]
            raise Unsupported(f"self.{e.attr}")
        if isinstance(e.value, ast.Name) and e.value.id in ("np", "numpy", "math") and e.attr == "pi":
            return "PI"
        raise Unsupported(f"attribute {ast.unparse(e)}")

    def power(self, base: ast.expr, ex: ast.expr) -> str:
        b = self.expr(base)
        if isinstance(ex, ast.Constant) and isinstance(ex.value, int) and not isinstance(ex.value, bool) and ex.value >= 0:
            return f"({b} ^ {ex.value})"
        return f"(Rpower {b} {self.expr(ex)})"

    def call(self, e: ast.Call) -> str:
        env = self.env
        f = e.func
        if e.keywords:
            raise Unsupported(f"keyword arguments in {ast.unparse(e)[:60]}")
        # np.f(...)
        if isinstance(f, ast.Attribute) and isinstance(f.value, ast.Name) and f.value.id in ("np", "numpy"):
            name = f.attr
            if name in UNARY_FUNCS and len(e.args) == 1:
                return f"({UNARY_FUNCS[name]} {self.expr(e.args[0])})"
            if name == "power" and len(e.args) == 2:
                return self.power(e.args[0], e.args[1])
            if name in ("ones", "ones_like") and len(e.args) == 1:
                return "1"
            if name in ("zeros", "zeros_like") and len(e.args) == 1:
                return "0"
            if name in ("array", "asarray") and len(e.args) == 1:
                return self.expr(e.args[0])
            raise Unsupported(f"np.{name}")
        # self.method(args)
        if isinstance(f, ast.Attribute) and isinstance(f.value, ast.Name) and f.value.id == env.self_name:
            if f.attr in env.siblings:
                return "(" + env.siblings[f.attr] + " " + " ".join(self.expr(a) for a in e.args) + ")"
            raise Unsupported(f"self.{f.attr}(...)")
        # self._tfm.method(args)
        if (isinstance(f, ast.Attribute) and isinstance(f.value, ast.Attribute) and isinstance(f.value.value, ast.Name)
                and f.value.value.id == env.self_name and f.value.attr in env.held):
            tbl = env.held[f.value.attr]
            if f.attr in tbl:
                return "(" + tbl[f.attr] + " " + " ".join(self.expr(a) for a in e.args) + ")"
            raise Unsupported(f"self.{f.value.attr}.{f.attr}")
        # alias(args)
        if isinstance(f, ast.Name) and f.id in env.fun_alias:
            return "(" + env.fun_alias[f.id] + " " + " ".join(self.expr(a) for a in e.args) + ")"
        raise Unsupported(f"call {ast.unparse(e)[:60]}")

    # ---------------------------------------------------------------- statements
    def is_isinstance_number(self, t: ast.expr) -> bool:
        return (isinstance(t, ast.Call) and isinstance(t.func, ast.Name) and t.func.id == "isinstance"
                and len(t.args) == 2 and isinstance(t.args[1], ast.Name) and t.args[1].id == "Number")

    def body(self, stmts: list[ast.stmt], scalar: bool) -> str:
        """Translate a statement list ending in return into a Coq term."""
        env = self.env
        if not stmts:
            raise Unsupported("function body without return")
        s, rest = stmts[0], stmts[1:]
        if isinstance(s, ast.Expr) and isinstance(s.value, ast.Constant) and isinstance(s.value.value, str):
            return self.body(rest, scalar)
        if isinstance(s, ast.Return):
            if s.value is None:
                raise Unsupported("bare return")
            v = s.value
            if isinstance(v, ast.IfExp) and self.is_isinstance_number(v.test):
                v = v.body if scalar else v.orelse
            return self.expr(v)
        if isinstance(s, ast.Assign):
            if len(s.targets) != 1 or not isinstance(s.targets[0], ast.Name):
                raise Unsupported(f"assignment target {ast.unparse(s)[:60]}")
            name = s.targets[0].id
            v = s.value
            # name = self._tfm.method  /  self.method   (bound method alias)
            if isinstance(v, ast.Attribute):
                if (isinstance(v.value, ast.Attribute) and isinstance(v.value.value, ast.Name) and v.value.value.id == env.self_name
                        and v.value.attr in env.held and v.attr in env.held[v.value.attr]):
                    env.fun_alias[name] = env.held[v.value.attr][v.attr]
                    return self.body(rest, scalar)
            env.fun_alias.pop(name, None)
            return f"(let v_{name} := {self.expr(v)} in\n   {self.body(rest, scalar)})"
        if isinstance(s, ast.AugAssign):
            if not isinstance(s.target, ast.Name):
                raise Unsupported("augmented assignment target")
            op = {ast.Add: "+", ast.Sub: "-", ast.Mult: "*", ast.Div: "/"}.get(type(s.op))
            if op is None:
                raise Unsupported("augmented op")
            n = s.target.id
            return f"(let v_{n} := (v_{n} {op} {self.expr(s.value)}) in\n   {self.body(rest, scalar)})"
        if isinstance(s, ast.With):
            return self.body(list(s.body) + rest, scalar)
        if isinstance(s, ast.Expr) and isinstance(s.value, ast.Call):
            src = ast.unparse(s.value)
            if src.startswith("self.set_maximum_parameter_b("):
                env.notes.append("set_maximum_parameter_b (inferred-b state machine: see C19)")
                return self.body(rest, scalar)
            if src.startswith("warnings."):
                return self.body(rest, scalar)
            raise Unsupported(f"expression statement {src[:60]}")
        if isinstance(s, ast.If):
            # guard: if cond: raise
            if len(s.body) == 1 and isinstance(s.body[0], ast.Raise) and not s.orelse:
                env.guards.append(ast.unparse(s.test))
                return self.body(rest, scalar)
            # warning-only branch
            if not s.orelse and all(isinstance(b, ast.Expr) and ast.unparse(b).startswith("warnings.") for b in s.body):
                return self.body(rest, scalar)
            # if self.trim_inf: v = self._convert_inf(v)
            if (not s.orelse and ast.unparse(s.test) == "self.trim_inf" and len(s.body) == 1 and isinstance(s.body[0], ast.Assign)
                    and isinstance(s.body[0].value, ast.Call) and ast.unparse(s.body[0].value.func) == "self._convert_inf"
                    and len(s.body[0].value.args) == 1 and ast.unparse(s.body[0].targets[0]) == ast.unparse(s.body[0].value.args[0])):
                env.notes.append("trim_inf: _convert_inf is the identity on finite values (endpoint branch checked by correspondence)")
                return self.body(rest, scalar)
            if self.is_isinstance_number(s.test):
                branch = s.body if scalar else s.orelse
                return self.body(list(branch) + rest, scalar)
            raise Unsupported(f"if statement: {ast.unparse(s.test)[:60]}")
        raise Unsupported(f"statement {type(s).__name__}: {ast.unparse(s)[:60]}")


def class_info(cls: ast.ClassDef):
    """(ordered attrs assigned in __init__ as self._x = <arg>, properties, methods)"""
    attrs, props, methods = [], {}, {}
    for fn in cls.body:
        if not isinstance(fn, ast.FunctionDef):
            continue
        decs = [ast.unparse(d) for d in fn.decorator_list]
        if fn.name == "__init__":
            for st in ast.walk(fn):
                if isinstance(st, ast.Assign) and len(st.targets) == 1:
                    t = st.targets[0]
                    if isinstance(t, ast.Attribute) and isinstance(t.value, ast.Name) and t.value.id == "self" and t.attr.startswith("_"):
                        if t.attr not in ("_domain", "_codomain") and t.attr not in attrs:
                            attrs.append(t.attr)
        elif "property" in decs:
            body = [b for b in fn.body if not (isinstance(b, ast.Expr) and isinstance(b.value, ast.Constant))]
            if len(body) == 1 and isinstance(body[0], ast.Return) and isinstance(body[0].value, ast.Attribute):
                props[fn.name] = body[0].value.attr
        else:
            methods[fn.name] = fn
    return attrs, props, methods


def has_scalar_branch(fn: ast.FunctionDef) -> bool:
    for n in ast.walk(fn):
        if isinstance(n, ast.Call) and isinstance(n.func, ast.Name) and n.func.id == "isinstance" and len(n.args) == 2 \
                and isinstance(n.args[1], ast.Name) and n.args[1].id == "Number":
            return True
    return False


HEADER = """From Coq Require Import Reals.
From Coquelicot Require Import Coquelicot.
Open Scope R_scope.
"""
