"""C15 — ODE solvers return the solution of the stated problem under any transformation.

gen:    c15_translate (fail-closed symbolic interpreter over the Python ast) executes the helpers of src/grid/ode.py
        (_evaluate_coeffs_on_points, _transform_ode_from_derivs, _transform_ode_from_rtransform,
        _transform_and_rearrange_to_explicit_ode, _rearrange_to_explicit_ode, _derivative_transformation_matrix) and the
        nested right-hand sides `func` of solve_ode_ivp / solve_ode_bvp for orders 1..3 on symbolic inputs -> C15_gen.v;
        C03's transforms are regenerated alongside (C03_gen.v).  The remaining wiring (span, initial data, returned
        callable, boundary function) is a hand model (coq/C15/C15_model.v); its statements are pattern-checked in the source.
prove:  coq/C15/*.v   chain_rule_1..3 (+ chain_rule_derive_n), jet_matrix, jet_matrix_derive, jet_matrix_invertible_1..3,
        explicit_form_1..3, tre_is_explicit_of_tode, solution_transfers_{ivp,bvp}_1..3, direct_solution_1..3, and the instances
        Becke / Knowles / MultiExp (admissibility from C03's lemmas, solution_transfers_ivp_3_{Becke,Knowles},
        solution_transfers_bvp_2_MultiExp, chain_rule_3_Knowles).  SciPy's integrators, scipy.linalg.solve and sympy.bell are
        oracles (hypotheses solves_K / init_T_K / bc_entry = 0, recurrence of C15_bell.v), validated on every run.
tie:    interval enclosures of the generated helper terms against the implementation on dyadic inputs (numbers, ndarray and
        callable coefficients, real transform objects); the hand model of the wiring against the implementation with SciPy's
        solvers replaced by a recording stub (span, initial data, right-hand side, boundary function, returned callable,
        pass-through of tolerances / method).
search: manufactured-solution problems (runtime numerics, labelled partial): orders 1..3, constant / variable / mixed
        coefficients, IVP with RK45 / RK23 / DOP853 / LSODA / Radau / BDF forwards and backwards, BVP with value and derivative
        conditions, no transform and all 12 transform classes with k, m in {1,2,3}; solution, derivatives w.r.t. the original
        variable, prescribed data, transformed-vs-direct agreement.  A fixed set of problems (directed_specs: first-order IVPs
        through Becke / Inverse(Becke) / Inverse(LinearFinite) / Knowles / Inverse(Knowles) / MultiExp / Handy / LinearFinite / Exp
        forwards and backwards, second / third order through the non-linear maps) is solved in every tier under every seed, each
        solve under a wall-clock limit.  The sweep always runs in full: when the interpreter or the wiring pattern check fails
        closed, a theorem on the regenerated definitions breaks, or the correspondence disagrees, the first failing problem that
        is not a listed known finding becomes the replay of that violation (Ctx.broken_tie); only without one it is reported as
        no-failing-input-found.  Directed corpus checks re-derive the (now fixed) findings should they come back.
        Extreme but admissible scalings are part of both the sweep and the wiring tie: transform parameters 1e-4 .. 1e4 (Becke / Knowles /
        Handy R, LinearFinite widths, Exp / Power with tiny rmin), original-variable domains such as [1e4, 5e4], [1e2, 5e4] and [1e-4, 1e-3]
        (problems posed in s = (x - c0)/L so that the ODE stays O(1)), the returned callable evaluated on arrays, mixed-magnitude arrays,
        arrays of one point and bare scalars; EVERY returned derivative is compared with the manufactured solution relative to the size
        of that derivative (L^-k), never only y.
        Argument forms are part of the quantifier "all initial data / the returned callable": the initial values are handed over as list,
        tuple, float64 array, list of np.float64 and - with whole-number values (manufactured solutions with a prescribed whole-number
        jet at x0) - as list / tuple of Python ints and int64 / int32 / float32 arrays; the returned callable is evaluated on the sorted
        array, the same points shuffled, descending, with repeats, one at a time and as scalars, every form against the exact derivatives.
"""
from __future__ import annotations

import ast
import math
import warnings
from fractions import Fraction

import numpy as np

from props import c03
from props import c15_translate as T
from vlib import py2coq_real as P
from vlib.core import SRC, Ctx, r_lit

# solver tolerances used by the sweep and the acceptance thresholds tied to them (see calibrate notes in evidence)
IVP_RTOL, IVP_ATOL = 1e-10, 1e-12
IVP_TOL = 2e-5          # |returned - exact| <= IVP_TOL * (1 + max|exact|) per component; observed over 3000 problems: median 3e-11, max 2e-7
                        # (error growth along the interval and the scaling by g'^k are part of the margin)
BVP_SOLVER_TOL = 1e-8   # SciPy controls the relative residual, not the global error
BVP_TOL = 2e-4          # observed: median 5e-12, max 5e-6
AGREE_FACTOR = 2.0      # transformed vs direct: both within TOL of the exact solution => within 2 TOL of each other
COND_TOL = 1e-8         # prescribed initial / boundary values reproduced to this relative accuracy


# ====================================================================================================== gen
def gen(ctx: Ctx):
    sigs = c03.gen(ctx)
    src = (SRC / "ode.py").read_text()
    text, units, funcs = T.generate(src)
    ctx.gen("C15_gen.v", text, units)
    return sigs, T.wiring_statements(funcs)


# ====================================================================================================== problems
import grid.ode as GO  # noqa: E402
import grid.rtransform as RT  # noqa: E402


def dq(rng, lo, hi, bits=3):
    return c03.dy(rng, lo, hi, bits)


class Sol:
    """manufactured solution y(x) = (p0 + p1 x + p2 x^2) exp(al x) + be sin(om x + ph) with exact derivatives"""

    def __init__(self, p, al, be, om, ph):
        self.p, self.al, self.be, self.om, self.ph = [float(v) for v in p], float(al), float(be), float(om), float(ph)

    def _pd(self, j, x):
        p0, p1, p2 = self.p
        if j == 0:
            return p0 + p1 * x + p2 * x * x
        if j == 1:
            return p1 + 2 * p2 * x
        if j == 2:
            return 2 * p2 + 0 * x
        return 0 * x

    def d(self, n, x):
        x = np.asarray(x, dtype=float)
        tot = sum(math.comb(n, j) * self.al ** (n - j) * self._pd(j, x) for j in range(n + 1))
        return np.exp(self.al * x) * tot + self.be * self.om ** n * np.sin(self.om * x + self.ph + n * np.pi / 2)


def coeff_callable(c, k=0, scale=(0.0, 1.0)):
    """coefficient a_k of the stated ODE.  With scale = (c0, L) the problem is posed in s = (x - c0) / L: a_k(x) = L^k A_k(s), so that the
    ODE sum_k a_k y^(k) = f for y(x) = Y(s) is the O(1) problem sum_k A_k Y^(k) = f whatever the units of x are."""
    kind, v = c
    c0, L = scale
    w = float(L) ** k
    unscaled = (c0 == 0.0 and L == 1.0)
    if kind == "c":
        return float(v) * w
    if kind == "i":
        return int(v) if unscaled else float(v) * w
    if kind == "f":
        a0, a1, a2 = v
        return lambda x: w * (a0 + a1 * ((x - c0) / L) + a2 * np.sin((x - c0) / L))
    if kind == "lead":
        sg, q = v
        return lambda x: w * sg * (1.5 + 0.5 * np.cos(q * ((x - c0) / L)))
    if kind == "leadexp":
        sg, q = v
        return lambda x: w * sg * np.exp(q * ((x - c0) / L))
    raise KeyError(kind)


def coeff_eval(c, x, k=0, scale=(0.0, 1.0)):
    f = coeff_callable(c, k, scale)
    return f(x) if callable(f) else f + 0 * x


class ScaledSol:
    """y(x) = Y((x - c0) / L): derivatives w.r.t. x carry the factor L^-k"""

    def __init__(self, base, c0, L):
        self.base, self.c0, self.L = base, float(c0), float(L)

    def d(self, n, x):
        x = np.asarray(x, dtype=float)
        return self.base.d(n, (x - self.c0) / self.L) / self.L ** n


class JetSol:
    """base solution + Taylor polynomial around x0 such that the jet (y, y', y'') at x0 has the prescribed (whole-number) values"""

    def __init__(self, base, x0, jet):
        self.base, self.x0 = base, float(x0)
        self.t = [float(c) - float(base.d(k, x0)) for k, c in enumerate(jet)]

    def d(self, n, x):
        x = np.asarray(x, dtype=float)
        extra = sum(t * (x - self.x0) ** (k - n) / math.factorial(k - n) for k, t in enumerate(self.t) if k >= n)
        return self.base.d(n, x) + extra


Y0_FORMS = ["list", "tuple", "ndarray", "list_np_float64", "list_int", "tuple_int", "int64_array", "int32_array", "float32_array"]


def initial_data(spec, sol):
    """the initial values in the argument form the caller chose (the values are the same numbers in every form)"""
    K, x0 = spec["order"], spec["span"][0]
    vals = [int(c) for c in spec["int_jet"][:K]] if "int_jet" in spec else [float(sol.d(k, x0)) for k in range(K)]
    form = spec.get("y0_form", "list")
    if form in ("list", "list_int"):
        return list(vals)
    if form in ("tuple", "tuple_int"):
        return tuple(vals)
    if form == "ndarray":
        return np.array(vals, dtype=float)
    if form == "list_np_float64":
        return [np.float64(v) for v in vals]
    if form == "int64_array":
        return np.array(vals, dtype=np.int64)
    if form == "int32_array":
        return np.array(vals, dtype=np.int32)
    if form == "float32_array":
        return np.array(vals, dtype=np.float32)
    raise KeyError(form)


def build(spec):
    """-> (coeffs as handed to the library, fx returning FRESH arrays, solution with exact derivatives w.r.t. x)"""
    scale = tuple(spec.get("scale", (0.0, 1.0)))
    sol = ScaledSol(Sol(*spec["sol"]), *scale)
    if "int_jet" in spec:
        sol = JetSol(sol, spec["span"][0], spec["int_jet"][:spec["order"]])
    cs = spec["coeffs"]
    coeffs = [coeff_callable(c, k, scale) for k, c in enumerate(cs)]
    if spec.get("as_array"):
        coeffs = np.array(coeffs, dtype=float)

    def fx(x):
        x = np.asarray(x, dtype=float)
        out = np.zeros(x.shape)
        for k, c in enumerate(cs):
            out = out + coeff_eval(c, x, k, scale) * sol.d(k, x)
        return out  # a new array on every call (a library that accumulates in place would otherwise corrupt the caller's data: C20)

    return coeffs, fx, sol


def make_transform(tfs):
    if tfs is None:
        return None
    cname, p = tfs
    if cname == "Inverse":
        return RT.InverseRTransform(make_transform(p))
    return c03.make_tf(cname, dict(p), True)


def tf_desc(tfs):
    if tfs is None:
        return "None"
    cname, p = tfs
    if cname == "Inverse":
        return f"InverseRTransform({tf_desc(p)})"
    return f"{cname}({', '.join(f'{k}={v}' for k, v in dict(p).items())})"


TF_CLASSES = ["BeckeRTransform", "LinearFiniteRTransform", "IdentityRTransform", "LinearInfiniteRTransform", "ExpRTransform",
              "PowerRTransform", "HyperbolicRTransform", "MultiExpRTransform", "KnowlesRTransform", "HandyRTransform",
              "HandyModRTransform", "Inverse"]


def sample_transform(rng, cname, npts=2):
    """(transform spec, (lo, hi) interval of x values to pose the problem on); npts: largest array the transform will be applied to
    (HyperbolicRTransform is only defined for b * (npts - 1) < 1)"""
    if cname == "Inverse":
        inner = rng.choice(["BeckeRTransform", "BeckeRTransform", "KnowlesRTransform", "LinearFiniteRTransform"])
        if inner == "LinearFiniteRTransform":
            rmin = dq(rng, -1, 1)
            rmax = rmin + dq(rng, 2, 6)
            lo = rmin + dq(rng, 0.25, 0.75)
            return ("Inverse", (inner, (("rmin", rmin), ("rmax", rmax)))), (lo, min(rmax - 0.25, lo + dq(rng, 0.5, 1.5)))
        rmin, R = rng.choice([0.0, 0.125, 1.5]), dq(rng, 0.5, 3)
        lo = rmin + dq(rng, 0.25, 1.0)
        pp = (("rmin", rmin), ("R", R)) + ((("k", rng.choice([1, 2, 3])),) if inner == "KnowlesRTransform" else ())
        return ("Inverse", (inner, pp)), (lo, lo + dq(rng, 0.5, 1.5))
    p, (lo, hi), _ = c03.sample_params(cname, rng)
    if cname == "HyperbolicRTransform" and p["b"] * (npts - 1) >= 0.9:
        p["b"] = dq(rng, 0.3, 0.85, 6) / 2 ** math.ceil(math.log2(npts - 1))
    if cname in ("ExpRTransform", "PowerRTransform", "LinearInfiniteRTransform") and p["b"] < 4:
        p["b"] = dq(rng, 4, 30)  # keep x in [0, b], where the map goes to [rmin, rmax]; beyond b the exponential maps are badly scaled
    if "k" in p:
        p["k"] = rng.choice([1, 2, 3])
    if "m" in p:
        p["m"] = rng.choice([1, 2, 3])
        if cname == "HandyModRTransform":
            p["rmax"] = p["rmin"] + 2 ** p["m"] + dq(rng, 0.5, 20)
    if (lo, hi) == (-1, 1):
        a = dq(rng, -0.7, 0.1)
        iv = (a, min(0.75, a + dq(rng, 0.4, 1.0)))
    elif cname == "HyperbolicRTransform":
        top = 0.6 / p["b"]
        a = dq(rng, 0.05, 0.3) * min(top, 8.0)
        iv = (a, min(top, a + dq(rng, 0.4, 1.0)))
    else:
        a = dq(rng, 0.25, 2.0)
        iv = (a, a + dq(rng, 0.4, 1.2))
    return (cname, tuple(p.items())), iv


def sample_coeffs(rng, order, kind):
    cs = []
    for k in range(order + 1):
        lead = k == order
        ck = kind if kind != "mixed" else rng.choice(["const", "var"])
        if ck == "const":
            v = (rng.choice([-1, 1]) * dq(rng, 0.5, 2)) if lead else dq(rng, -2, 2)
            cs.append(("i", int(v)) if (float(v).is_integer() and rng.random() < 0.5) else ("c", v))
        else:
            if lead:
                s = rng.choice([-1, 1]) * dq(rng, 0.5, 1.5)
                cs.append(("lead", (s, dq(rng, 0.5, 2))) if rng.random() < 0.6 else ("leadexp", (s, dq(rng, -0.5, 0.5))))
            else:
                cs.append(("f", (dq(rng, -1.5, 1.5), dq(rng, -1, 1), dq(rng, -1, 1))))
    return cs


def sample_sol(rng):
    return ([dq(rng, -2, 2), dq(rng, -2, 2), dq(rng, -1, 1)], dq(rng, -1, 1), dq(rng, -1.5, 1.5), dq(rng, 0.5, 3), dq(rng, 0, 3))


def spec_desc(s):
    if s.get("y0_form") or "int_jet" in s:
        sc0 = f" initial data as {s.get('y0_form', 'list')}" + (f" with the whole-number jet {list(s['int_jet'][:s['order']])} at x0" if "int_jet" in s else "")
    else:
        sc0 = ""
    sc = f" in the scaled variable s=(x-{s['scale'][0]})/{s['scale'][1]} (a_k = L^k A_k(s), y = Y(s))" if "scale" in s else ""
    return (f"{s['problem']} order={s['order']}{' (x_span as np.float64)' if s.get('np_span') else ''}{sc0}{sc} coeffs={s['coeffs']}{' (ndarray)' if s.get('as_array') else ''} solution={s['sol']} "
            f"transform={tf_desc(s['tf'])} x in {s['span']}" + (f" method={s['method']}" if s["problem"] == "ivp" else f" bd={s['bd']}"))


# ------------------------------------------------------------------------------------------ running one problem
def tie_fail(ctx, obligation, key, observed, text, replay=None):
    """a break of the tie between model and implementation (not a failing input of the property by itself): collected, and
    reported at the end of run() with the first failing problem of the sweep as replay (Ctx.broken_tie), if there is one"""
    if not hasattr(ctx, "c15_breaks"):
        ctx.c15_breaks = []
    ctx.c15_breaks.append((obligation, key, observed, text, replay))


class SolveTimeout(Exception):
    pass


SOLVE_LIMIT_S = 60  # a healthy solve of these problems takes well under a second; run() sets 20 s in the quick tier


def with_timeout(seconds, f, *a, **k):
    """run f in the main thread with a wall-clock limit (a mutated right-hand side can make SciPy step forever)"""
    import signal

    def handler(signum, frame):
        raise SolveTimeout(f"no result after {seconds} s")
    old = signal.signal(signal.SIGALRM, handler)
    signal.alarm(seconds)
    try:
        return f(*a, **k)
    finally:
        signal.alarm(0)
        signal.signal(signal.SIGALRM, old)


def call_quiet(f, *a, **k):
    with warnings.catch_warnings():
        warnings.simplefilter("ignore")
        with np.errstate(all="ignore"):
            return f(*a, **k)


def relerr(got, exact):
    exact = np.asarray(exact, dtype=float)
    return float(np.max(np.abs(np.asarray(got, dtype=float) - exact)) / (1.0 + np.max(np.abs(exact))))


SHUFFLE = [3, 0, 7, 1, 8, 5, 2, 6, 4]  # a permutation of the 9 check points that is not its own inverse


def eval_modes(out, xs, K, scalar_ok=True, singles=None):
    """the returned callable evaluated in every form a caller may use: the sorted array, the same points in another order, with repeated
    points, reversed, one point at a time (arrays of one point) and at bare scalars -> {mode: (values (K, n), points)}"""
    def ev_raw(p):
        return np.asarray(call_quiet(out, p), dtype=float).reshape(K, -1)

    def ev(p):  # a way of evaluating that raises is a finding about that way only
        try:
            return ev_raw(p)
        except Exception as e:  # noqa: BLE001
            return e
    modes = {"array": (ev_raw(xs), xs)}
    sh = xs[SHUFFLE]
    modes["points in shuffled order"] = (ev(sh), sh)
    rp = np.array([xs[2], xs[6], xs[2], xs[0], xs[6], xs[7]])
    modes["repeated points"] = (ev(rp), rp)
    rv = xs[::-1].copy()
    modes["points in descending order"] = (ev(rv), rv)
    singles = xs if singles is None else singles
    def stack(parts):
        bad = [q for q in parts if isinstance(q, Exception)]
        return bad[0] if bad else np.hstack(parts)
    modes["one point at a time"] = (stack([ev(np.array([x])) for x in singles]), np.asarray(singles))
    if scalar_ok:
        ends = np.array([xs[0], xs[-1]])
        modes["scalar points"] = (stack([ev(float(x)) for x in ends]), ends)
    return modes


UNRESOLVED = []  # problems on which SciPy did not converge at the first solver setting (counted, not violations)
SCALAR_EVAL_OK = True  # set by corpus_checks: evaluation at a bare scalar works (it did not before fix 9b1b78d)


# Solver settings a caller may choose freely; a problem that SciPy cannot converge on with the first setting is retried with the next.
#   IVP: the integration method (same tolerances);  BVP: (number of initial mesh nodes, tol).
IVP_LADDER = [None, "DOP853", "LSODA", "Radau"]   # None = the method of the problem specification
BVP_LADDER = [(41, BVP_SOLVER_TOL), (161, BVP_SOLVER_TOL), (161, 1e-6), (321, 1e-6)]
SCIPY_STATUS = {}


class scipy_status_recorder:
    """records the status of the result object SciPy's integrators return to grid.ode (0 = converged), so that 'SciPy did not
    converge' can be told apart from an exception of grid's own code without looking at grid's error message"""

    def __enter__(self):
        self.real = (GO.solve_ivp, GO.solve_bvp)
        SCIPY_STATUS.clear()

        def wrap(f):
            def g(*a, **k):
                r = f(*a, **k)
                SCIPY_STATUS["status"] = getattr(r, "status", None)
                SCIPY_STATUS["message"] = str(getattr(r, "message", ""))[:80]
                return r
            return g
        GO.solve_ivp, GO.solve_bvp = wrap(self.real[0]), wrap(self.real[1])
        return self

    def __exit__(self, *exc):
        GO.solve_ivp, GO.solve_bvp = self.real
        return False


def run_ivp(spec, tfs, setting=0):
    """solve the stated IVP (through transform spec tfs or directly) -> ({evaluation mode: values (K, n)}, check points)"""
    coeffs, fx, sol = build(spec)
    K = spec["order"]
    x0, x1 = spec["span"]
    y0 = initial_data(spec, sol)
    span = (np.float64(x0), np.float64(x1)) if spec.get("np_span") else (x0, x1)
    tf = make_transform(tfs)
    atol = IVP_ATOL
    if "scale" in spec:
        # absolute tolerance per component of the state SciPy integrates (u, du/dr, ...), tied to the size of that component
        pts = np.linspace(x0, x1, 7)
        jets = np.array([[float(sol.d(k, x)) for k in range(K)] for x in pts])
        if tf is not None:
            jets = np.array([jet_u_from_y(tf, float(x), list(jets[i])) for i, x in enumerate(pts)])
        atol = IVP_ATOL * np.maximum(np.max(np.abs(jets), axis=0), 1e-300)
    method = IVP_LADDER[setting] or spec["method"]
    with scipy_status_recorder():
        out = call_quiet(GO.solve_ode_ivp, span, fx, coeffs, y0, tf, method=method, rtol=IVP_RTOL, atol=atol)
    xs = np.linspace(x0, x1, 9)
    return eval_modes(out, xs, K, SCALAR_EVAL_OK, singles=None if ("scale" in spec or spec.get("directed")) else xs[::4]), xs


def jet_u_from_y(tf, x, yj):
    """independent of the code: derivatives of u = y o g^{-1} w.r.t. r = g(x) from those of y w.r.t. x (chain rule solved by hand)"""
    g1, g2, g3 = (float(np.asarray(call_quiet(f, np.array([x], dtype=float))).ravel()[0]) for f in (tf.deriv, tf.deriv2, tf.deriv3))
    u = [yj[0]]
    if len(yj) > 1:
        u.append(yj[1] / g1)
    if len(yj) > 2:
        u.append((yj[2] - g2 * u[1]) / g1 ** 2)
    if len(yj) > 3:
        u.append((yj[3] - g3 * u[1] - 3 * g1 * g2 * u[2]) / g1 ** 3)
    return u


def run_bvp(spec, tfs, setting=0):
    coeffs, fx, sol = build(spec)
    K = spec["order"]
    xa, xb = spec["span"]
    tf = make_transform(tfs)
    nodes, solver_tol = BVP_LADDER[setting]
    x = np.linspace(xa, xb, nodes)
    ends = [xa, xb]
    if tf is not None:
        r = call_quiet(tf.transform, x)
        if r[0] > r[-1]:  # SciPy needs an increasing mesh in the transformed variable: hand the points in the order that makes it so
            x, ends = x[::-1].copy(), [xb, xa]
    bd = []
    for (side, j) in spec["bd"]:
        xe = ends[side]
        yj = [float(sol.d(k, xe)) for k in range(K)]
        if tf is not None:  # documented: with a transform, derivative constraints are w.r.t. the transformed variable
            yj = jet_u_from_y(tf, xe, yj)
        bd.append((side, j, yj[j]))
    with scipy_status_recorder():
        out = call_quiet(GO.solve_ode_bvp, x, fx, coeffs, bd, tf, tol=solver_tol, max_nodes=20000,
                         initial_guess_y=np.zeros((K, x.size)), no_derivatives=False)
    xs = np.linspace(xa, xb, 9)
    return eval_modes(out, xs, K, SCALAR_EVAL_OK), xs


def bvp_condition_number(spec):
    """conditioning of the stated two-point problem, from SciPy directly (independent of grid.ode): fundamental matrix of the
    homogeneous first-order system by DOP853, then the K x K matrix of the boundary functionals."""
    from scipy.integrate import solve_ivp
    K = spec["order"]
    cs = spec["coeffs"]
    xa, xb = spec["span"]

    def rhs(x, Y):
        a = [float(coeff_eval(c, np.array([x]), k, tuple(spec.get("scale", (0.0, 1.0))))[0]) for k, c in enumerate(cs)]
        return list(Y[1:]) + [-sum(a[k] * Y[k] for k in range(K)) / a[K]]

    cols = []
    for e in range(K):
        y0 = [0.0] * K
        y0[e] = 1.0
        cols.append(solve_ivp(rhs, (xa, xb), y0, method="DOP853", rtol=1e-10, atol=1e-12).y[:, -1])
    phi_b = np.array(cols).T
    rows = []
    for side, j in spec["bd"]:
        rows.append(np.eye(K)[j] if side == 0 else phi_b[j])
    return float(np.linalg.cond(np.array(rows)))


def check_problem(spec, results):
    """Run the stated problem directly and through the transform; append (kind, observed, expected, detail, spec, variant).
    EVERY returned component (y and each derivative w.r.t. the original variable) is compared with the manufactured solution, relative to
    the size of that derivative (L^-k (1 + max|Y^(k)|) for a problem posed in s = (x - c0)/L), for every way of evaluating the callable."""
    K = spec["order"]
    _, _, sol = build(spec)
    L = float(spec.get("scale", (0.0, 1.0))[1])
    runner = run_ivp if spec["problem"] == "ivp" else run_bvp
    tol = IVP_TOL if spec["problem"] == "ivp" else BVP_TOL
    vals = {}
    ladder = IVP_LADDER if spec["problem"] == "ivp" else BVP_LADDER
    settings = [i for i, st in enumerate(ladder) if not (st is not None and st == spec.get("method") and i > 0)]
    converged_at = {}
    for variant, tfs in (("direct", None), ("transformed", spec["tf"])):
        if variant == "transformed" and tfs is None:
            continue
        # RULE.  "Within the solver tolerance" presupposes that SciPy converged.  If grid raises while SciPy's own result object reports
        # status != 0 (recorded at the call boundary, not read from grid's message), this is non-convergence of the underlying solver at
        # these solver settings: the SAME problem is retried through the SAME grid code with the next setting of the ladder (settings a
        # caller may choose freely: integration method / initial mesh and tol); the first converged result is checked in full.  Only if
        # no setting converges through the transformation while the direct solve of the equivalent problem converged at the FIRST setting
        # is it a violation (non-convergence that appears only through grid's transformation); otherwise it is counted as unresolved.
        # Every other exception (IndexError, TypeError, a ValueError raised before / without SciPy reporting failure, a time-out) is
        # a finding at once, as before.
        modes = None
        nonconv = []
        for si in settings:
            try:
                modes, xs = with_timeout(SOLVE_LIMIT_S, runner, spec, tfs, si)
                converged_at[variant] = si
                break
            except Exception as e:  # noqa: BLE001
                if not isinstance(e, SolveTimeout) and SCIPY_STATUS.get("status") not in (None, 0):
                    nonconv.append(f"setting {ladder[si]}: SciPy status {SCIPY_STATUS.get('status')} ({SCIPY_STATUS.get('message')})")
                    continue
                results.append(("raises", f"{type(e).__name__}: {str(e)[:120]}", "a solution", variant, spec))
                nonconv = None
                break
        if modes is None:
            if nonconv:  # SciPy converged with no setting
                if variant == "transformed" and converged_at.get("direct") == 0:
                    results.append(("raises", "SciPy converges with none of the solver settings through the transformation: " + "; ".join(nonconv)[:300],
                                    "a solution (the direct solve of the same problem converged at the first setting)", variant, spec))
                else:
                    UNRESOLVED.append((spec_desc(spec), variant, nonconv))
            continue
        if nonconv:
            UNRESOLVED.append((spec_desc(spec), variant, nonconv + [f"converged with setting {ladder[converged_at[variant]]}"]))
        v = modes["array"][0]
        vals[variant] = v
        for mode, (vm, pts) in modes.items():
            label = variant if mode == "array" else f"{variant}, {mode}"
            if isinstance(vm, Exception):
                results.append(("raises", f"{type(vm).__name__}: {str(vm)[:120]}", f"values at {pts.tolist()}", label, spec))
                continue
            for k in range(K):
                exact = sol.d(k, pts)
                err = relerr(vm[k] * L ** k, exact * L ** k)
                if not err <= tol:
                    results.append((f"derivative_{k}" if k else "solution", err, f"<= {tol} relative to the size of this derivative", label, spec))
        # prescribed data
        if spec["problem"] == "ivp":
            for k in range(K):
                c = float(sol.d(k, xs[0])) * L ** k
                if not abs(v[k][0] * L ** k - c) <= COND_TOL * (1 + abs(c)):
                    results.append(("initial_condition", float(v[k][0]), float(sol.d(k, xs[0])), variant, spec))
        else:
            for side, j in spec["bd"]:
                if j == 0:
                    c = float(sol.d(0, xs[0 if side == 0 else -1]))
                    got = float(v[0][0 if side == 0 else -1])
                    if not abs(got - c) <= 10 * BVP_SOLVER_TOL * (1 + abs(c)):
                        results.append(("boundary_condition", got, c, variant, spec))
    if len(vals) == 2:
        for k in range(K):
            scale = 1.0 + float(np.max(np.abs(sol.d(k, np.linspace(*spec["span"], 9)) * L ** k)))
            dis = float(np.max(np.abs(vals["direct"][k] - vals["transformed"][k])) * L ** k / scale)
            if not dis <= AGREE_FACTOR * tol:
                results.append(("transformed_vs_direct", dis, f"<= {AGREE_FACTOR * tol}", f"component {k}", spec))


# canonical corpus: inputs on which defects of the unchanged code were found (run first, under every seed)
CORPUS_IMPLICIT = {"problem": "ivp", "order": 2, "coeffs": [("c", 1.0), ("c", 0.5), ("c", 2.0)], "sol": ([1.0, 1.0, 0.0], -1.0, 0.0, 1.0, 0.0),
                   "tf": None, "span": (-0.5, 0.5), "method": "Radau"}
CORPUS_SCALAR = {"problem": "ivp", "order": 2, "coeffs": [("c", 1.0), ("c", 0.5), ("c", 2.0)], "sol": ([1.0, 1.0, 0.0], -1.0, 0.0, 1.0, 0.0),
                 "tf": ("BeckeRTransform", (("rmin", 0.125), ("R", 2.0))), "span": (-0.5, 0.5), "method": "DOP853"}


def corpus_checks(ctx: Ctx):
    """directed cases; returns whether implicit methods work for order >= 2"""
    implicit_ok = True
    for method in ("Radau", "BDF"):
        spec = dict(CORPUS_IMPLICIT, method=method)
        try:
            modes, xs = with_timeout(SOLVE_LIMIT_S, run_ivp, spec, None)
            v = modes["array"][0]
            _, _, sol = build(spec)
            ok = relerr(v[0], sol.d(0, xs)) <= 1e-4
            obs = "inaccurate"
        except Exception as e:  # noqa: BLE001
            ok, obs = False, type(e).__name__ + ": " + str(e)[:90]
        ctx.case(("corpus", "implicit", method))
        if not ok:
            implicit_ok = False
            if method == "Radau":  # BDF fails through the same statement; one record
                ctx.fail("sweep_ivp_methods", "solve_ode_ivp((-0.5, 0.5), fx, [1.0, 0.5, 2.0], y0, method='Radau')", obs,
                         f"solve_ode_ivp with an implicit method (Radau, BDF) fails for every ODE of order >= 2 ({obs}); y = (1+x)exp(-x), "
                         "coefficients [1, 0.5, 2], no transform",
                         {"reproduce": "y=lambda x:(1+x)*np.exp(-x); d1=lambda x:-x*np.exp(-x); d2=lambda x:(x-1)*np.exp(-x); "
                                       "solve_ode_ivp((-0.5,0.5), lambda x: y(x)+0.5*d1(x)+2*d2(x), [1.0,0.5,2.0], [y(-0.5),d1(-0.5)], method='Radau')",
                          "expected": "the solution y within the solver tolerance, as for RK45/DOP853/LSODA"})
    # evaluation of the returned callable at a scalar point
    spec = CORPUS_SCALAR
    coeffs, fx, sol = build(spec)
    x0, x1 = spec["span"]
    y0 = [float(sol.d(k, x0)) for k in range(2)]
    exact = [float(sol.d(0, 0.25)), float(sol.d(1, 0.25))]
    u_jet = jet_u_from_y(make_transform(spec["tf"]), 0.25, exact)
    obs = []
    for nd in (False, True):
        out = call_quiet(GO.solve_ode_ivp, (x0, x1), fx, coeffs, y0, make_transform(spec["tf"]), no_derivatives=nd, rtol=IVP_RTOL, atol=IVP_ATOL)
        try:
            v = np.asarray(call_quiet(out, 0.25), dtype=float).ravel()
            want = exact[:1] if nd else exact
            if v.shape == (len(want),) and np.allclose(v, want, rtol=1e-6, atol=1e-8):
                obs.append("ok")
            elif v.shape == (2,) and abs(v[1] - u_jet[1]) <= 1e-6:
                obs.append("returns [y, dy/dr]: the derivative w.r.t. the transformed variable")
            else:
                obs.append("wrong value of shape " + str(v.shape))
        except Exception as e:  # noqa: BLE001
            obs.append(type(e).__name__)
    ctx.case(("corpus", "scalar"))
    globals()["SCALAR_EVAL_OK"] = obs == ["ok", "ok"]
    if obs != ["ok", "ok"]:
        ctx.fail("sweep_scalar_point", "solve_ode_ivp(..., BeckeRTransform(0.125, 2.0))(0.25)", obs,
                 "the callable returned for a transformed problem cannot be evaluated at a scalar point like the one returned without a transform "
                 f"(SciPy's OdeSolution): no_derivatives=False -> {obs[0]}; no_derivatives=True -> {obs[1]}; "
                 f"exact [y, y'](0.25) = {exact}",
                 {"reproduce": "sol = solve_ode_ivp((-0.5,0.5), fx, [1.0,0.5,2.0], y0, BeckeRTransform(0.125, 2.0), no_derivatives=...); sol(0.25)",
                  "expected": exact})
    # transforms whose derivative methods only accept arrays / return arrays of shape (1,) for one point
    float_span_ok, li_matrix_ok = True, True
    seen = {}
    for cname, tfs in (("LinearInfiniteRTransform", ("LinearInfiniteRTransform", (("rmin", 1.0), ("rmax", 9.0), ("b", 8.0)))),
                       ("HyperbolicRTransform", ("HyperbolicRTransform", (("a", 2.0), ("b", 0.0625))))):
        for np_span in (False, True):
            spec = dict(CORPUS_SCALAR, tf=tfs, span=(0.5, 1.5), np_span=np_span)
            ctx.case(("corpus", "float_span", cname, np_span))
            try:
                modes, xs = with_timeout(SOLVE_LIMIT_S, run_ivp, spec, tfs)
                v = modes["array"][0]
                _, _, sol = build(spec)
                ok, obs = relerr(v[0], sol.d(0, xs)) <= IVP_TOL, "inaccurate"
            except Exception as e:  # noqa: BLE001
                ok, obs = False, type(e).__name__ + ": " + str(e)[:90]
            seen[(cname, np_span)] = "ok" if ok else obs
            if not ok and not np_span:
                float_span_ok = False
            if not ok and np_span and cname == "LinearInfiniteRTransform":
                li_matrix_ok = False
    if not (float_span_ok and li_matrix_ok):
        obs = seen[("LinearInfiniteRTransform", False)]
        ctx.fail("sweep_transform_classes", "solve_ode_ivp((0.5, 1.5), fx, [1.0, 0.5, 2.0], y0, LinearInfiniteRTransform(1.0, 9.0, 8.0))", obs,
                 "solve_ode_ivp cannot be used with LinearInfiniteRTransform (and, with Python-float end points, HyperbolicRTransform): _derivative_transformation_matrix "
                 "evaluates transform.deriv/deriv2/deriv3 at a bare scalar, but these classes need an array (x.size) and LinearInfinite returns shape-(1,) arrays that sympy.bell "
                 f"rejects. LinearInfinite, float span: {seen[('LinearInfiniteRTransform', False)]}; np.float64 span: {seen[('LinearInfiniteRTransform', True)]}; "
                 f"Hyperbolic, float span: {seen[('HyperbolicRTransform', False)]}; np.float64 span: {seen[('HyperbolicRTransform', True)]}. The same statement makes the callable "
                 "returned by solve_ode_bvp(..., LinearInfiniteRTransform, no_derivatives=False) fail for order >= 2.",
                 {"reproduce": "solve_ode_ivp((0.5, 1.5), fx, [1.0, 0.5, 2.0], [y(0.5), y'(0.5)], LinearInfiniteRTransform(1.0, 9.0, 8.0))  # y = (1+x)exp(-x)",
                  "expected": "the same solution as without the transform"})
    return {"implicit_ok": implicit_ok, "float_span_ok": float_span_ok, "li_matrix_ok": li_matrix_ok}


DIRECTED_TF = [
    (("BeckeRTransform", (("rmin", 0.125), ("R", 1.5))), (-0.5, 0.25)),
    (("Inverse", ("BeckeRTransform", (("rmin", 0.125), ("R", 1.5)))), (0.5, 1.75)),
    (("Inverse", ("LinearFiniteRTransform", (("rmin", 0.25), ("rmax", 4.0)))), (0.75, 2.0)),
    (("KnowlesRTransform", (("rmin", 0.0), ("R", 1.5), ("k", 3))), (-0.5, 0.25)),
    (("Inverse", ("KnowlesRTransform", (("rmin", 0.125), ("R", 1.5), ("k", 2)))), (0.5, 1.5)),
    (("MultiExpRTransform", (("rmin", 0.125), ("R", 1.5))), (-0.5, 0.25)),
    (("HandyRTransform", (("rmin", 0.0), ("R", 1.5), ("m", 2))), (-0.5, 0.25)),
    (("LinearFiniteRTransform", (("rmin", 0.5), ("rmax", 3.0))), (-0.5, 0.5)),
    (("ExpRTransform", (("rmin", 0.25), ("rmax", 8.0), ("b", 8.0))), (0.5, 1.5)),
]
DIRECTED_SOL = ([0.5, -1.0, 0.25], 0.25, 0.5, 1.5, 0.5)
DIRECTED_COEFFS = {1: [("f", (0.5, -0.25, 0.5)), ("lead", (1.0, 1.0))],
                   2: [("c", 0.5), ("f", (0.25, 0.5, -0.25)), ("lead", (-1.0, 0.75))],
                   3: [("c", 0.5), ("f", (0.25, 0.5, -0.25)), ("c", -0.75), ("leadexp", (1.0, -0.25))]}


SCALED_DIRECTED = [
    # (transform, x_span, (c0, L), order, method): domains and parameters far from O(1); the ODE is O(1) in s = (x - c0)/L
    (("Inverse", ("BeckeRTransform", (("rmin", 0.0), ("R", 1e4)))), (1e4, 5e4), (1e4, 4e4), 3, "DOP853"),
    (("Inverse", ("BeckeRTransform", (("rmin", 0.0), ("R", 1e4)))), (1e2, 5e4), (1e2, 5e4), 3, "RK45"),
    (("Inverse", ("BeckeRTransform", (("rmin", 0.0), ("R", 1e4)))), (5e4, 2e4), (2e4, 3e4), 2, "LSODA"),
    (("Inverse", ("BeckeRTransform", (("rmin", 0.0), ("R", 1e-4)))), (1e-4, 1e-3), (1e-4, 9e-4), 3, "DOP853"),
    (("Inverse", ("LinearFiniteRTransform", (("rmin", 0.0), ("rmax", 1e4)))), (1e3, 5e3), (1e3, 4e3), 3, "RK45"),
    (("BeckeRTransform", (("rmin", 0.0), ("R", 1e4))), (-0.5, 0.25), (0.0, 1.0), 3, "DOP853"),
    (("BeckeRTransform", (("rmin", 0.0), ("R", 1e-4))), (-0.5, 0.25), (0.0, 1.0), 3, "RK45"),
    (("KnowlesRTransform", (("rmin", 0.0), ("R", 1e4), ("k", 2))), (-0.5, 0.25), (0.0, 1.0), 3, "DOP853"),
    (("KnowlesRTransform", (("rmin", 0.0), ("R", 1e-4), ("k", 3))), (0.25, -0.5), (0.0, 1.0), 2, "LSODA"),
    (("LinearFiniteRTransform", (("rmin", 0.0), ("rmax", 1e-4))), (-0.5, 0.5), (0.0, 1.0), 3, "RK45"),
    (("LinearFiniteRTransform", (("rmin", -1e4), ("rmax", 1e4))), (-0.5, 0.5), (0.0, 1.0), 3, "DOP853"),
    (("ExpRTransform", (("rmin", 1e-4), ("rmax", 10.0), ("b", 8.0))), (0.5, 1.5), (0.0, 1.0), 3, "DOP853"),
    (("PowerRTransform", (("rmin", 1e-4), ("rmax", 10.0), ("b", 8.0))), (0.5, 1.5), (0.0, 1.0), 2, "RK45"),
    (("HandyRTransform", (("rmin", 0.0), ("R", 1e4), ("m", 2))), (-0.5, 0.25), (0.0, 1.0), 3, "RK45"),
]


def scaled_directed_specs():
    return [{"problem": "ivp", "order": k, "coeffs": DIRECTED_COEFFS[k], "sol": DIRECTED_SOL, "tf": tfs, "span": span, "method": m, "scale": sc}
            for tfs, span, sc, k, m in SCALED_DIRECTED]


def integer_data_specs():
    """fixed problems whose initial data are whole numbers handed over in integer / single-precision typed containers (a list of Python
    ints, a tuple, int64 / int32 / float32 arrays): the values are the same numbers as in a list of floats, so the answer must be too"""
    out = []
    forms = ["list_int", "int64_array", "tuple_int", "float32_array", "int32_array", "list_int", "int64_array", "tuple_int"]
    jets = [(1, 2, -1), (2, -1, 3), (0, 3, 1), (-2, 1, 2)]
    tfl = [DIRECTED_TF[0], DIRECTED_TF[3], DIRECTED_TF[1], DIRECTED_TF[5]]
    for i, (tfs, (a, b)) in enumerate(tfl):
        for j, k in enumerate((2, 3)):
            out.append({"problem": "ivp", "order": k, "coeffs": DIRECTED_COEFFS[k], "sol": DIRECTED_SOL, "tf": tfs, "span": (a, b) if (i + j) % 2 == 0 else (b, a),
                        "method": "DOP853" if j else "RK45", "int_jet": jets[(i + j) % 4], "y0_form": forms[2 * i + j], "directed": True})
    return out


def directed_specs():
    """fixed problems solved in every tier and under every seed: first-order IVPs through each kind of map forwards and backwards
    (no initial derivatives to convert: only the span, the right-hand side and the composition with g are exercised), and second / third
    order IVPs through the non-linear maps and their InverseRTransform (second and third derivative terms of g)"""
    out = []
    for i, (tfs, (a, b)) in enumerate(DIRECTED_TF):
        for span, method in (((a, b), "DOP853"), ((b, a), "LSODA")):
            out.append({"problem": "ivp", "order": 1, "coeffs": DIRECTED_COEFFS[1], "sol": DIRECTED_SOL, "tf": tfs, "span": span, "method": method, "directed": True})
        if tfs[0] != "LinearFiniteRTransform":
            k = 3 if i % 2 else 2
            out.append({"problem": "ivp", "order": k, "coeffs": DIRECTED_COEFFS[k], "sol": DIRECTED_SOL, "tf": tfs, "span": (a, b), "method": "RK45"})
            if tfs[0] == "Inverse":
                out.append({"problem": "ivp", "order": 3, "coeffs": DIRECTED_COEFFS[3], "sol": DIRECTED_SOL, "tf": tfs, "span": (b, a), "method": "DOP853"})
    return out


def sample_scaled(rng):
    """(transform spec, x_span, (c0, L)): extreme but admissible scalings - transform parameters 2^-13 .. 2^13 (1e-4 .. 1e4) and
    original-variable domains of the matching size"""
    kind = rng.choice(["inv_becke", "inv_becke", "inv_knowles", "becke", "knowles", "handy", "linfinite", "inv_linfinite", "exp", "power", "none"])
    big = 2.0 ** rng.randint(-13, 13)
    if kind in ("inv_becke", "inv_knowles"):
        a = dq(rng, 0.25, 2) * big
        b = a * dq(rng, 1.5, 5)
        if kind == "inv_knowles":  # the inverse of the logarithmic map saturates exponentially: stay within a few R
            a = dq(rng, 0.25, 1) * big
            b = a * dq(rng, 1.5, 2.5)
        inner = ("BeckeRTransform", (("rmin", 0.0), ("R", big))) if kind == "inv_becke" else ("KnowlesRTransform", (("rmin", 0.0), ("R", big), ("k", rng.choice([1, 2, 3]))))
        return ("Inverse", inner), (a, b), (a, b - a)
    if kind == "inv_linfinite":
        a, b = dq(rng, 0.125, 0.375) * big, dq(rng, 0.5, 0.875) * big
        return ("Inverse", ("LinearFiniteRTransform", (("rmin", 0.0), ("rmax", big)))), (a, b), (a, b - a)
    if kind == "none":
        a = dq(rng, -2, 2) * big
        return None, (a, a + big), (a, big)
    a = dq(rng, -0.7, 0.1)
    iv = (a, min(0.75, a + dq(rng, 0.4, 1.0)))
    if kind == "becke":
        return ("BeckeRTransform", (("rmin", 0.0), ("R", big))), iv, (0.0, 1.0)
    if kind == "knowles":
        return ("KnowlesRTransform", (("rmin", 0.0), ("R", big), ("k", rng.choice([1, 2, 3])))), iv, (0.0, 1.0)
    if kind == "handy":
        return ("HandyRTransform", (("rmin", 0.0), ("R", big), ("m", rng.choice([1, 2, 3])))), iv, (0.0, 1.0)
    if kind == "linfinite":
        return ("LinearFiniteRTransform", (("rmin", 0.0), ("rmax", big))), iv, (0.0, 1.0)
    a = dq(rng, 0.25, 2.0)
    tiny = 2.0 ** -rng.randint(4, 13)
    cname = "ExpRTransform" if kind == "exp" else "PowerRTransform"
    return (cname, (("rmin", tiny), ("rmax", 10.0), ("b", 8.0))), (a, a + dq(rng, 0.4, 1.2)), (0.0, 1.0)


def sweep(ctx: Ctx, flags: dict):
    implicit_ok, float_span_ok, li_matrix_ok = flags["implicit_ok"], flags["float_span_ok"], flags["li_matrix_ok"]
    rng = ctx.rng
    results = []
    del UNRESOLVED[:]
    plan = directed_specs() + scaled_directed_specs() + integer_data_specs()
    n_ivp = 36 if ctx.quick else 1200
    n_bvp = 12 if ctx.quick else 300
    classes = list(TF_CLASSES)
    methods = ["RK45", "RK23", "DOP853", "LSODA"]
    for it in range(n_ivp):
        order = 1 + (it + it // len(classes)) % 3
        cname = classes[it % len(classes)] if it % 13 != 12 else None
        if cname:
            tfs, iv = sample_transform(rng, cname, npts=9)
        else:
            tfs, a = None, dq(rng, -1, 1)
            iv = (a, a + dq(rng, 0.5, 1.5))
        span = iv if rng.random() < 0.75 else (iv[1], iv[0])  # also integrate backwards
        m = rng.choice(methods + (["Radau", "BDF"] if (order == 1 or implicit_ok) else []))
        spec = {"problem": "ivp", "order": order, "coeffs": sample_coeffs(rng, order, rng.choice(["const", "var", "mixed"])), "sol": sample_sol(rng),
                "tf": tfs, "span": tuple(float(v) for v in span), "method": m}
        if cname in ("LinearInfiniteRTransform", "HyperbolicRTransform") and not float_span_ok:
            spec["np_span"] = True  # work around the listed finding so that these transforms are still exercised
        if cname == "LinearInfiniteRTransform" and order >= 2 and not li_matrix_ok:
            ctx.count("skipped_listed_finding_LinearInfinite")
            continue
        if all(c[0] in ("c", "i") for c in spec["coeffs"]) and rng.random() < 0.4:
            spec["as_array"] = True
        # the argument form of the initial data; every fourth problem of order >= 2 has whole-number data in an integer-typed container
        if order >= 2 and it % 4 == 1:
            spec["int_jet"] = tuple(rng.randint(-3, 3) for _ in range(3))
            spec["y0_form"] = rng.choice(["list_int", "tuple_int", "int64_array", "int32_array", "float32_array"])
        else:
            spec["y0_form"] = rng.choice(["list", "tuple", "ndarray", "list_np_float64"])
        plan.append(spec)
    for it in range(8 if ctx.quick else 200):
        order = 1 + it % 3
        tfs, iv, sc = sample_scaled(rng)
        span = iv if rng.random() < 0.75 else (iv[1], iv[0])
        plan.append({"problem": "ivp", "order": order, "coeffs": sample_coeffs(rng, order, rng.choice(["const", "var", "mixed"])), "sol": sample_sol(rng),
                     "tf": tfs, "span": tuple(float(v) for v in span), "method": rng.choice(methods), "scale": tuple(float(v) for v in sc)})
        ctx.count("scaled_problem")
    tries = 0
    nb = 0
    while nb < n_bvp and tries < 6 * n_bvp:
        tries += 1
        order = 1 + (tries + tries // len(classes)) % 3
        cname = classes[tries % len(classes)] if tries % 13 != 12 else None
        if cname:
            tfs, iv = sample_transform(rng, cname, npts=4097)  # SciPy refines the mesh; Hyperbolic needs b * (nodes - 1) < 1
        else:
            tfs, a = None, dq(rng, -1, 1)
            iv = (a, a + dq(rng, 0.5, 1.5))
        if order == 1:
            bd = [(rng.choice([0, 1]), 0)]
        elif order == 2:
            bd = rng.choice([[(0, 0), (1, 0)], [(0, 0), (1, 1)], [(0, 1), (1, 0)]])
        else:
            bd = rng.choice([[(0, 0), (0, 1), (1, 0)], [(0, 0), (1, 0), (1, 1)], [(0, 0), (0, 2), (1, 0)]])
        spec = {"problem": "bvp", "order": order, "coeffs": sample_coeffs(rng, order, rng.choice(["const", "var", "mixed"])), "sol": sample_sol(rng),
                "tf": tfs, "span": tuple(float(v) for v in iv), "bd": [tuple(b) for b in bd]}
        if cname == "LinearInfiniteRTransform" and order >= 2 and not li_matrix_ok:
            ctx.count("skipped_listed_finding_LinearInfinite")
            continue
        cond = bvp_condition_number(spec)
        ctx.count("bvp_well_conditioned" if cond <= 50 else "bvp_skipped_ill_conditioned")
        if cond > 50:
            continue
        nb += 1
        plan.append(spec)
    for spec in plan:
        before = len(results)
        check_problem(spec, results)
        ctx.case((spec["problem"], spec["order"], tf_desc(spec["tf"]), spec.get("method"), str(spec["coeffs"])), traces=2 if spec["tf"] else 1)
        ctx.count(f"{spec['problem']}_order{spec['order']}")
        ctx.count("tf_" + (spec["tf"][0] if spec["tf"] else "none"))
        if spec["problem"] == "ivp":
            ctx.count("method_" + spec["method"])
        if len(results) == before and len(ctx.samples) < 4:
            ctx.sample({"problem": spec_desc(spec), "result": "solution, derivatives, prescribed data and transformed-vs-direct agreement within tolerance"})
    ctx.cov["sweep_problems"] = len(plan)
    return results


# ====================================================================================================== oracle validation
def validate_oracles(ctx: Ctx):
    """sympy.bell against the Coq recurrence (through interval), scipy.linalg.solve and the SciPy integrators against their contracts."""
    from scipy.integrate import solve_bvp, solve_ivp
    from scipy.linalg import solve
    from sympy import bell
    rng = ctx.rng
    # scipy.linalg.solve on the lower-triangular systems the code builds
    for it in range(20 if ctx.quick else 200):
        n = 1 + it % 2
        M = np.tril(np.array([[dq(rng, -3, 3, 6) for _ in range(n)] for _ in range(n)]))
        for i in range(n):
            M[i, i] = rng.choice([-1, 1]) * dq(rng, 0.25, 3, 6)
        w = np.array([dq(rng, -3, 3, 6) for _ in range(n)])
        v = solve(M, w)
        ctx.case(("linalg.solve", it))
        if not np.max(np.abs(M @ v - w)) <= 1e-12 * (1 + np.max(np.abs(w))):
            ctx.fail("oracle_linalg_solve", f"scipy.linalg.solve:{M.tolist()}:{w.tolist()}", float(np.max(np.abs(M @ v - w))),
                     "scipy.linalg.solve does not satisfy M v = w (hypothesis init_T_K of solution_transfers_ivp_K)")
    v = solve(np.zeros((0, 0)), np.array([]))
    if v.shape != (0,):
        ctx.fail("oracle_linalg_solve", "scipy.linalg.solve:empty", str(v.shape), "solve of the empty system (first-order ODE) is not empty")
    # the integrators: dense output starts at y0 and its derivative matches the right-hand side it was given
    def F(t, y):
        return np.vstack((y[1], -2.0 * y[0] - 0.5 * y[1] + np.sin(t)))
    res = solve_ivp(F, (0.0, 2.0), [1.0, -0.5], dense_output=True, vectorized=True, rtol=IVP_RTOL, atol=IVP_ATOL, method="DOP853")
    ts = np.linspace(0.1, 1.9, 7)
    h = 1e-4
    dnum = (res.sol(ts + h) - res.sol(ts - h)) / (2 * h)
    dres = float(np.max(np.abs(dnum - F(ts, res.sol(ts)))))
    ctx.case(("solve_ivp_contract",))
    if res.status != 0 or not np.allclose(res.sol(0.0), [1.0, -0.5], atol=1e-12) or not dres <= 1e-5:
        ctx.fail("oracle_solve_ivp", "scipy.solve_ivp:contract", dres, "solve_ivp's dense output does not satisfy the system/initial data it was given (hypothesis solves_K)")
    def bc(ya, yb):
        return np.array([ya[0] - 1.0, yb[0] - 0.25])
    xm = np.linspace(0.0, 2.0, 21)
    rb = solve_bvp(F, bc, xm, np.zeros((2, xm.size)), tol=BVP_SOLVER_TOL, max_nodes=20000)
    dnum = (rb.sol(ts + h) - rb.sol(ts - h)) / (2 * h)
    dres = float(np.max(np.abs(dnum - F(ts, rb.sol(ts)))))
    ctx.case(("solve_bvp_contract",))
    if rb.status != 0 or not np.max(np.abs(bc(rb.sol(0.0), rb.sol(2.0)))) <= 1e-9 or not dres <= 1e-4:
        ctx.fail("oracle_solve_bvp", "scipy.solve_bvp:contract", dres, "solve_bvp's solution does not satisfy the system/boundary function it was given (hypothesis solves_K, bc_entry = 0)")
    # sympy.bell vs the Coq definition (goals for the interval run)
    cases, meta = [], []
    for (n, k, ns) in [(1, 1, 3), (2, 1, 3), (2, 2, 3), (3, 1, 3), (3, 2, 3), (3, 3, 3), (4, 2, 4)]:
        for _ in range(1 if ctx.quick else 4):
            xs = [dq(rng, -3, 3, 4) for _ in range(ns)]
            v = float(bell(n, k, np.array(xs, dtype=float)))
            lst = "[" + "; ".join(r_lit(x) for x in xs) + "]"
            cases.append((f"Rabs (bell {n} {k} {lst} - {r_lit(v)}) <= {r_lit(Fraction(1, 10 ** 10))}",
                          "rewrite ?bell_1_1, ?bell_2_1, ?bell_2_2, ?bell_3_1, ?bell_3_2, ?bell_3_3, ?bell_4_2; interval"))
            meta.append(("oracle_sympy_bell", f"sympy.bell({n},{k},{xs})", v, f"sympy.bell({n}, {k}, {xs}) = {v} is not the incomplete Bell polynomial of C15_bell.v", None))
            ctx.case(("bell", n, k, tuple(xs)))
    return cases, meta


# ====================================================================================================== helper correspondence
def poly_py(c):
    return lambda x: c[0] + c[1] * x + c[2] * x * x


def poly_coq(c):
    return f"(fun v : R => {r_lit(c[0])} + {r_lit(c[1])} * v + {r_lit(c[2])} * v * v)"


def tf_coq(sigs, tfs):
    """Coq terms (transform, inverse, deriv, deriv2, deriv3) of a transform spec, from C03_gen.v"""
    cname, p = tfs
    if cname == "Inverse":
        fs = " ".join(tf_coq(sigs, p))
        return [f"(Inverse_{m} {fs})" for m in c03.METHODS]
    cp = c03.coq_params(sigs, cname, dict(p))
    return [f"({c03.short(cname)}_{m} {cp})".replace(" )", ")") for m in c03.METHODS]


def tol_of(y, rel=Fraction(1, 10 ** 9)):
    return r_lit(rel * (1 + abs(Fraction(float(y)))))


def helper_cases(ctx: Ctx, sigs):
    rng = ctx.rng
    cases, meta = [], []
    TAC = "c15_eval"

    def add(goal_term, y, obligation, key, text):
        if not math.isfinite(float(y)):
            tie_fail(ctx, obligation, key, str(float(y)), text + " (the implementation's value is not finite)")
            return
        cases.append((f"Rabs ({goal_term} - {r_lit(float(y))}) <= {tol_of(y)}", TAC))
        meta.append((obligation, key, float(y), text, None))

    n_rep = 2 if ctx.quick else 12
    for K in (1, 2, 3):
        for rep in range(n_rep):
            a = [dq(rng, -4, 4) for _ in range(K + 1)]
            d = [rng.choice([-1, 1]) * dq(rng, 0.25, 3), dq(rng, -3, 3), dq(rng, -3, 3)]
            # _transform_ode_from_derivs: numbers, callables and a mixture as coefficients
            variants = [("numbers", list(a))]
            if rep % 2 == 0:
                variants.append(("ndarray", np.array(a)))
                variants.append(("mixed", [(lambda x, v=v: v + 0 * x) if i % 2 else v for i, v in enumerate(a)]))
            for vname, co in variants:
                b = call_quiet(GO._transform_ode_from_derivs, co, [lambda x, v=v: v + 0 * x for v in d], np.array([0.5, 0.75]))
                ok_shape = b.shape == (K + 1, 2)
                for j in range(K + 1):
                    args = " ".join(r_lit(v) for v in a + d)
                    val = b[j, 1] if ok_shape else float("nan")
                    if not (ok_shape and math.isfinite(val)):
                        tie_fail(ctx, "corr_transform_ode_from_derivs", f"tode:{K}:{a}:{d}:{vname}", str(b.shape), "_transform_ode_from_derivs returned an array of unexpected shape/value")
                        continue
                    add(f"tode_b{K}_{j} {args}", val, "corr_transform_ode_from_derivs", f"tode:K={K}:j={j}:a={a}:d={d}:{vname}",
                        f"_transform_ode_from_derivs(coeffs={a} ({vname}), derivs={d})[{j}] = {val} is not the generated tode_b{K}_{j}")
                    ctx.case(("tode", K, j, tuple(a), tuple(d), vname))
            # _rearrange_to_explicit_ode
            bb = [dq(rng, -4, 4) for _ in range(K)] + [rng.choice([-1, 1]) * dq(rng, 0.25, 4)]
            yy = [dq(rng, -4, 4) for _ in range(K)]
            fxv = dq(rng, -4, 4)
            r = call_quiet(GO._rearrange_to_explicit_ode, np.array([[v, 0.0] for v in yy]), np.array([[v, 1.0] for v in bb]), np.array([fxv, 1.0]))
            add(f"explicit_{K} {' '.join(r_lit(v) for v in bb)} {r_lit(fxv)} {' '.join(r_lit(v) for v in yy)}", r[0], "corr_rearrange_to_explicit_ode",
                f"explicit:K={K}:b={bb}:fx={fxv}:y={yy}", f"_rearrange_to_explicit_ode(y={yy}, b={bb}, fx={fxv}) = {r[0]} is not the generated explicit_{K}")
            ctx.case(("explicit", K, tuple(bb), fxv, tuple(yy)))
            # _derivative_transformation_matrix of order N = K (and the empty matrix)
            M = call_quiet(GO._derivative_transformation_matrix, [lambda x, v=v: v for v in d], 0.5, K)
            if M.shape != (K, K):
                tie_fail(ctx, "corr_derivative_transformation_matrix", f"dtm:N={K}", str(M.shape), "unexpected shape")
            else:
                for i in range(K):
                    for j in range(K):
                        add(f"dtm_{K}_{i}_{j} {' '.join(r_lit(v) for v in d)}", M[i, j], "corr_derivative_transformation_matrix",
                            f"dtm:N={K}:i={i}:j={j}:d={d}", f"_derivative_transformation_matrix(derivs={d}, order={K})[{i},{j}] = {M[i, j]} is not the generated dtm_{K}_{i}_{j}")
                        ctx.case(("dtm", K, i, j, tuple(d)))
    M0 = call_quiet(GO._derivative_transformation_matrix, [lambda x: 1.0, lambda x: 0.0, lambda x: 0.0], 0.5, 0)
    if M0.shape != (0, 0):
        tie_fail(ctx, "corr_derivative_transformation_matrix", "dtm:N=0", str(M0.shape), "order 0 does not give the empty matrix")
    # _evaluate_coeffs_on_points
    cf = [dq(rng, -2, 2), dq(rng, -2, 2), dq(rng, -2, 2)]
    xpt = dq(rng, -1, 1, 5)
    m = call_quiet(GO._evaluate_coeffs_on_points, np.array([xpt, 0.0]), [cf[0], poly_py(cf), 3])
    add(f"coeff_const {r_lit(cf[0])} {r_lit(xpt)}", m[0, 0], "corr_evaluate_coeffs", f"coeff_const:{cf[0]}", "numeric coefficient")
    add(f"coeff_fun {poly_coq(cf)} {r_lit(xpt)}", m[1, 0], "corr_evaluate_coeffs", f"coeff_fun:{cf}:{xpt}", "callable coefficient")
    add(f"coeff_const 3 {r_lit(xpt)}", m[2, 1], "corr_evaluate_coeffs", "coeff_const:int", "integer coefficient")
    # _transform_and_rearrange_to_explicit_ode with real transform objects
    tf_classes = ["BeckeRTransform", "KnowlesRTransform", "MultiExpRTransform", "HandyRTransform", "LinearFiniteRTransform", "HandyModRTransform", "Inverse", "ExpRTransform"]
    for ci, cname in enumerate(tf_classes if not ctx.quick else tf_classes[:6]):
        for K in ((1, 2, 3) if not ctx.quick else (3, 1 + ci % 2)):
            tfs, iv = sample_transform(rng, cname)
            tf = make_transform(tfs)
            g = tf_coq(sigs, tfs)
            xpt = c03.dy(rng, iv[0], iv[1], 8)
            co = [[dq(rng, -2, 2), dq(rng, -1, 1), dq(rng, -1, 1)] for _ in range(K)] + [[rng.choice([-1, 1]) * dq(rng, 2, 3), dq(rng, -0.5, 0.5), dq(rng, 0, 1)]]
            ff = [dq(rng, -2, 2), dq(rng, -2, 2), dq(rng, -2, 2)]
            yy = [dq(rng, -3, 3) for _ in range(K)]
            val = call_quiet(GO._transform_and_rearrange_to_explicit_ode, np.array([xpt]), np.array([[v] for v in yy]), [poly_py(c) for c in co], tf,
                             lambda x, c=ff: np.array(poly_py(c)(x), dtype=float))
            val = float(np.asarray(val).ravel()[0])
            if not math.isfinite(val):
                continue
            add(f"tre_{K} {' '.join(poly_coq(c) for c in co)} {g[2]} {g[3]} {g[4]} {poly_coq(ff)} {r_lit(xpt)} {' '.join(r_lit(v) for v in yy)}", val,
                "corr_transform_and_rearrange", f"tre:K={K}:{tf_desc(tfs)}:x={xpt}:a={co}:f={ff}:y={yy}",
                f"_transform_and_rearrange_to_explicit_ode at x={xpt} with {tf_desc(tfs)} = {val} is not the generated tre_{K}")
            ctx.case(("tre", K, tf_desc(tfs), xpt))
    return cases, meta


# ====================================================================================================== wiring correspondence (stubbed SciPy)
class StubResult:
    def __init__(self, sol):
        self.sol, self.status = sol, 0


def stub_solution(cs):
    """dense output made of quadratic polynomials S_i(r) = c[i][0] + c[i][1] r + c[i][2] r^2, vectorised like SciPy's"""
    def sol(r):
        r = np.asarray(r, dtype=float)
        return np.array([c[0] + c[1] * r + c[2] * r * r for c in cs])
    return sol


def wiring_cases(ctx: Ctx, sigs):
    rng = ctx.rng
    cases, meta = [], []
    TAC = "c15_eval"

    def add(goal_term, y, key, text):
        if not math.isfinite(float(y)):
            tie_fail(ctx, "corr_wiring", key, str(float(y)), text + " (the implementation's value is not finite)")
            return
        cases.append((f"Rabs ({goal_term} - {r_lit(float(y))}) <= {tol_of(y)}", TAC))
        meta.append(("corr_wiring", key, float(y), text, None))

    def direct(cond, key, obs, text):
        ctx.case(("wiring-direct", key))
        if not cond:
            tie_fail(ctx, "corr_wiring", key, obs, text)

    tf_classes = ["BeckeRTransform", "KnowlesRTransform", "MultiExpRTransform", "HandyRTransform"] + ([] if ctx.quick else ["LinearFiniteRTransform", "HandyModRTransform", "Inverse"])
    real_ivp, real_bvp = GO.solve_ivp, GO.solve_bvp
    try:
        for ci, cname in enumerate(tf_classes):
            for K in ((1, 2, 3) if (not ctx.quick or ci == 0) else (3 - ci % 2,)):
                tfs, iv = sample_transform(rng, cname)
                tf = make_transform(tfs)
                g = tf_coq(sigs, tfs)  # transform inverse deriv deriv2 deriv3
                gs = f"{g[0]} {g[2]} {g[3]} {g[4]}"
                co = [[dq(rng, -2, 2), dq(rng, -1, 1), dq(rng, -1, 1)] for _ in range(K)] + [[rng.choice([-1, 1]) * dq(rng, 2, 3), dq(rng, -0.5, 0.5), dq(rng, 0, 1)]]
                ff = [dq(rng, -2, 2), dq(rng, -2, 2), dq(rng, -2, 2)]
                coeffs = [poly_py(c) for c in co]
                fx = lambda x, c=ff: np.array(poly_py(c)(np.asarray(x, dtype=float)), dtype=float)  # noqa: E731
                A = " ".join(poly_coq(c) for c in co)
                Sc = [[dq(rng, -2, 2), dq(rng, -1, 1), dq(rng, -0.5, 0.5)] for _ in range(K)]
                S = " ".join(poly_coq(c) for c in Sc)
                x0, x1 = c03.dy(rng, iv[0], (iv[0] + iv[1]) / 2, 8), c03.dy(rng, (iv[0] + iv[1]) / 2, iv[1], 8)
                y0 = [dq(rng, -2, 2) for _ in range(K)]
                y0_arg = list(y0)
                if (ci + K) % 2:  # whole-number initial data in an integer-typed container: the same numbers, the same model
                    y0 = [float(rng.choice([-3, -2, -1, 1, 2, 3])) for _ in range(K)]
                    y0_arg = rng.choice([lambda v: [int(t) for t in v], lambda v: np.array(v, dtype=np.int64), lambda v: tuple(int(t) for t in v),
                                         lambda v: np.array(v, dtype=np.float32)])(y0)
                desc = f"K={K}:{tf_desc(tfs)}:span=({x0},{x1})"
                rec = {}

                def fake_ivp(fun, t_span, y0=None, **kw):
                    rec.update(fun=fun, t_span=np.array(t_span, dtype=float), y0=np.array(y0, dtype=float), kw=kw)
                    return StubResult(stub_solution(Sc))

                GO.solve_ivp = fake_ivp
                out = call_quiet(GO.solve_ode_ivp, (x0, x1), fx, coeffs, y0_arg, tf, method="RK23", rtol=3e-5, atol=7e-9)
                GO.solve_ivp = real_ivp
                direct(rec["kw"] == dict(dense_output=True, vectorized=True, rtol=3e-5, atol=7e-9, method="RK23"), f"ivp-kwargs:{desc}", str(rec.get("kw")),
                       "solve_ode_ivp does not pass dense_output/vectorized/rtol/atol/method through to solve_ivp")
                for e, xe in enumerate((x0, x1)):
                    add(f"{'fst' if e == 0 else 'snd'} (span_T {g[0]} {r_lit(x0)} {r_lit(x1)})", rec["t_span"][e], f"ivp-span:{desc}:{e}",
                        f"integration span handed to solve_ivp is {rec['t_span'].tolist()}, not transform(x_span)")
                # initial data: (c0, v) with M(x0) v = c[1:]
                add(r_lit(y0[0]), rec["y0"][0], f"ivp-init0:{desc}", f"first entry of y0 handed to solve_ivp is {rec['y0'][0]}, not y0[0] = {y0[0]}")
                gd = f"({g[2]} {r_lit(x0)}) ({g[3]} {r_lit(x0)}) ({g[4]} {r_lit(x0)})"
                w = rec["y0"]
                if K == 2:
                    add(f"mv1 {gd} {r_lit(w[1])}", y0[1], f"ivp-init:{desc}", f"initial derivative handed to solve_ivp ({w[1]}) is not M(x0)^-1 y0[1:] (y0 = {y0})")
                if K == 3:
                    for e in (0, 1):
                        add(f"{'fst' if e == 0 else 'snd'} (mv2 {gd} {r_lit(w[1])} {r_lit(w[2])})", y0[1 + e], f"ivp-init:{desc}:{e}",
                            f"initial derivatives handed to solve_ivp ({w[1:].tolist()}) are not M(x0)^-1 y0[1:] (y0 = {y0})")
                ctx.case(("wiring-ivp-init", desc))
                # right-hand side at points of the transformed variable
                rlo, rhi = sorted(rec["t_span"])
                for _ in range(2):
                    r = float(np.float32(rlo + (rhi - rlo) * rng.uniform(0.1, 0.9)))
                    Y = [dq(rng, -3, 3) for _ in range(K)]
                    v = np.asarray(call_quiet(rec["fun"], r, np.array([[t] for t in Y], dtype=float)), dtype=float).ravel()
                    call = f"ivp_rhsT_{K} {A} {g[1]} {g[2]} {g[3]} {g[4]} {poly_coq(ff)} {r_lit(r)} {' '.join(r_lit(t) for t in Y)}"
                    projs = [call] if K == 1 else ([f"fst ({call})", f"snd ({call})"] if K == 2 else [f"fst (fst ({call}))", f"snd (fst ({call}))", f"snd ({call})"])
                    for e in range(K):
                        proj = projs[e]
                        add(proj, v[e], f"ivp-rhs:{desc}:r={r}:Y={Y}:{e}", f"func(r={r}, Y={Y})[{e}] handed to solve_ivp = {v[e]} is not the generated ivp_rhsT_{K}")
                    ctx.case(("wiring-ivp-rhs", desc, r))
                # returned callable
                two = sorted(c03.dy(rng, min(x0, x1), max(x0, x1), 8) for _ in range(2))
                xs = np.array([two[1], two[0]])  # not in ascending order
                vals = np.asarray(call_quiet(out, xs), dtype=float).reshape(K, -1)
                for q, xq in enumerate(xs):
                    if K == 1:
                        terms = [f"out_T_1 {g[0]} {S} {r_lit(xq)}"]
                    elif K == 2:
                        o = f"out_T_2 {gs} {S} {r_lit(xq)}"
                        terms = [f"fst ({o})", f"snd ({o})"]
                    else:
                        o = f"out_T_3 {gs} {S} {r_lit(xq)}"
                        terms = [f"fst (fst ({o}))", f"snd (fst ({o}))", f"snd ({o})"]
                    for e in range(K):
                        add(terms[e], vals[e, q], f"out:{desc}:x={xq}:{e}", f"returned callable at x={xq}, component {e}: {vals[e, q]} is not the model's (S o g, M(x) . S'(g x))")
                    ctx.case(("wiring-out", desc, float(xq)))
                GO.solve_ivp = fake_ivp
                out_nd = call_quiet(GO.solve_ode_ivp, (x0, x1), fx, coeffs, list(y0), tf, no_derivatives=True)
                GO.solve_ivp = real_ivp
                vnd = np.asarray(call_quiet(out_nd, xs), dtype=float)
                direct(vnd.shape == (2,), f"out-noderiv-shape:{desc}", str(vnd.shape), "no_derivatives=True does not return one value per point")
                if vnd.shape == (2,):
                    add(f"out_T_noderiv {g[0]} {poly_coq(Sc[0])} {r_lit(xs[0])}", vnd[0], f"out-noderiv:{desc}", "no_derivatives=True does not return S0 o g")
                # ---- boundary value problem
                recb = {}

                def fake_bvp(fun, bc, x, y=None, **kw):
                    recb.update(fun=fun, bc=bc, x=np.array(x, dtype=float), y=y, kw=kw)
                    return StubResult(stub_solution(Sc))

                mesh = np.array(sorted([x0, (x0 + x1) / 2, x1]))
                bd = [(rng.choice([0, 1]), rng.randrange(K), dq(rng, -2, 2)) for _ in range(K)]
                guess = np.zeros((K, 3))
                GO.solve_bvp = fake_bvp
                outb = call_quiet(GO.solve_ode_bvp, mesh, fx, coeffs, bd, tf, tol=3e-5, max_nodes=777, initial_guess_y=guess, no_derivatives=False)
                GO.solve_bvp = real_bvp
                direct(recb["kw"] == dict(tol=3e-5, max_nodes=777) and recb["y"] is guess, f"bvp-kwargs:{desc}", str(recb.get("kw")),
                       "solve_ode_bvp does not pass tol/max_nodes/initial guess through to solve_bvp")
                for e in range(3):
                    add(f"{g[0]} {r_lit(mesh[e])}", recb["x"][e], f"bvp-mesh:{desc}:{e}", "mesh handed to solve_bvp is not transform(x)")
                Ya, Yb = [dq(rng, -3, 3) for _ in range(K)], [dq(rng, -3, 3) for _ in range(K)]
                bcv = np.asarray(recb["bc"](np.array(Ya), np.array(Yb)), dtype=float)
                direct(bcv.shape == (K,), f"bvp-bc-shape:{desc}", str(bcv.shape), "bc returns a vector of the wrong length")
                if bcv.shape == (K,):
                    for e, (i, j, C) in enumerate(bd):
                        add(f"bc_entry {i} {j} {r_lit(C)} [{'; '.join(r_lit(t) for t in Ya)}] [{'; '.join(r_lit(t) for t in Yb)}]", bcv[e],
                            f"bvp-bc:{desc}:{bd}:{e}", f"bc(ya={Ya}, yb={Yb})[{e}] = {bcv[e]} is not (ya if i==0 else yb)[j] - C for {bd[e]}")
                r = float(np.float32(rlo + (rhi - rlo) * rng.uniform(0.1, 0.9)))
                Y = [dq(rng, -3, 3) for _ in range(K)]
                v = np.asarray(call_quiet(recb["fun"], np.array([r, r]), np.array([[t, t] for t in Y], dtype=float)), dtype=float)
                call = f"bvp_rhsT_{K} {A} {g[1]} {g[2]} {g[3]} {g[4]} {poly_coq(ff)} {r_lit(r)} {' '.join(r_lit(t) for t in Y)}"
                projs = [call] if K == 1 else ([f"fst ({call})", f"snd ({call})"] if K == 2 else [f"fst (fst ({call}))", f"snd (fst ({call}))", f"snd ({call})"])
                direct(v.shape == (K, 2), f"bvp-rhs-shape:{desc}", str(v.shape), "func handed to solve_bvp returns the wrong shape")
                if v.shape == (K, 2):
                    for e in range(K):
                        add(projs[e], v[e, 1], f"bvp-rhs:{desc}:r={r}:Y={Y}:{e}", f"func(r={r}, Y={Y})[{e}] handed to solve_bvp = {v[e, 1]} is not the generated bvp_rhsT_{K}")
                vb = np.asarray(call_quiet(outb, xs), dtype=float).reshape(K, -1)
                direct(np.array_equal(vb, vals), f"bvp-out:{desc}", float(np.max(np.abs(vb - vals))), "solve_ode_bvp and solve_ode_ivp map the same dense output differently")
                ctx.case(("wiring-bvp", desc))
                # ---- no transform: the right-hand side is the explicit form at x itself and res.sol is returned unchanged
                GO.solve_ivp = fake_ivp
                outd = call_quiet(GO.solve_ode_ivp, (x0, x1), fx, coeffs, list(y0))
                GO.solve_ivp = real_ivp
                direct(np.array_equal(rec["t_span"], [x0, x1]) and np.array_equal(rec["y0"], y0), f"direct-data:{desc}", str(rec["t_span"].tolist()),
                       "without a transform the span / initial data are not handed to solve_ivp unchanged")
                direct(np.array_equal(np.asarray(outd(xs)), stub_solution(Sc)(xs)), f"direct-out:{desc}", "differs", "without a transform res.sol is not returned unchanged")
                xq = float(xs[0])
                v = np.asarray(call_quiet(rec["fun"], xq, np.array([[t] for t in Y], dtype=float)), dtype=float).ravel()
                call = f"ivp_rhsD_{K} {A} {poly_coq(ff)} {r_lit(xq)} {' '.join(r_lit(t) for t in Y)}"
                projs = [call] if K == 1 else ([f"fst ({call})", f"snd ({call})"] if K == 2 else [f"fst (fst ({call}))", f"snd (fst ({call}))", f"snd ({call})"])
                for e in range(K):
                    add(projs[e], v[e], f"direct-rhs:{desc}:x={xq}:Y={Y}:{e}", f"func(x={xq}, Y={Y})[{e}] without transform = {v[e]} is not the generated ivp_rhsD_{K}")
    finally:
        GO.solve_ivp, GO.solve_bvp = real_ivp, real_bvp
    return cases, meta


WIRING_SCALED = [
    # (transform, (x0, x1), evaluation point sets): parameters and domains far from O(1); in the first rows |g''| < 1e-8 although g is not affine
    (("Inverse", ("BeckeRTransform", (("rmin", 0.0), ("R", 1e4)))), (1e4, 5e4), [[1e4, 2.5e4, 5e4], [150.0, 3e4, 5e4], [5e4, 1e4, 2.5e4, 1e4], [5e4], [1e4]]),
    (("Inverse", ("BeckeRTransform", (("rmin", 0.0), ("R", 1e-4)))), (1e-4, 1e-3), [[1e-4, 5e-4, 1e-3], [1e-3]]),
    (("Inverse", ("KnowlesRTransform", (("rmin", 0.0), ("R", 4096.0), ("k", 2)))), (2048.0, 8192.0), [[2048.0, 8192.0], [4096.0]]),
    (("BeckeRTransform", (("rmin", 0.0), ("R", 1e4))), (-0.5, 0.25), [[0.0, 0.25, -0.5, 0.0], [0.125]]),
    (("BeckeRTransform", (("rmin", 0.0), ("R", 1e-4))), (-0.5, 0.25), [[-0.5, 0.0, 0.25], [0.125]]),
    (("KnowlesRTransform", (("rmin", 0.0), ("R", 1e-4), ("k", 3))), (-0.5, 0.25), [[-0.5, 0.25], [0.0]]),
    (("LinearFiniteRTransform", (("rmin", 0.0), ("rmax", 1e4))), (-0.5, 0.5), [[-0.5, 0.5], [0.25]]),
    (("ExpRTransform", (("rmin", 1e-4), ("rmax", 10.0), ("b", 8.0))), (0.5, 1.5), [[0.5, 1.0, 1.5], [1.25]]),
]


def wiring_scaled_cases(ctx: Ctx, sigs):
    """the hand model of the initial data and of the returned callable against the implementation (SciPy stubbed) for extreme scalings,
    for arrays, mixed-magnitude arrays, arrays of one point and bare scalars, with a tolerance RELATIVE to every returned component"""
    rng = ctx.rng
    cases, meta = [], []
    rel = Fraction(1, 10 ** 8)

    def add(goal_term, y, key, text):
        y = float(y)
        if not math.isfinite(y):
            tie_fail(ctx, "corr_wiring", key, str(y), text + " (the implementation's value is not finite)")
            return
        cases.append((f"Rabs ({goal_term} - {r_lit(y)}) <= {r_lit(rel * abs(Fraction(y)) + Fraction(1, 10 ** 300))}", "c15_eval"))
        meta.append(("corr_wiring", key, y, text, None))

    real_ivp = GO.solve_ivp
    try:
        for tfs, (x0, x1), point_sets in (WIRING_SCALED if not ctx.quick else WIRING_SCALED[:4]):
            tf = make_transform(tfs)
            g = tf_coq(sigs, tfs)
            gs = f"{g[0]} {g[2]} {g[3]} {g[4]}"
            L = abs(x1 - x0)
            for K in ((3, 2) if (not ctx.quick or tfs is WIRING_SCALED[0][0]) else (3,)):
                Sc = [[dq(rng, 0.5, 2), dq(rng, 0.25, 1), dq(rng, 0.125, 0.5)] for _ in range(K)]
                S = " ".join(poly_coq(c) for c in Sc)
                y0 = [dq(rng, 0.5, 2) / L ** k for k in range(K)]
                coeffs = [dq(rng, 0.5, 2) * L ** k for k in range(K + 1)]
                rec = {}

                def fake_ivp(fun, t_span, y0=None, **kw):
                    rec.update(t_span=np.array(t_span, dtype=float), y0=np.array(y0, dtype=float))
                    return StubResult(stub_solution(Sc))

                GO.solve_ivp = fake_ivp
                out = call_quiet(GO.solve_ode_ivp, (x0, x1), lambda x: 1.0 + 0 * np.asarray(x, dtype=float), coeffs, list(y0), tf)
                GO.solve_ivp = real_ivp
                desc = f"scaled:K={K}:{tf_desc(tfs)}:span=({x0},{x1})"
                gd = f"({g[2]} {r_lit(x0)}) ({g[3]} {r_lit(x0)}) ({g[4]} {r_lit(x0)})"
                w = rec["y0"]
                if K == 2:
                    add(f"mv1 {gd} {r_lit(w[1])}", y0[1], f"ivp-init:{desc}", f"initial derivative handed to solve_ivp ({w[1]}) is not M(x0)^-1 y0[1:] (y0 = {y0})")
                else:
                    for e in (0, 1):
                        add(f"{'fst' if e == 0 else 'snd'} (mv2 {gd} {r_lit(w[1])} {r_lit(w[2])})", y0[1 + e], f"ivp-init:{desc}:{e}",
                            f"initial derivatives handed to solve_ivp ({w[1:].tolist()}) are not M(x0)^-1 y0[1:] (y0 = {y0})")

                def terms(xq):
                    if K == 2:
                        o = f"out_T_2 {gs} {S} {r_lit(xq)}"
                        return [f"fst ({o})", f"snd ({o})"]
                    o = f"out_T_3 {gs} {S} {r_lit(xq)}"
                    return [f"fst (fst ({o}))", f"snd (fst ({o}))", f"snd ({o})"]

                for pts in point_sets:
                    xs = np.array(pts, dtype=float)
                    how = [("array", xs)] + ([("scalar", float(pts[0]))] if (len(pts) == 1 and SCALAR_EVAL_OK) else [])
                    for hname, arg in how:
                        try:
                            vals = np.asarray(call_quiet(out, arg), dtype=float).reshape(K, -1)
                        except Exception as e:  # noqa: BLE001
                            tie_fail(ctx, "corr_wiring", f"out:{desc}:{pts}:{hname}", type(e).__name__, f"returned callable raises {type(e).__name__} at {pts} ({hname})")
                            continue
                        for q, xq in enumerate(pts):
                            for e, t in enumerate(terms(xq)):
                                add(t, vals[e, q], f"out:{desc}:{hname} {pts}:x={xq}:{e}",
                                    f"returned callable evaluated at {pts} ({hname}), point x={xq}, component {e}: {vals[e, q]} is not the model's (S o g, M(x) . S'(g x))")
                        ctx.case(("wiring-out-scaled", desc, tuple(pts), hname))
    finally:
        GO.solve_ivp = real_ivp
    return cases, meta


def run_coq_cases(ctx: Ctx, name, cases, meta):
    if not cases:
        return
    names = " ".join(c03.all_gen_names(ctx) + __import__("re").findall(r"^Definition (\w+)", (ctx.build / "C15_gen.v").read_text(), flags=__import__("re").M)
                     + ["mv1", "mv2", "mv3", "span_T", "out_T_1", "out_T_2", "out_T_3", "out_T_noderiv", "bc_entry"])
    hdr = ("From Coq Require Import Reals List.\nFrom Coquelicot Require Import Coquelicot.\nFrom Interval Require Import Tactic.\n"
           "From P Require Import C03_gen C15_bell C15_gen C15_ref C15_model C15_proofs_fdb.\nImport ListNotations.\nOpen Scope R_scope.\n"
           f"Ltac c15_eval := cbv beta zeta delta [{names}]; cbn [fst snd nth]; "
           "rewrite ?bell_1_1, ?bell_2_1, ?bell_2_2, ?bell_3_1, ?bell_3_2, ?bell_3_3; interval with (i_prec 90).\n")
    bad = ctx.coq_tactic_cases(name, hdr, cases, shard=max(8, len(cases) // 12 + 1), timeout=900)
    for i in bad:
        obligation, key, y, text, _ = meta[i]
        tie_fail(ctx, obligation, key, y, text, {"goal": cases[i][0][:600]})


# ====================================================================================================== run
RELEVANT = {  # which sweep failures witness which theorem
    "chain": lambda s, kind: s["tf"] is not None,
    "jet": lambda s, kind: s["tf"] is not None and s["order"] >= 2,
    "explicit": lambda s, kind: True,
    "transfers": lambda s, kind: s["tf"] is not None,
    "direct": lambda s, kind: True,
}


def run(ctx: Ctx):
    import re
    import time
    t0 = time.time()
    globals()["SOLVE_LIMIT_S"] = 20 if ctx.quick else 60
    phases = {}
    status = {}
    sigs = None
    tie_breaks = []  # (what, error): the translator or the wiring pattern check failed closed
    try:
        sigs, missing = gen(ctx)
    except P.Unsupported as e:
        tie_breaks.append(("translator(ode.py)", f"src/grid/ode.py is outside the translated subset: {e}"))
        missing = {}
    if sigs is not None:
        for fn, stmts in missing.items():
            tie_breaks.append((f"wiring_pattern({fn})", f"the hand-modelled wiring statements {stmts} are no longer in the source"))
        ctx.copy_coq("C15")
        ctx.copy_coq("C03/C03_proofs_simple.v", "C03/C03_proofs_knowles.v")
        status = ctx.coq_build()
        ctx.register_props(status)
    phases["gen+coq_build"] = round(time.time() - t0, 1)
    t0 = time.time()
    # the search always runs in full, whatever happened to the translator / the proofs
    flags = corpus_checks(ctx)
    results = sweep(ctx, flags)
    phases["sweep"] = round(time.time() - t0, 1)
    ctx.cov["solver_nonconvergence_unresolved"] = [{"problem": d, "solve": v, "attempts": a} for d, v, a in UNRESOLVED[:20]]
    ctx.count("solver_nonconvergence_unresolved", len(UNRESOLVED))
    t0 = time.time()
    # failing problems of the sweep: the first one per (check kind, variant, order)
    first = {}
    for kind, obs, exp, variant, spec in results:
        first.setdefault((kind, variant if kind != "transformed_vs_direct" else "both", spec["order"]), (obs, exp, variant, spec))

    def cand(k, rec):
        obs, exp, variant, spec = rec
        return (f"{k[0]}:{variant}:{spec_desc(spec)}", round(obs, 9) if isinstance(obs, float) else obs,
                f"{spec_desc(spec)} [{variant}]: {k[0]}: observed {obs}, expected {exp}", {"spec": spec, "variant": variant, "expected": exp})

    used = set()

    def witness(ranked):
        """first failing problem (in the given order of preference) that is not a listed known finding"""
        for k in ranked:
            c = cand(k, first[k])
            if not ctx.is_known(c[0], c[1]):
                used.add(k)
                return [c]
        return []

    keys = list(first)
    # a theorem about the regenerated definitions that no longer checks: the most relevant failing problem is its replay
    for name, ob in list(ctx.obligations.items()):
        if ob["status"] == "discharged":
            continue
        fam = ("chain" if name.startswith("chain_rule") else "jet" if name.startswith("jet_matrix") else "explicit" if name.startswith(("explicit", "tre_", "coeff"))
               else "direct" if name.startswith("direct") else "transfers")
        m = re.search(r"_(\d)(?:_|$)", name)
        want_order = int(m.group(1)) if m else None

        def rank(k):
            rec = first[k]
            through_tf = not rec[2].startswith("direct")  # the transformed solve, or the transformed-vs-direct comparison
            relevant = (fam == "direct" and not through_tf) or (fam != "direct" and through_tf and RELEVANT[fam](rec[3], k[0]))
            return (0 if relevant else 1, 0 if rec[3]["order"] == want_order else 1, keys.index(k))
        ctx.broken_tie(name, f"theorem {name} ({ob['file']}) no longer checks on the definitions regenerated from src/grid/ode.py", witness(sorted(keys, key=rank)))
    # the translator / the wiring pattern check failed closed
    for what, err in tie_breaks:
        ctx.broken_tie(what, err, witness(keys))
    # oracle validation + correspondence
    ocases, ometa = validate_oracles(ctx)
    if sigs is not None and status.get("C15_gen.v") and status.get("C03_gen.v") and status.get("C15_model.v") and status.get("C15_proofs_fdb.v"):
        hcases, hmeta = helper_cases(ctx, sigs)
        wcases, wmeta = wiring_cases(ctx, sigs)
        scases, smeta = wiring_scaled_cases(ctx, sigs)
        run_coq_cases(ctx, "C15_corr", ocases + hcases + wcases + scases, ometa + hmeta + wmeta + smeta)
        ctx.cov["correspondence_goals"] = {"oracle": len(ocases), "helpers": len(hcases), "wiring": len(wcases), "wiring_extreme_scalings": len(scases)}
    # model / implementation disagreements found by the correspondence: one violation per correspondence obligation, with the
    # first failing problem of the sweep as replay; without one, every disagreement is reported (no failing input found)
    groups = {}
    for b in getattr(ctx, "c15_breaks", []):
        groups.setdefault(b[0], []).append(b)
    for obligation, bs in groups.items():
        w = witness(keys)
        if w:
            ctx.broken_tie(obligation, f"{len(bs)} correspondence case(s) disagree with the implementation; first: {bs[0][3]}", w)
        else:
            for _, key, observed, text, rp in bs[:6]:
                ctx.fail(obligation, key, observed, text, rp, found_input=False)
    # the remaining failing problems: one per (check kind, variant)
    def kind_of(k):
        return (k[0], k[1].split(",")[0])
    seen_kinds = {kind_of(k) for k in used}
    for k in keys:
        if kind_of(k) not in seen_kinds:
            seen_kinds.add(kind_of(k))
            c = cand(k, first[k])
            ctx.fail(f"sweep_{k[0]}", c[0], c[1], c[2], c[3])
    phases["oracles+correspondence"] = round(time.time() - t0, 1)
    ctx.cov["phase_seconds"] = phases
    ctx.cov["rule"] = ("sweep: a fixed set of 29 IVPs (orders 1..3 through 9 maps incl. InverseRTransform of Becke / LinearFinite / Knowles, forwards and backwards) plus "
                       "manufactured solutions y = (p0+p1 x+p2 x^2) e^(al x) + be sin(om x+ph) with random dyadic parameters, orders 1..3 cyclically, constant "
                       "(float/int/ndarray) / variable / mixed coefficients with non-vanishing leading coefficient, f built from the exact derivatives; IVP: methods RK45, RK23, "
                       "DOP853, LSODA (+Radau, BDF where they work), forward and backward spans, no transform and the 12 transform classes cyclically with k, m in {1,2,3}; "
                       "BVP: value and derivative conditions on either end, problems with boundary-matrix condition number <= 50 (computed with SciPy directly); every problem "
                       "is solved directly and through the transform; correspondence: random dyadic inputs per helper and order, real transform objects, SciPy stubbed "
                       "for the wiring; distinct = (problem kind, order, transform with parameters, method, coefficients)")
    ctx.trusted += [
        "c15_translate: symbolic interpreter for the helpers of ode.py, mesh axis collapsed to one point (validated by the interval correspondence each run)",
        "hand model of the wiring (C15_model.v: span_T, init_T_K, out_T_K, bc_entry) - validated against the implementation with SciPy stubbed, and pattern-checked in the source",
        "oracle hypothesis solves_K: 'the dense output S returned by scipy.integrate.solve_ivp / solve_bvp satisfies the first-order system it was given at the points r = g x' "
        "(validated on a fixed problem by finite differences, and indirectly by every manufactured problem)",
        "oracle hypothesis init_T_K: 'scipy.linalg.solve(M, w) returns v with M v = w' (validated on random lower-triangular systems to 1e-12)",
        "oracle hypothesis bc_entry = 0: 'solve_bvp's solution makes the boundary function it was given vanish' (validated on a fixed problem)",
        "sympy.bell(n, k, xs) is the incomplete Bell polynomial defined by the recurrence of C15_bell.v (validated for n, k <= 3 and (4,2) by interval each run)",
        "numpy matrix-vector product deriv.dot(v) modelled by mv1/mv2/mv3 (validated through the stubbed returned callable)",
        "C03's generated transforms and its lemmas for Becke, Knowles, MultiExp",
        f"sweep tolerances: IVP solver rtol={IVP_RTOL}, atol={IVP_ATOL} (for scaled problems per component: {IVP_ATOL} x the size of that component of the integrated state), "
        f"accepted error of the k-th derivative {IVP_TOL} * L^-k (1+max|Y^(k)|) (observed max 1.4e-7 over 1100 scaled problems); BVP solver tol={BVP_SOLVER_TOL}, accepted {BVP_TOL}*(1+max|exact|); "
        "wiring tie for extreme scalings: 1e-8 RELATIVE to every returned component",
        "interval tactic (Interval 4.6, i_prec 90); IEEE rounding of the implementation below 1e-9 relative at the sampled dyadic inputs",
    ]
    ctx.assumptions += [
        "partial: 'within the solver tolerance' and uniqueness of the solution (hence 'transformed and direct solves agree') are properties of SciPy / analysis: checked at run time on "
        "manufactured problems only; the Coq theorems say that ANY exact solution of the transformed first-order system maps to a solution of the stated problem",
        "solve_ode_bvp with a transform constrains derivatives d^j u/dr^j w.r.t. the TRANSFORMED variable (documented in its docstring); solution_transfers_bvp_K states exactly that; "
        "the sweep converts the manufactured boundary data accordingly",
        "solve_ode_bvp hands transform.transform(x) to SciPy unchanged: for a decreasing transform (MultiExp) the caller must pass x in decreasing order (the sweep does)",
        "theorems are stated on a set D of x values on which the transform is admissible (tf_ok); for the C03 instances D = (-1, 1)",
        "orders above 3 (sympy Bell loop) are outside the property and are not modelled",
        "extreme scalings are exercised for initial value problems only: solve_bvp controls a residual normalised by 1 + |f|, which says nothing about components of size 1e-8",
    ]


def replay(rp):
    import json
    print(json.dumps({k: v for k, v in rp.items() if k != "spec"}, indent=1, default=str))
    spec = rp.get("spec")
    if not spec:
        print("reproduce:", rp.get("reproduce", "(see text)"))
        return 0
    spec["coeffs"] = [(c[0], tuple(c[1]) if isinstance(c[1], list) else c[1]) for c in spec["coeffs"]]
    spec["sol"] = tuple(spec["sol"])
    spec["span"] = tuple(spec["span"])
    if "scale" in spec:
        spec["scale"] = tuple(spec["scale"])
    if "int_jet" in spec:
        spec["int_jet"] = tuple(spec["int_jet"])

    def fix_tf(t):
        if t is None:
            return None
        if t[0] == "Inverse":
            return ("Inverse", fix_tf(t[1]))
        return (t[0], tuple(tuple(kv) for kv in t[1]))
    spec["tf"] = fix_tf(spec["tf"])
    if "bd" in spec:
        spec["bd"] = [tuple(b) for b in spec["bd"]]
    res = []
    check_problem(spec, res)
    for kind, obs, exp, variant, _ in res:
        print(f"{kind} [{variant}]: observed {obs}, expected {exp}")
    print("problem:", spec_desc(spec))
    return 1 if res else 0
