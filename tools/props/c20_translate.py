"""C20 — Python ast -> effect IR translator (fail closed) for the anchored modules of theochem/grid.

Every function / method / nested function / lambda of the translated modules becomes one IR function
(see coq/C20/C20_ir.v):

  Alias x ys | Write x site | Store x ys site | SetAttr x ys | CallUser x ys | CallLib x f ys site
  | Seq | Branch | Loop | Brk | Return           (variable 0 = return slot, 1..n = parameters)

Abstraction choices (the trusted part; all of them are listed in the evidence):
  * scalars (constants, len/int/float/str/bool/..., .shape/.size/.ndim, parameters annotated int/float/str/bool)
    are no objects;
  * NumPy arithmetic (BinOp/UnaryOp/Compare) yields a fresh object, unless an operand is syntactically a
    list/tuple (concatenation / repetition shares the elements);
  * subscript / attribute loads, views (asarray, reshape, .T, ravel, atleast_1d, ...) alias their source;
  * calls: a table of NumPy/SciPy/builtin functions known to return fresh objects without touching their
    arguments, view-returning ones, mutating ones (sort, fill, append, update, setdefault, out=...),
    program functions (resolved by name; methods by name over all program classes), user callbacks
    (calls of parameters / computed callables / SciPy higher-order solvers) and anything else = raise
    (fail closed: the function becomes a stub that the checker rejects);
  * a closure (nested def / lambda) may be run by anybody who gets hold of it: the creating function contains
    an optional call of it, so it is accepted only if the closure is;
  * local lists / dicts built from displays / comprehensions keep their spine (the container object) and
    their elements apart (`name` and `name[*]`), so appending a protected element does not make the
    container itself protected;
  * `self.X` for attributes assigned in the same function are separate variables (initialised from the
    receiver); passing `self` on passes the receiver and all those variables; after a call that may set
    attributes of the receiver they are re-aliased to the receiver.
"""
from __future__ import annotations

import ast
import builtins
from pathlib import Path

MODULES = ["ode", "poisson", "basegrid", "atomgrid", "molgrid", "rtransform", "cubic", "periodicgrid",
           "becke", "robust_poisson"]


class Unsupported(Exception):
    pass


# ----------------------------------------------------------------------------- tables
NP_FRESH = {
    "array", "zeros", "ones", "empty", "full", "arange", "linspace", "geomspace", "logspace", "eye", "identity",
    "zeros_like", "ones_like", "empty_like", "full_like", "copy",
    "sum", "prod", "einsum", "dot", "matmul", "outer", "cross", "kron", "vstack", "hstack", "concatenate", "stack",
    "column_stack", "tile", "repeat", "where", "delete", "insert", "append", "sort", "argsort", "unique", "exp", "log",
    "log10", "log2", "sin", "cos", "tan", "arcsin", "arccos", "arctan", "arctan2", "sinh", "cosh", "tanh", "arcsinh",
    "sqrt", "abs", "absolute", "power", "sign", "floor", "ceil", "rint", "round", "isnan", "isinf", "isfinite", "any",
    "all", "max", "min", "amax", "amin", "argmax", "argmin", "mean", "std", "var", "cumsum", "cumprod", "diff",
    "count_nonzero", "nan_to_num", "clip", "meshgrid", "trace", "isclose", "allclose", "array_equal", "logical_and",
    "logical_or", "logical_not", "maximum", "minimum", "floor_divide", "mod", "finfo", "iinfo", "errstate", "float64",
    "int64", "int32", "isscalar", "ndim", "shape", "size", "nonzero", "searchsorted", "triu", "tril", "inner", "tensordot",
    "flip", "roll", "add", "subtract", "multiply", "divide", "negative", "reciprocal", "square", "cbrt", "expm1", "log1p",
    "linalg.norm", "linalg.det", "linalg.eigh", "linalg.eig", "linalg.svd", "linalg.solve", "linalg.inv", "linalg.pinv",
    "linalg.lstsq", "linalg.qr", "linalg.cholesky", "random.rand", "random.random", "random.randn", "random.uniform",
    "random.normal", "load", "savez", "save", "loadtxt", "fromiter", "frombuffer", "indices", "diagflat", "histogram",
    "polynomial.legendre.leggauss", "bincount", "interp", "convolve", "percentile", "median", "ptp",
}
NP_VIEW = {"asarray", "asanyarray", "ascontiguousarray", "asfortranarray", "atleast_1d", "atleast_2d", "atleast_3d",
           "ravel", "reshape", "swapaxes", "moveaxis", "transpose", "squeeze", "expand_dims", "diag", "diagonal",
           "broadcast_to", "broadcast_arrays", "real", "imag", "rollaxis", "split", "array_split", "hsplit", "vsplit",
           "nditer", "flatiter", "require", "take_along_axis"}
# np functions that mutate an argument in place: name -> index of the mutated positional argument
NP_MUT = {"put": 0, "place": 0, "copyto": 0, "fill_diagonal": 0, "putmask": 0, "random.shuffle": 0, "put_along_axis": 0,
          "ndarray.sort": 0, "add.at": 0, "subtract.at": 0, "multiply.at": 0, "divide.at": 0, "maximum.at": 0, "minimum.at": 0}

NP_UNARY_UFUNC = {"exp", "log", "sqrt", "abs", "absolute", "negative", "sin", "cos", "tan", "floor", "ceil", "rint", "sign",
                  "square", "reciprocal", "log10", "log2", "expm1", "log1p", "isnan", "isinf", "isfinite", "arcsin", "arccos",
                  "arctan", "sinh", "cosh", "tanh", "arcsinh", "cbrt", "logical_not"}
NP_BINARY_UFUNC = {"add", "subtract", "multiply", "divide", "power", "maximum", "minimum", "mod", "floor_divide", "arctan2",
                   "logical_and", "logical_or"}

BUILTIN_SCALAR = {"len", "int", "float", "str", "bool", "isinstance", "issubclass", "callable", "type", "repr", "hash",
                  "id", "range", "print", "abs", "round", "ord", "chr", "hasattr", "divmod", "pow", "complex", "format",
                  "input", "super_placeholder"}
BUILTIN_ALIAS = {"list", "tuple", "dict", "set", "frozenset", "sorted", "reversed", "enumerate", "zip", "iter", "next",
                 "max", "min", "sum", "any", "all"}
# (any/all/sum of arrays give scalars; aliasing is the conservative answer)

# methods of library objects (ndarray, list, dict, str, file, scipy objects)
M_FRESH = {"copy", "astype", "sum", "prod", "mean", "std", "var", "min", "max", "argmin", "argmax", "dot", "clip", "tolist",
           "flatten", "nonzero", "argsort", "any", "all", "conj", "conjugate", "round", "cumsum", "cumprod", "format", "split",
           "lower", "upper", "strip", "rstrip", "lstrip", "endswith", "startswith", "join", "readline", "readlines", "read",
           "write", "close", "as_matrix", "joinpath", "evalf", "query_ball_point", "query", "count", "index", "replace",
           "tobytes", "item", "trace", "searchsorted", "repeat", "cumulative", "encode", "decode", "isdigit", "title",
           "is_integer", "as_integer_ratio", "bit_length", "hex", "filterwarnings", "simplefilter", "catch_warnings", "warn",
           "product", "value", "random", "as_rotvec", "as_quat", "apply", "inv"}
M_VIEW = {"reshape", "ravel", "transpose", "view", "squeeze", "swapaxes", "items", "values", "keys", "get", "diagonal",
          "take", "__getitem__", "derivative", "antiderivative"}
M_WRITE = {"sort", "fill", "resize", "put", "itemset", "setflags", "partition", "byteswap", "pop", "remove", "clear",
           "reverse", "popitem", "setfield", "__delitem__", "discard", "shuffle"}
M_STORE = {"append", "extend", "insert", "update", "setdefault", "add", "__setitem__", "appendleft", "extendleft"}
M_RET_ALIAS = {"pop", "setdefault", "popitem"}

ATTR_SCALAR = {"shape", "size", "ndim", "dtype", "itemsize", "nbytes", "status", "success", "message", "pi", "inf", "nan",
               "e", "newaxis", "eps", "__name__", "__class__", "flags", "strides", "angstrom"}
ATTR_VIEW = {"T", "flat", "real", "imag", "base", "sol", "x", "y", "c", "mT"}

# scipy / sympy / stdlib callables imported by name:  kind in {"fresh","alias","hof"}
EXT_FUNCS = {
    "scipy.integrate.solve_bvp": "hof", "scipy.integrate.solve_ivp": "hof",
    "scipy.linalg.solve": "fresh", "scipy.optimize.nnls": "fresh", "sympy.bell": "fresh",
    "sympy.functions.combinatorial.numbers.bell": "fresh", "sympy.symbols": "fresh",
    "scipy.interpolate.CubicSpline": "alias", "scipy.interpolate.RegularGridInterpolator": "alias",
    "scipy.spatial.cKDTree": "alias", "scipy.spatial.transform.Rotation": "fresh",
    "importlib.resources.files": "fresh", "numbers.Number": "fresh", "numbers.Real": "fresh",
    "abc.ABC": "fresh", "abc.abstractmethod": "fresh",
}
# functions / classes of the grid package outside the translated modules: assumed not to modify their
# arguments; result fresh ("fresh") or possibly sharing with the arguments ("alias").  Validated on
# samples by the dynamic part of the check.
GRID_EXT = {
    "grid.utils.convert_cart_to_sph": "fresh", "grid.utils.generate_real_spherical_harmonics": "fresh",
    "grid.utils.generate_derivative_real_spherical_harmonics": "fresh", "grid.utils.solid_harmonics": "fresh",
    "grid.utils.generate_orders_horton_order": "fresh", "grid.utils.get_cov_radii": "fresh",
    "grid.utils.convert_derivative_from_spherical_to_cartesian": "fresh",
    "grid.utils._DEFAULT_POWER_RTRANSFORM_PARAMS": "const", "grid.utils.ANGSTROM_TO_BOHR": "const",
    "grid.coulomb.coulomb_potential": "fresh", "grid.coulomb.load_atomic_gaussian_params": "fresh",
    "grid.angular.AngularGrid": "alias", "grid.onedgrid.UniformInteger": "fresh",
}
# methods that exist only on grid classes outside the translated modules
GRID_EXT_METHODS = {"convert_angular_sizes_to_degrees": "fresh", "_get_degree_and_size": "fresh"}

# attributes of library result objects that hold callables (treated like user code: opaque, non-mutating)
CALLABLE_ATTRS = {"sol"}

MODULE_ALIASES = {"np": "numpy", "numpy": "numpy", "scipy": "scipy", "warnings": "warnings", "itertools": "itertools"}


# ----------------------------------------------------------------------------- program model
class Unit:
    def __init__(self, module, qual, node, kind, cls=None, parent=None):
        self.module, self.qual, self.node, self.kind, self.cls, self.parent = module, qual, node, kind, cls, parent
        self.fid = None
        self.children = {}  # name -> Unit (nested defs); lambdas by id(node)
        self.params = []  # python parameter names in binding order
        self.captured = []  # free variables bound in enclosing functions
        self.locals = set()
        self.ir = None
        self.nvars = 0
        self.error = None
        self.lines = (node.lineno, getattr(node, "end_lineno", node.lineno))
        self.sets_attrs = False
        self.scalar_params = set()

    @property
    def name(self):
        return f"{self.module}.{self.qual}"


class ClassInfo:
    def __init__(self, module, name, bases):
        self.module, self.name, self.bases = module, name, bases
        self.methods = {}  # name -> list[Unit]  (getter and setter share a name)


def _args_of(node):
    a = node.args
    names = [x.arg for x in a.posonlyargs + a.args]
    if a.vararg:
        names.append(a.vararg.arg)
    names += [x.arg for x in a.kwonlyargs]
    if a.kwarg:
        names.append(a.kwarg.arg)
    return names


def _own_nodes(node):
    """Walk the body of a function / lambda without entering nested function scopes (their headers'
    defaults and decorators belong to the outer scope)."""
    body = node.body if isinstance(node.body, list) else [node.body]
    stack = list(body)
    while stack:
        n = stack.pop()
        yield n
        if isinstance(n, (ast.FunctionDef, ast.AsyncFunctionDef, ast.Lambda)):
            stack.extend(n.args.defaults)
            stack.extend(d for d in n.args.kw_defaults if d is not None)
            continue
        if isinstance(n, ast.ClassDef):
            raise Unsupported("nested class")
        stack.extend(ast.iter_child_nodes(n))


def _assigned_names(node):
    out = set()
    for n in _own_nodes(node):
        if isinstance(n, ast.Name) and isinstance(n.ctx, (ast.Store, ast.Del)):
            out.add(n.id)
        elif isinstance(n, (ast.FunctionDef,)):
            out.add(n.name)
        elif isinstance(n, (ast.Import, ast.ImportFrom)):
            for a in n.names:
                out.add((a.asname or a.name).split(".")[0])
        elif isinstance(n, (ast.Global, ast.Nonlocal)):
            raise Unsupported("global/nonlocal")
    return out


def _loaded_names(node):
    out = set()
    for n in _own_nodes(node):
        if isinstance(n, ast.Name) and isinstance(n.ctx, ast.Load):
            out.add(n.id)
    return out


class Program:
    def __init__(self, src_dir: Path, modules=MODULES):
        self.src_dir = Path(src_dir)
        self.modules = list(modules)
        self.units: list[Unit] = []
        self.classes: dict[str, ClassInfo] = {}  # class name -> info (names are unique across the modules)
        self.funcs: dict[tuple, Unit] = {}  # (module, name) -> module-level function
        self.imports: dict[str, dict] = {}  # module -> local name -> dotted origin
        self.consts: dict[str, set] = {}
        self.sources = {}
        self.sites = []  # site id -> dict
        self.assumed = set()  # names of unknown externals treated as pure alias-all
        for m in self.modules:
            self._load(m)
        self._number()

    # ------------------------------------------------------------------ loading
    def _load(self, m):
        src = (self.src_dir / f"{m}.py").read_text()
        self.sources[m] = src
        import warnings as _w
        with _w.catch_warnings():
            _w.simplefilter("ignore")
            tree = ast.parse(src)
        imp, consts = {}, set()
        for node in tree.body:
            if isinstance(node, ast.Import):
                for a in node.names:
                    imp[(a.asname or a.name).split(".")[0]] = a.name if a.asname else a.name.split(".")[0]
            elif isinstance(node, ast.ImportFrom):
                mod = node.module or ""
                if node.level:
                    mod = "grid." + mod if mod else "grid"
                for a in node.names:
                    imp[a.asname or a.name] = f"{mod}.{a.name}"
            elif isinstance(node, ast.FunctionDef):
                u = Unit(m, node.name, node, "function")
                self.funcs[(m, node.name)] = u
                self._add_unit(u)
            elif isinstance(node, ast.ClassDef):
                bases = [b.id if isinstance(b, ast.Name) else ast.unparse(b) for b in node.bases]
                ci = ClassInfo(m, node.name, bases)
                if node.name in self.classes:
                    raise Unsupported(f"duplicate class name {node.name}")
                self.classes[node.name] = ci
                for sub in node.body:
                    if isinstance(sub, ast.FunctionDef):
                        kind = "method"
                        for d in sub.decorator_list:
                            ds = ast.unparse(d)
                            if ds == "staticmethod":
                                kind = "static"
                            elif ds == "classmethod":
                                kind = "classmethod"
                            elif ds == "property":
                                kind = "property"
                            elif ds.endswith(".setter"):
                                kind = "setter"
                            elif ds in ("abstractmethod",):
                                pass
                            else:
                                raise Unsupported(f"decorator {ds}")
                        q = f"{node.name}.{sub.name}" + (".setter" if kind == "setter" else "")
                        u = Unit(m, q, sub, kind, cls=ci)
                        ci.methods.setdefault(sub.name, []).append(u)
                        self._add_unit(u)
                    elif isinstance(sub, (ast.Expr, ast.Pass, ast.Assign, ast.AnnAssign)):
                        pass
                    else:
                        raise Unsupported(f"class body statement {type(sub).__name__} in {node.name}")
            elif isinstance(node, (ast.Assign, ast.AnnAssign)):
                tg = node.targets if isinstance(node, ast.Assign) else [node.target]
                for t in tg:
                    if isinstance(t, ast.Name):
                        consts.add(t.id)
            elif isinstance(node, (ast.Expr,)):
                pass
            else:
                raise Unsupported(f"module statement {type(node).__name__} in {m}")
        self.imports[m] = imp
        self.consts[m] = consts

    def _add_unit(self, u: Unit):
        self.units.append(u)
        u.params = _args_of(u.node)
        # nested scopes
        for n in _own_nodes(u.node):
            if isinstance(n, ast.FunctionDef):
                c = Unit(u.module, f"{u.qual}.{n.name}", n, "nested", cls=u.cls, parent=u)
                if n.decorator_list:
                    raise Unsupported("decorated nested function")
                if n.name in u.children:
                    raise Unsupported(f"nested function {n.name} defined twice in {u.qual}")
                u.children[n.name] = c
                self._add_unit(c)
            elif isinstance(n, ast.Lambda):
                c = Unit(u.module, f"{u.qual}.<lambda@{n.lineno}:{n.col_offset}>", n, "lambda", cls=u.cls, parent=u)
                u.children[id(n)] = c
                self._add_unit(c)
            elif isinstance(n, (ast.AsyncFunctionDef, ast.Await, ast.Yield, ast.YieldFrom, ast.Try, ast.NamedExpr,
                                ast.Match if hasattr(ast, "Match") else ast.Try, ast.AsyncFor, ast.AsyncWith)):
                u.error = f"unsupported construct {type(n).__name__} at line {n.lineno}"
        u.locals = set(u.params) | _assigned_names(u.node)

    def _number(self):
        for i, u in enumerate(self.units):
            u.fid = i
        # captured variables: free names bound in an enclosing function, closed under calls of siblings
        for u in self.units:
            if u.parent is None:
                continue
            free = _loaded_names(u.node) - u.locals
            cap = []
            p = u.parent
            while p is not None:
                for nme in sorted(free):
                    if nme in p.locals and nme not in cap:
                        cap.append(nme)
                p = p.parent
            u.captured = cap
        changed = True
        while changed:
            changed = False
            for u in self.units:
                if u.parent is None:
                    continue
                for nme in list(u.captured):
                    # calling a sibling / outer nested function needs that function's captured values too
                    p = u.parent
                    while p is not None:
                        c = p.children.get(nme)
                        if c is not None:
                            for x in c.captured:
                                if x not in u.captured and x not in u.locals:
                                    u.captured.append(x)
                                    changed = True
                            break
                        p = p.parent
                # nested children that capture from beyond u
                for c in u.children.values():
                    for x in c.captured:
                        if x not in u.locals and x not in u.captured:
                            u.captured.append(x)
                            changed = True
        # which functions set attributes of their receiver (directly or via calls on self)
        for u in self.units:
            if u.cls is not None and u.kind in ("method", "property", "setter") and u.params:
                s = u.params[0]
                for n in _own_nodes(u.node):
                    if isinstance(n, ast.Attribute) and isinstance(n.ctx, (ast.Store, ast.Del)) and \
                            isinstance(n.value, ast.Name) and n.value.id == s:
                        u.sets_attrs = True
                    if isinstance(n, ast.Call) and isinstance(n.func, ast.Name) and n.func.id in ("setattr", "delattr"):
                        u.sets_attrs = True
        changed = True
        while changed:
            changed = False
            for u in self.units:
                if u.sets_attrs or u.cls is None or not u.params or u.kind not in ("method", "property", "setter"):
                    continue
                s = u.params[0]
                for n in _own_nodes(u.node):
                    tgt = None
                    if isinstance(n, ast.Call) and isinstance(n.func, ast.Attribute):
                        b = n.func.value
                        if (isinstance(b, ast.Name) and b.id == s) or (isinstance(b, ast.Call) and isinstance(b.func, ast.Name) and b.func.id == "super"):
                            tgt = n.func.attr
                    elif isinstance(n, ast.Attribute) and isinstance(n.ctx, ast.Load) and isinstance(n.value, ast.Name) and n.value.id == s:
                        tgt = n.attr
                    if tgt and any(c.sets_attrs for c in self.methods_named(tgt)):
                        u.sets_attrs = True
                        changed = True
                        break

    # ------------------------------------------------------------------ queries
    def methods_named(self, name, kinds=None):
        out = []
        for ci in self.classes.values():
            for u in ci.methods.get(name, []):
                if kinds is None or u.kind in kinds:
                    out.append(u)
        return out

    def ancestors(self, ci: ClassInfo):
        out, stack = [], list(ci.bases)
        while stack:
            b = stack.pop(0)
            if b in self.classes and self.classes[b] not in out:
                out.append(self.classes[b])
                stack.extend(self.classes[b].bases)
        return out

    def descendants(self, ci: ClassInfo):
        return [c for c in self.classes.values() if ci in self.ancestors(c)]

    def find_method(self, ci: ClassInfo, name, kinds=None):
        """method `name` as seen from class ci (own, else first ancestor defining it)"""
        for c in [ci] + self.ancestors(ci):
            us = [u for u in c.methods.get(name, []) if kinds is None or u.kind in kinds]
            if us:
                return us
        return []

    def site(self, unit: Unit, node, what):
        self.sites.append({"file": f"{unit.module}.py", "func": unit.qual, "line": getattr(node, "lineno", 0),
                           "what": what, "text": ast.unparse(node)[:120] if node is not None else ""})
        return len(self.sites) - 1


# ----------------------------------------------------------------------------- function translator
GETTER_KINDS = ("property",)


class FunTranslator:
    def __init__(self, prog: Program, unit: Unit):
        self.p, self.u = prog, unit
        self.vars = {}  # name -> var id
        self.nv = 1  # 0 = RET
        self.scalars = set()  # names known to hold no object
        self.containers = set()  # names known to hold list/dict/set objects
        self.assigned_attrs = []
        self.selfname = None
        node = unit.node
        for nme in unit.params + unit.captured:
            self.vars[nme] = self.nv
            self.nv += 1
        self.nparams = self.nv - 1
        # parameter kinds
        a = node.args
        allargs = a.posonlyargs + a.args + a.kwonlyargs
        for x in allargs:
            if x.annotation is not None and isinstance(x.annotation, ast.Name) and x.annotation.id in ("int", "float", "str", "bool"):
                self.scalars.add(x.arg)
        if unit.kind == "classmethod" and unit.params:
            self.scalars.add(unit.params[0])
        if unit.kind in ("method", "property", "setter") and unit.params:
            self.selfname = unit.params[0]
        elif unit.kind in ("nested", "lambda"):
            # a nested function of a method sees the method's self as a captured value (aggregated)
            pass
        if self.selfname:
            seen = []
            for n in _own_nodes(node):
                if isinstance(n, ast.Attribute) and isinstance(n.ctx, (ast.Store, ast.Del)) and isinstance(n.value, ast.Name) \
                        and n.value.id == self.selfname and n.attr not in seen:
                    seen.append(n.attr)
            self.assigned_attrs = sorted(seen)
        self._infer_local_kinds()
        self._infer_tracked()

    # ------------------------------------------------------------------ helpers
    def var(self, name):
        if name not in self.vars:
            self.vars[name] = self.nv
            self.nv += 1
        return self.vars[name]

    def tmp(self):
        v = self.nv
        self.nv += 1
        return v

    def attrvar(self, attr):
        return self.var(f"{self.selfname}.{attr}")

    def _infer_local_kinds(self):
        """names assigned only from scalar expressions are scalars; names assigned from list/dict displays,
        comprehensions or list()/dict() calls are containers"""
        assigns = {}
        for n in _own_nodes(self.u.node):
            if isinstance(n, ast.Assign):
                for t in n.targets:
                    if isinstance(t, ast.Name):
                        assigns.setdefault(t.id, []).append(n.value)
                    else:
                        for s in ast.walk(t):
                            if isinstance(s, ast.Name) and isinstance(s.ctx, ast.Store):
                                assigns.setdefault(s.id, []).append(None)
            elif isinstance(n, ast.AugAssign) and isinstance(n.target, ast.Name):
                assigns.setdefault(n.target.id, []).append(("aug", n.value))
            elif isinstance(n, (ast.For, ast.comprehension)):
                for s in ast.walk(n.target):
                    if isinstance(s, ast.Name):
                        it = n.iter
                        if isinstance(it, ast.Call) and isinstance(it.func, ast.Name) and it.func.id == "range" and isinstance(n.target, ast.Name):
                            assigns.setdefault(s.id, []).append(ast.Constant(0))
                        else:
                            assigns.setdefault(s.id, []).append(None)
            elif isinstance(n, (ast.With,)):
                for it in n.items:
                    if it.optional_vars is not None:
                        for s in ast.walk(it.optional_vars):
                            if isinstance(s, ast.Name):
                                assigns.setdefault(s.id, []).append(None)
            elif isinstance(n, ast.AnnAssign) and isinstance(n.target, ast.Name):
                assigns.setdefault(n.target.id, []).append(n.value)
        params = set(self.u.params) | set(self.u.captured)
        changed = True
        while changed:
            changed = False
            for nme, vals in assigns.items():
                if nme in params or nme in self.scalars:
                    continue
                if all(v is not None and self._is_scalar_expr(v[1] if isinstance(v, tuple) else v) for v in vals):
                    self.scalars.add(nme)
                    changed = True
        for nme, vals in assigns.items():
            if nme in self.u.captured:
                continue
            if vals and all(v is not None and not isinstance(v, tuple) and self._is_container_expr(v) or
                            (isinstance(v, tuple)) for v in vals) and any(not isinstance(v, tuple) for v in vals):
                self.containers.add(nme)

    def _infer_tracked(self):
        """local list/dict variables whose spine (the container object itself) and elements are kept apart:
        created here from displays / comprehensions only, never aliased by a plain assignment and not
        captured by a nested function"""
        self.tracked = set()
        cand = {n for n in self.containers if n not in self.u.captured and n != self.selfname and n not in self.scalars}

        def mutates(unit, name):
            for n in ast.walk(unit.node):
                if isinstance(n, ast.Call) and isinstance(n.func, ast.Attribute) and isinstance(n.func.value, ast.Name) \
                        and n.func.value.id == name and (n.func.attr in M_STORE or n.func.attr in M_WRITE):
                    return True
                if isinstance(n, ast.Name) and n.id == name and isinstance(n.ctx, (ast.Store, ast.Del)):
                    return True
                if isinstance(n, ast.Subscript) and isinstance(n.ctx, (ast.Store, ast.Del)) and isinstance(n.value, ast.Name) and n.value.id == name:
                    return True
            return False

        for key, c in self.u.children.items():
            for nme in c.captured:
                if nme in cand and (not isinstance(key, str) or mutates(c, nme)):
                    cand.discard(nme)  # captured by a lambda, or mutated inside a nested function
        if not cand:
            return
        for n in _own_nodes(self.u.node):
            if isinstance(n, (ast.Assign, ast.AnnAssign)) and isinstance(n.value, ast.Name) and n.value.id in cand:
                cand.discard(n.value.id)
            elif isinstance(n, (ast.Assign,)) and isinstance(n.value, (ast.Tuple, ast.List)) and len(n.targets) == 1 \
                    and isinstance(n.targets[0], (ast.Tuple, ast.List)):
                # a, b = [], []  : per-element assignment is fine, nothing to do
                pass
            elif isinstance(n, ast.NamedExpr):
                cand.clear()
        self.tracked = cand

    def elemvar(self, name):
        return self.var(f"{name}[*]")

    def add_elems(self, name, vs, out):
        """new elements vs enter the tracked container `name`"""
        ev = self.elemvar(name)
        vs = self.vlist(vs)
        out.append(("alias", ev, [ev] + vs))
        if vs:
            for key, c in self.u.children.items():
                if isinstance(key, str) and name in c.captured:
                    out.append(("setattr", self.var(key), vs))

    def test(self, e, out):
        """evaluate an expression whose value is only tested (if / while / assert / len): tracked containers
        are not materialised"""
        if isinstance(e, ast.Name) and e.id in self.tracked:
            return
        if isinstance(e, ast.UnaryOp):
            return self.test(e.operand, out)
        if isinstance(e, ast.BoolOp):
            for v in e.values:
                self.test(v, out)
            return
        if isinstance(e, ast.Compare):
            self.test(e.left, out)
            for c in e.comparators:
                self.test(c, out)
            return
        if isinstance(e, ast.Call) and isinstance(e.func, ast.Name) and e.func.id in ("len", "isinstance", "callable", "type", "bool") \
                and e.func.id not in self.u.locals:
            for a in e.args:
                self.test(a, out)
            return
        self.expr(e, out)

    def _is_scalar_expr(self, e):
        if isinstance(e, ast.Constant) or isinstance(e, ast.JoinedStr):
            return True
        if isinstance(e, ast.Name):
            return e.id in self.scalars or e.id in ("True", "False", "None")
        if isinstance(e, ast.UnaryOp):
            return self._is_scalar_expr(e.operand)
        if isinstance(e, ast.BinOp):
            return self._is_scalar_expr(e.left) and self._is_scalar_expr(e.right)
        if isinstance(e, ast.BoolOp):
            return all(self._is_scalar_expr(v) for v in e.values)
        if isinstance(e, ast.Compare):
            return self._is_scalar_expr(e.left) and all(self._is_scalar_expr(c) for c in e.comparators)
        if isinstance(e, ast.IfExp):
            return self._is_scalar_expr(e.body) and self._is_scalar_expr(e.orelse)
        if isinstance(e, ast.Call) and isinstance(e.func, ast.Name) and e.func.id in ("len", "int", "float", "str", "bool", "isinstance", "callable") \
                and e.func.id not in self.u.locals:
            return True
        if isinstance(e, ast.Attribute) and e.attr in ("size", "ndim"):
            return True
        if isinstance(e, ast.Subscript) and isinstance(e.value, ast.Attribute) and e.value.attr == "shape":
            return True
        return False

    def _is_container_expr(self, e):
        if isinstance(e, (ast.List, ast.Dict, ast.Set, ast.ListComp, ast.DictComp, ast.SetComp, ast.Tuple)):
            return True
        if isinstance(e, ast.Call) and isinstance(e.func, ast.Name) and e.func.id in ("list", "dict", "set") and e.func.id not in self.u.locals:
            return True
        if isinstance(e, ast.BinOp) and (self._is_container_expr(e.left) or self._is_container_expr(e.right)):
            return True
        if isinstance(e, ast.IfExp):
            return self._is_container_expr(e.body) and self._is_container_expr(e.orelse)
        return False

    def _is_listy(self, e):
        if self._is_container_expr(e):
            return True
        return isinstance(e, ast.Name) and e.id in self.containers

    # ------------------------------------------------------------------ self
    def self_value(self, out):
        """the receiver as a value: the entry object together with all attribute variables"""
        s = self.var(self.selfname)
        if not self.assigned_attrs:
            return s
        t = self.tmp()
        out.append(("alias", t, [s] + [self.attrvar(a) for a in self.assigned_attrs]))
        return t

    def after_self_call(self, out, t, callees):
        """after a call that received the receiver value t and may have set attributes on it"""
        if t is None or self.selfname is None:
            return
        if callees is not None and not any(c.sets_attrs for c in callees):
            return
        s = self.var(self.selfname)
        out.append(("alias", s, [s, t]))
        for a in self.assigned_attrs:
            av = self.attrvar(a)
            out.append(("alias", av, [av, t]))

    # ------------------------------------------------------------------ translate
    def translate(self):
        u = self.u
        if u.error:
            raise Unsupported(u.error)
        out = []
        if self.selfname:
            s = self.var(self.selfname)
            for a in self.assigned_attrs:
                out.append(("alias", self.attrvar(a), [s]))
        for nme in sorted(self.tracked):
            if nme in u.params:
                # a parameter that is later rebound to a new container: until then the container is the argument
                out.append(("alias", self.elemvar(nme), [self.var(nme)]))
        if isinstance(u.node, ast.Lambda):
            v = self.expr(u.node.body, out)
            out.append(("alias", 0, [v] if v is not None else []))
            out.append(("ret",))
        else:
            self.block(u.node.body, out)
        u.ir = out
        u.nvars = self.nv
        u.nparams = self.nparams
        return out

    def block(self, stmts, out):
        for s in stmts:
            self.stmt(s, out)

    def vlist(self, vs):
        return [v for v in vs if v is not None]

    # ------------------------------------------------------------------ statements
    def stmt(self, s, out):
        u = self.u
        if isinstance(s, ast.Expr):
            if isinstance(s.value, ast.Constant):
                return
            self.expr(s.value, out)
        elif isinstance(s, ast.Assign):
            v = self.expr(s.value, out)
            for t in s.targets:
                self.assign(t, v, out, s)
        elif isinstance(s, ast.AnnAssign):
            if s.value is not None:
                v = self.expr(s.value, out)
                self.assign(s.target, v, out, s)
        elif isinstance(s, ast.AugAssign):
            v = self.expr(s.value, out)
            t = s.target
            if isinstance(t, ast.Name) and t.id in self.tracked:
                out.append(("write", self.var(t.id), self.p.site(u, s, "augmented assignment (local container)")))
                self.add_elems(t.id, [v], out)
            elif isinstance(t, ast.Name):
                if t.id in self.scalars:
                    return
                x = self.load_name(t.id, out, t)
                if x is None:
                    return
                site = self.p.site(u, s, "augmented assignment")
                if t.id in self.containers and v is not None:
                    out.append(("store", x, [v], site))
                else:
                    out.append(("write", x, site))
            elif isinstance(t, ast.Subscript) and isinstance(t.value, ast.Name) and t.value.id in self.tracked:
                self.expr_index(t.slice, out)
                out.append(("write", self.var(t.value.id), self.p.site(u, s, "augmented item assignment (local container)")))
                self.add_elems(t.value.id, [v], out)
            elif isinstance(t, ast.Subscript):
                base = self.expr(t.value, out)
                self.expr_index(t.slice, out)
                if base is not None:
                    site = self.p.site(u, s, "augmented subscript assignment")
                    if self._is_listy(t.value) and v is not None:
                        out.append(("store", base, [v], site))
                    else:
                        out.append(("write", base, site))
            elif isinstance(t, ast.Attribute):
                x = self.expr(ast.Attribute(value=t.value, attr=t.attr, ctx=ast.Load(), lineno=t.lineno, col_offset=t.col_offset), out)
                if x is not None:
                    out.append(("write", x, self.p.site(u, s, "augmented attribute assignment")))
            else:
                raise Unsupported("augassign target")
        elif isinstance(s, ast.Return):
            v = self.expr(s.value, out) if s.value is not None else None
            out.append(("alias", 0, [v] if v is not None else []))
            out.append(("ret",))
        elif isinstance(s, ast.Raise):
            if s.exc is not None:
                self.expr(s.exc, out)
            out.append(("alias", 0, []))
            out.append(("ret",))
        elif isinstance(s, ast.If):
            self.test(s.test, out)
            a, b = [], []
            self.block(s.body, a)
            self.block(s.orelse, b)
            out.append(("branch", a, b))
        elif isinstance(s, ast.For):
            it = self.expr(s.iter, out)
            body = []
            self.assign(s.target, it, body, s)
            self.block(s.body, body)
            out.append(("loop", body))
            self.block(s.orelse, out)
        elif isinstance(s, ast.While):
            body = []
            self.test(s.test, body)
            self.block(s.body, body)
            out.append(("loop", body))
            self.block(s.orelse, out)
        elif isinstance(s, ast.With):
            for it in s.items:
                v = self.expr(it.context_expr, out)
                if it.optional_vars is not None:
                    self.assign(it.optional_vars, v, out, s)
            self.block(s.body, out)
        elif isinstance(s, ast.Assert):
            self.test(s.test, out)
        elif isinstance(s, (ast.Pass, ast.Import, ast.ImportFrom)):
            return
        elif isinstance(s, ast.Delete):
            for t in s.targets:
                if isinstance(t, ast.Name):
                    out.append(("alias", self.var(t.id), []))
                    if t.id in self.tracked:
                        out.append(("alias", self.elemvar(t.id), []))
                elif isinstance(t, ast.Subscript):
                    base = self.expr(t.value, out)
                    if base is not None:
                        out.append(("write", base, self.p.site(u, s, "del item")))
                else:
                    raise Unsupported("del target")
        elif isinstance(s, (ast.Break, ast.Continue)):
            out.append(("brk",))
        elif isinstance(s, ast.FunctionDef):
            c = u.children[s.name]
            for d in s.args.defaults + [d for d in s.args.kw_defaults if d is not None]:
                self.expr(d, out)
            caps = self.vlist([self.load_name(n, out, s) for n in c.captured])
            out.append(("alias", self.var(s.name), caps))
            self.closure_may_run(c, s, out)
        else:
            raise Unsupported(f"statement {type(s).__name__} at line {s.lineno}")

    def assign(self, t, v, out, ctxnode):
        u = self.u
        if isinstance(t, ast.Name):
            if t.id in self.scalars:
                return
            if t.id in self.tracked:
                out.append(("alias", self.var(t.id), []))
                out.append(("alias", self.elemvar(t.id), [v] if v is not None else []))
                self._rebind_closures(t.id, v, out)
                return
            out.append(("alias", self.var(t.id), [v] if v is not None else []))
            # a closure created earlier sees the new binding
            self._rebind_closures(t.id, v, out)
        elif isinstance(t, (ast.Tuple, ast.List)):
            for e in t.elts:
                if isinstance(e, ast.Starred):
                    e = e.value
                self.assign(e, v, out, ctxnode)
        elif isinstance(t, ast.Attribute):
            if isinstance(t.value, ast.Name) and t.value.id == self.selfname and t.attr in self.assigned_attrs:
                out.append(("alias", self.attrvar(t.attr), [v] if v is not None else []))
                return
            base = self.expr(t.value, out)
            if base is None:
                return
            setters = self.p.methods_named(t.attr, ("setter",))
            alts = []
            if v is not None:
                alts.append([("setattr", base, [v])])
            else:
                alts.append([])
            for st in setters:
                alts.append([("calllib", self.tmp(), st.fid, self.bind_args(st, [base, v], {}, None, out), self.p.site(u, ctxnode, f"setter {st.name}"))])
            self.emit_alts(alts, out)
        elif isinstance(t, ast.Subscript) and isinstance(t.value, ast.Name) and t.value.id in self.tracked:
            self.expr_index(t.slice, out)
            out.append(("write", self.var(t.value.id), self.p.site(u, ctxnode, "item assignment (local container)")))
            self.add_elems(t.value.id, [v], out)
        elif isinstance(t, ast.Subscript):
            base = self.expr(t.value, out)
            self.expr_index(t.slice, out)
            if base is None:
                return
            site = self.p.site(u, ctxnode, "subscript assignment")
            if self._is_listy(t.value) and v is not None:
                out.append(("store", base, [v], site))
            else:
                out.append(("write", base, site))
        elif isinstance(t, ast.Starred):
            self.assign(t.value, v, out, ctxnode)
        else:
            raise Unsupported(f"assignment target {type(t).__name__}")

    def _rebind_closures(self, name, v, out):
        if v is None:
            return
        for key, c in self.u.children.items():
            if name in c.captured and isinstance(key, str) and key in self.vars:
                out.append(("setattr", self.vars[key], [v]))

    def closure_may_run(self, c, node, out):
        """a closure of nested function c exists from here on and may be run by anybody who gets hold of it
        (SciPy solvers, user code, other program functions): the creating function is only as good as c"""
        o = []
        args = self.bind_args(c, [], {}, None, o)
        o.append(("calllib", self.tmp(), c.fid, args, self.p.site(self.u, node, f"closure {c.name} created")))
        out.append(("branch", [], o))

    def emit_alts(self, alts, out):
        alts = [a for a in alts]
        if not alts:
            return
        cur = alts[-1]
        for a in reversed(alts[:-1]):
            cur = [("branch", a, cur)]
        out.extend(cur)

    # ------------------------------------------------------------------ expressions
    def expr_index(self, sl, out):
        if isinstance(sl, ast.Slice):
            for p in (sl.lower, sl.upper, sl.step):
                if p is not None:
                    self.expr(p, out)
        elif isinstance(sl, ast.Tuple):
            for e in sl.elts:
                self.expr_index(e, out)
        else:
            self.expr(sl, out)

    def load_name(self, name, out, node):
        u = self.u
        if name in self.scalars:
            return None
        if name in u.locals or name in u.captured or name in self.vars:
            if self.selfname and name == self.selfname:
                return self.self_value(out)
            if name in self.tracked:
                t = self.tmp()
                out.append(("alias", t, [self.var(name), self.elemvar(name)]))
                return t
            return self.var(name)
        # module level
        m = u.module
        if (m, name) in self.p.funcs or name in self.p.classes:
            return None  # function / class objects carry no caller data
        imp = self.p.imports[m].get(name)
        if imp is not None:
            return None
        if name in self.p.consts[m]:
            return None  # module constants are not caller data (caches are property C19)
        if hasattr(builtins, name):
            return None
        raise Unsupported(f"unknown name {name} at line {getattr(node, 'lineno', 0)}")

    def expr(self, e, out):
        """returns the variable holding the value, or None for values that are no objects"""
        u = self.u
        if e is None or isinstance(e, (ast.Constant, ast.JoinedStr)):
            if isinstance(e, ast.JoinedStr):
                for v in e.values:
                    if isinstance(v, ast.FormattedValue):
                        self.expr(v.value, out)
            return None
        if isinstance(e, ast.Name):
            return self.load_name(e.id, out, e)
        if isinstance(e, (ast.BinOp,)):
            a = self.expr(e.left, out)
            b = self.expr(e.right, out)
            if a is None and b is None:
                return None
            t = self.tmp()
            if self._is_listy(e.left) or self._is_listy(e.right):
                out.append(("alias", t, self.vlist([a, b])))
            else:
                out.append(("alias", t, []))
            return t
        if isinstance(e, ast.UnaryOp):
            a = self.expr(e.operand, out)
            if a is None:
                return None
            t = self.tmp()
            out.append(("alias", t, []))
            return t
        if isinstance(e, ast.Compare):
            vs = [self.expr(e.left, out)] + [self.expr(c, out) for c in e.comparators]
            if all(v is None for v in vs):
                return None
            t = self.tmp()
            out.append(("alias", t, []))
            return t
        if isinstance(e, ast.BoolOp):
            vs = self.vlist([self.expr(v, out) for v in e.values])
            if not vs:
                return None
            t = self.tmp()
            out.append(("alias", t, vs))
            return t
        if isinstance(e, ast.IfExp):
            self.test(e.test, out)
            t = self.tmp()
            a, b = [], []
            va = self.expr(e.body, a)
            vb = self.expr(e.orelse, b)
            if va is None and vb is None and not a and not b:
                return None
            a.append(("alias", t, self.vlist([va])))
            b.append(("alias", t, self.vlist([vb])))
            out.append(("branch", a, b))
            return t
        if isinstance(e, (ast.List, ast.Tuple, ast.Set)):
            vs = []
            for x in e.elts:
                if isinstance(x, ast.Starred):
                    x = x.value
                vs.append(self.expr(x, out))
            t = self.tmp()
            out.append(("alias", t, self.vlist(vs)))
            return t
        if isinstance(e, ast.Dict):
            vs = []
            for k, x in zip(e.keys, e.values):
                if k is not None:
                    self.expr(k, out)
                vs.append(self.expr(x, out))
            t = self.tmp()
            out.append(("alias", t, self.vlist(vs)))
            return t
        if isinstance(e, (ast.ListComp, ast.SetComp, ast.GeneratorExp, ast.DictComp)):
            return self.comprehension(e, out)
        if isinstance(e, ast.Subscript) and isinstance(e.value, ast.Name) and e.value.id in self.tracked:
            self.expr_index(e.slice, out)
            t = self.tmp()
            out.append(("alias", t, [self.elemvar(e.value.id)]))
            return t
        if isinstance(e, ast.Subscript):
            base = self.expr(e.value, out)
            self.expr_index(e.slice, out)
            if base is None:
                return None
            if isinstance(e.value, ast.Attribute) and e.value.attr == "shape":
                return None
            t = self.tmp()
            out.append(("alias", t, [base]))
            return t
        if isinstance(e, ast.Starred):
            return self.expr(e.value, out)
        if isinstance(e, ast.Attribute):
            return self.attribute(e, out)
        if isinstance(e, ast.Call):
            return self.call(e, out)
        if isinstance(e, ast.Lambda):
            c = u.children[id(e)]
            for d in e.args.defaults + [d for d in e.args.kw_defaults if d is not None]:
                self.expr(d, out)
            caps = self.vlist([self.load_name(n, out, e) for n in c.captured])
            t = self.tmp()
            out.append(("alias", t, caps))
            self.closure_may_run(c, e, out)
            return t
        if isinstance(e, ast.Slice):
            self.expr_index(e, out)
            return None
        raise Unsupported(f"expression {type(e).__name__} at line {getattr(e, 'lineno', 0)}")

    def comprehension(self, e, out):
        t = self.tmp()
        acc = self.tmp()
        out.append(("alias", acc, []))

        def rec(gens, o):
            if not gens:
                if isinstance(e, ast.DictComp):
                    self.expr(e.key, o)
                    v = self.expr(e.value, o)
                else:
                    v = self.expr(e.elt, o)
                if v is not None:
                    o.append(("alias", acc, [acc, v]))
                return
            g = gens[0]
            it = self.expr(g.iter, o)
            body = []
            self.assign(g.target, it, body, e)
            for c in g.ifs:
                self.test(c, body)
            rec(gens[1:], body)
            o.append(("loop", body))

        rec(list(e.generators), out)
        out.append(("alias", t, [acc]))  # the new container, created after its elements
        return t

    def module_path(self, e):
        """dotted path if e is a (sub)module reference like np, np.linalg, scipy.constants"""
        if isinstance(e, ast.Name) and e.id not in self.u.locals and e.id not in self.u.captured:
            imp = self.p.imports[self.u.module].get(e.id)
            if imp is not None and (imp in ("numpy", "scipy", "warnings", "itertools", "sympy") or imp.startswith(("numpy.", "scipy.")) and imp.split(".")[-1][0].islower() and imp not in EXT_FUNCS):
                return imp
            return None
        if isinstance(e, ast.Attribute):
            b = self.module_path(e.value)
            if b is not None and e.attr in ("linalg", "random", "constants", "polynomial", "legendre", "special", "integrate", "interpolate", "spatial", "optimize"):
                return f"{b}.{e.attr}"
        return None

    def attribute(self, e, out):
        u = self.u
        mp = self.module_path(e.value)
        if mp is not None:
            return None  # module constants (np.pi, np.inf, scipy.constants.angstrom) / function objects
        if isinstance(e.value, ast.Name) and e.value.id == self.selfname and e.attr in self.assigned_attrs:
            return self.attrvar(e.attr)
        if isinstance(e.value, ast.Name) and e.value.id in self.p.classes and e.value.id not in u.locals:
            return None  # Class.attr (function objects)
        base = self.expr(e.value, out)
        if base is None:
            return None
        if e.attr in ATTR_SCALAR:
            return None
        getters = self.p.methods_named(e.attr, GETTER_KINDS)
        if isinstance(e.value, ast.Name) and e.value.id == self.selfname and u.cls is not None:
            own = [g for g in getters if g.cls is u.cls or g.cls in self.p.ancestors(u.cls) or g.cls in self.p.descendants(u.cls)]
            meths = [m for m in self.p.methods_named(e.attr, ("method", "static", "classmethod")) if m.cls is u.cls or m.cls in self.p.ancestors(u.cls) or m.cls in self.p.descendants(u.cls)]
            if not own and not meths:
                # plain attribute of the receiver, not assigned here
                t = self.tmp()
                out.append(("alias", t, [base]))
                return t
            getters = own
        t = self.tmp()
        alts = []
        plain = self._attr_may_be_plain(e.attr)
        if plain or not getters:
            alts.append([("alias", t, [base])])
        for g in getters:
            alts.append([("calllib", t, g.fid, self.bind_args(g, [base], {}, None, out), self.p.site(u, e, f"property {g.name}"))])
        self.emit_alts(alts, out)
        if isinstance(e.value, ast.Name) and e.value.id == self.selfname:
            self.after_self_call(out, base, getters)
        return t

    def _attr_may_be_plain(self, attr):
        """some class of the program (or an external object) may have `attr` as a plain attribute / bound method"""
        if attr in ATTR_VIEW:
            return True
        if self.p.methods_named(attr, ("method", "static", "classmethod")):
            return True  # bound method object: closure over the receiver
        # attributes assigned as self.<attr> somewhere
        return attr in self.p_plain_attrs()

    def p_plain_attrs(self):
        if not hasattr(self.p, "_plain_attrs"):
            s = set()
            for unit in self.p.units:
                for n in ast.walk(unit.node):
                    if isinstance(n, ast.Attribute) and isinstance(n.ctx, ast.Store):
                        s.add(n.attr)
            self.p._plain_attrs = s
        return self.p._plain_attrs

    # ------------------------------------------------------------------ calls
    def eval_args(self, call, out):
        pos, kw, star = [], {}, []
        for a in call.args:
            if isinstance(a, ast.Starred):
                star.append(self.expr(a.value, out))
            else:
                pos.append(self.expr(a, out))
        for k in call.keywords:
            v = self.expr(k.value, out)
            if k.arg is None:
                star.append(v)
            else:
                kw[k.arg] = v
        return pos, kw, self.vlist(star)

    def bind_args(self, callee: Unit, pos, kw, star, out, closure_env=None):
        """argument variable for every parameter of callee (None -> a variable holding nothing)"""
        node = callee.node
        a = node.args
        names = _args_of(node)
        vals = {}
        posnames = [x.arg for x in a.posonlyargs + a.args]
        extra = []
        for i, v in enumerate(pos):
            if i < len(posnames):
                vals[posnames[i]] = v
            else:
                extra.append(v)
        for k, v in kw.items():
            if k in names and k not in (a.vararg.arg if a.vararg else None, a.kwarg.arg if a.kwarg else None):
                vals[k] = v
            else:
                extra.append(v)
        extra = self.vlist(extra)
        star = list(star or [])
        res = []
        nonev = None
        for n in names:
            if n in vals:
                v = vals[n]
            elif (a.vararg and n == a.vararg.arg) or (a.kwarg and n == a.kwarg.arg):
                srcs = extra + star
                if srcs:
                    v = self.tmp()
                    out.append(("alias", v, srcs))
                else:
                    v = None
            elif star:
                v = self.tmp()
                out.append(("alias", v, star))
            else:
                v = None  # default value: evaluated at definition time, not caller data
            res.append(v)
        for n in callee.captured:
            res.append(self.load_name(n, out, node) if (n in self.u.locals or n in self.u.captured or n in self.vars) else None)
        final = []
        for v in res:
            if v is None:
                if nonev is None:
                    nonev = self.tmp()
                    out.append(("alias", nonev, []))
                v = nonev
            final.append(v)
        return final

    def call_units(self, units, recv, pos, kw, star, out, node, t, skip_recv_for_static=True):
        """alternatives calling each candidate program function"""
        alts = []
        for c in units:
            o = []
            if c.kind in ("static",):
                args = self.bind_args(c, pos, kw, star, o)
            elif c.kind == "classmethod":
                args = self.bind_args(c, [None] + pos, kw, star, o)
            elif recv is not None or c.kind in ("method", "property", "setter"):
                args = self.bind_args(c, [recv] + pos, kw, star, o)
            else:
                args = self.bind_args(c, pos, kw, star, o)
            o.append(("calllib", t, c.fid, args, self.p.site(self.u, node, f"call {c.name}")))
            alts.append(o)
        return alts

    def construct(self, ci: ClassInfo, pos, kw, star, out, node, with_desc=False):
        t = self.tmp()
        out.append(("alias", t, []))
        classes = [ci] + (self.p.descendants(ci) if with_desc else [])
        alts = []
        for c in classes:
            inits = self.p.find_method(c, "__init__", ("method",))
            if not inits:
                alts.append([])
                continue
            o = []
            args = self.bind_args(inits[0], [t] + pos, kw, star, o)
            o.append(("calllib", self.tmp(), inits[0].fid, args, self.p.site(self.u, node, f"constructor {c.name}")))
            if o not in alts:
                alts.append(o)
        self.emit_alts(alts, out)
        return t

    def call(self, e, out):
        u = self.u
        f = e.func
        # out= keyword: in-place result
        outkw = [k for k in e.keywords if k.arg == "out"]
        # ---- super().m(...)
        if isinstance(f, ast.Attribute) and isinstance(f.value, ast.Call) and isinstance(f.value.func, ast.Name) and f.value.func.id == "super":
            if u.cls is None or self.selfname is None:
                raise Unsupported("super() outside a method")
            pos, kw, star = self.eval_args(e, out)
            cands = []
            for c in self.p.ancestors(u.cls):
                if f.attr in c.methods:
                    cands = [x for x in c.methods[f.attr] if x.kind == "method"]
                    break
            t = self.tmp()
            if not cands:
                out.append(("alias", t, []))
                return t
            recv = self.self_value(out)
            self.emit_alts(self.call_units(cands, recv, pos, kw, star, out, e, t), out)
            self.after_self_call(out, recv, cands)
            return t
        # ---- module functions np.xxx / scipy...
        if isinstance(f, ast.Attribute):
            mp = self.module_path(f.value)
            if mp is not None:
                return self.lib_call(f"{mp}.{f.attr}", e, out)
        if isinstance(f, ast.Name) and f.id not in u.locals and f.id not in u.captured:
            return self.global_call(f.id, e, out)
        if isinstance(f, ast.Name) and u.kind == "classmethod" and u.params and f.id == u.params[0] and u.cls is not None:
            pos, kw, star = self.eval_args(e, out)
            return self.construct(u.cls, pos, kw, star, out, e, with_desc=True)
        if isinstance(f, ast.Attribute) and f.attr == "__class__" and isinstance(f.value, ast.Name) and f.value.id == self.selfname and u.cls is not None:
            pos, kw, star = self.eval_args(e, out)
            return self.construct(u.cls, pos, kw, star, out, e, with_desc=True)
        if isinstance(f, ast.Name):
            # local callable: nested function or a callable value
            c = self.lookup_nested(f.id)
            pos, kw, star = self.eval_args(e, out)
            t = self.tmp()
            if c is not None and self._only_def_binding(f.id):
                o = []
                args = self.bind_args(c, pos, kw, star, o)
                out.extend(o)
                out.append(("calllib", t, c.fid, args, self.p.site(u, e, f"call {c.name}")))
                return t
            fv = self.load_name(f.id, out, f)
            out.append(("calluser", t, self.vlist([fv] + pos + list(kw.values()) + star)))
            return t
        if isinstance(f, ast.Attribute):
            return self.method_call(f, e, out)
        # call of a computed callable (subscript, call result, lambda)
        fv = self.expr(f, out)
        pos, kw, star = self.eval_args(e, out)
        t = self.tmp()
        out.append(("calluser", t, self.vlist([fv] + pos + list(kw.values()) + star)))
        return t

    def lookup_nested(self, name):
        p = self.u
        while p is not None:
            if name in p.children:
                return p.children[name]
            p = p.parent
        return None

    def _only_def_binding(self, name):
        """the name is bound only by its def statement (in the scope that defines it)"""
        p = self.u
        while p is not None:
            if name in p.children:
                cnt = 0
                for n in _own_nodes(p.node):
                    if isinstance(n, ast.Name) and n.id == name and isinstance(n.ctx, (ast.Store, ast.Del)):
                        cnt += 1
                return cnt == 0 and name not in p.params
            p = p.parent
        return False

    def lib_call(self, dotted, e, out):
        """numpy / scipy / stdlib module function"""
        u = self.u
        pos, kw, star = self.eval_args(e, out)
        allv = self.vlist(pos + list(kw.values()) + star)
        t = self.tmp()
        root, _, name = dotted.partition(".")
        if "out" in kw and kw["out"] is not None:
            out.append(("write", kw["out"], self.p.site(u, e, f"{dotted}(out=...)")))
            out.append(("alias", t, [kw["out"]]))
            return t
        if root == "numpy":
            # positional `out` argument of ufuncs / clip
            oi = 1 if name in NP_UNARY_UFUNC else 2 if name in NP_BINARY_UFUNC else 3 if name == "clip" else None
            if oi is not None and len(pos) > oi and not any(isinstance(a, ast.Starred) for a in e.args):
                if pos[oi] is not None:
                    out.append(("write", pos[oi], self.p.site(u, e, f"numpy.{name}(..., out) positional")))
                    out.append(("alias", t, [pos[oi]]))
                    return t
            if name in NP_MUT:
                i = NP_MUT[name]
                if i < len(pos) and pos[i] is not None:
                    out.append(("write", pos[i], self.p.site(u, e, f"numpy.{name} (in place)")))
                out.append(("alias", t, []))
                return t
            if name in NP_VIEW or ("copy" in kw and name in ("array",) and isinstance(self._kwnode(e, "copy"), ast.Constant) and self._kwnode(e, "copy").value is False):
                out.append(("alias", t, allv))
                return t
            if name in NP_FRESH:
                out.append(("alias", t, []))
                return t
            raise Unsupported(f"numpy function {name} is not in the effect tables (line {e.lineno})")
        if root == "warnings":
            return None
        if root == "itertools":
            out.append(("alias", t, allv))
            return t
        if dotted in ("scipy.constants.value",):
            return None
        if dotted in EXT_FUNCS:
            return self.ext_call(EXT_FUNCS[dotted], allv, t, out)
        raise Unsupported(f"library function {dotted} is not in the effect tables (line {e.lineno})")

    def _kwnode(self, e, name):
        for k in e.keywords:
            if k.arg == name:
                return k.value
        return None

    def ext_call(self, kind, allv, t, out):
        if kind == "fresh" or kind == "const":
            out.append(("alias", t, []))
        elif kind == "alias":
            out.append(("alias", t, allv))
        elif kind == "hof":
            out.append(("calluser", t, allv))
        else:
            raise Unsupported(kind)
        return t

    def global_call(self, name, e, out):
        u = self.u
        m = u.module
        pos, kw, star = None, None, None
        if (m, name) in self.p.funcs:
            c = self.p.funcs[(m, name)]
            pos, kw, star = self.eval_args(e, out)
            t = self.tmp()
            args = self.bind_args(c, pos, kw, star, out)
            out.append(("calllib", t, c.fid, args, self.p.site(u, e, f"call {c.name}")))
            return t
        if name in self.p.classes and (self.p.classes[name].module == m or self.p.imports[m].get(name, "").endswith("." + name)):
            pos, kw, star = self.eval_args(e, out)
            return self.construct(self.p.classes[name], pos, kw, star, out, e)
        imp = self.p.imports[m].get(name)
        if imp is not None:
            parts = imp.split(".")
            if parts[0] == "grid" and len(parts) == 3 and parts[1] in self.p.modules:
                if (parts[1], parts[2]) in self.p.funcs:
                    c = self.p.funcs[(parts[1], parts[2])]
                    pos, kw, star = self.eval_args(e, out)
                    t = self.tmp()
                    args = self.bind_args(c, pos, kw, star, out)
                    out.append(("calllib", t, c.fid, args, self.p.site(u, e, f"call {c.name}")))
                    return t
                if parts[2] in self.p.classes:
                    pos, kw, star = self.eval_args(e, out)
                    return self.construct(self.p.classes[parts[2]], pos, kw, star, out, e)
            pos, kw, star = self.eval_args(e, out)
            allv = self.vlist(pos + list(kw.values()) + star)
            t = self.tmp()
            if imp in GRID_EXT:
                return self.ext_call(GRID_EXT[imp], allv, t, out)
            if imp in EXT_FUNCS:
                return self.ext_call(EXT_FUNCS[imp], allv, t, out)
            raise Unsupported(f"imported callable {imp} is not in the effect tables (line {e.lineno})")
        if name == "super":
            raise Unsupported("bare super()")
        if hasattr(builtins, name):
            if name in ("len", "isinstance", "callable", "type", "bool"):
                for a in e.args:
                    self.test(a, out)
                return None
            pos, kw, star = self.eval_args(e, out)
            allv = self.vlist(pos + list(kw.values()) + star)
            if name in BUILTIN_SCALAR:
                return None
            if name in ("open",):
                t = self.tmp()
                out.append(("alias", t, []))
                return t
            if name in BUILTIN_ALIAS:
                if not allv:
                    if name in ("list", "dict", "set", "tuple", "frozenset"):
                        t = self.tmp()
                        out.append(("alias", t, []))
                        return t
                    return None
                t = self.tmp()
                out.append(("alias", t, allv))
                return t
            if name in ("setattr", "delattr"):
                if pos and pos[0] is not None and len(pos) > 2 and pos[2] is not None:
                    out.append(("setattr", pos[0], [pos[2]]))
                return None
            if name.endswith("Error") or name.endswith("Warning") or name in ("Exception", "StopIteration"):
                return None
            raise Unsupported(f"builtin {name} is not in the effect tables (line {e.lineno})")
        raise Unsupported(f"unknown callee {name} (line {e.lineno})")

    def method_call(self, f, e, out):
        """obj.m(args)"""
        u = self.u
        name = f.attr
        # Class.m(...)  (static / class methods, or explicit unbound call)
        if isinstance(f.value, ast.Name) and f.value.id not in u.locals and f.value.id not in u.captured and \
                (f.value.id in self.p.classes or self.p.imports[u.module].get(f.value.id, "") in GRID_EXT):
            pos, kw, star = self.eval_args(e, out)
            t = self.tmp()
            if f.value.id in self.p.classes:
                cands = self.p.find_method(self.p.classes[f.value.id], name)
                if not cands:
                    raise Unsupported(f"{f.value.id}.{name} not found")
                alts = []
                for c in cands:
                    o = []
                    if c.kind == "classmethod":
                        args = self.bind_args(c, [None] + pos, kw, star, o)
                    else:
                        args = self.bind_args(c, pos, kw, star, o)
                    o.append(("calllib", t, c.fid, args, self.p.site(u, e, f"call {c.name}")))
                    alts.append(o)
                self.emit_alts(alts, out)
                return t
            if name in GRID_EXT_METHODS:
                return self.ext_call(GRID_EXT_METHODS[name], self.vlist(pos + list(kw.values()) + star), t, out)
            raise Unsupported(f"external method {f.value.id}.{name} not in the effect tables")
        # cls.m(...) / cls(...) handled in call(); here cls.m
        if isinstance(f.value, ast.Name) and u.kind == "classmethod" and u.params and f.value.id == u.params[0]:
            pos, kw, star = self.eval_args(e, out)
            t = self.tmp()
            cands = []
            for c in [u.cls] + self.p.descendants(u.cls):
                for x in self.p.find_method(c, name):
                    if x not in cands:
                        cands.append(x)
            if not cands:
                raise Unsupported(f"cls.{name} not found")
            self.emit_alts(self.call_units(cands, None, pos, kw, star, out, e, t), out)
            return t
        if isinstance(f.value, ast.Name) and f.value.id in self.tracked:
            pos, kw, star = self.eval_args(e, out)
            allv = self.vlist(pos + list(kw.values()) + star)
            sp, ev = self.var(f.value.id), self.elemvar(f.value.id)
            t = self.tmp()
            if name in M_STORE:
                out.append(("write", sp, self.p.site(u, e, f".{name}() on a local container")))
                self.add_elems(f.value.id, allv, out)
                out.append(("alias", t, [ev] if name in M_RET_ALIAS else []))
            elif name in M_WRITE:
                out.append(("write", sp, self.p.site(u, e, f".{name}() on a local container")))
                out.append(("alias", t, [ev] if name in M_RET_ALIAS else []))
            elif name in M_VIEW or name == "copy":
                out.append(("alias", t, [ev] + allv))
            elif name in M_FRESH:
                out.append(("alias", t, []))
            else:
                raise Unsupported(f"method .{name}() on a local container (line {e.lineno})")
            return t
        is_self = isinstance(f.value, ast.Name) and f.value.id == self.selfname
        recv = self.expr(f.value, out)
        pos, kw, star = self.eval_args(e, out)
        allv = self.vlist(pos + list(kw.values()) + star)
        t = self.tmp()
        if "out" in kw and kw["out"] is not None:
            out.append(("write", kw["out"], self.p.site(u, e, f".{name}(out=...)")))
        if recv is None:
            # method of a scalar / string / module-level object
            if name in M_STORE or name in M_WRITE:
                return None
            if allv:
                out.append(("alias", t, allv))
                return t
            return None
        cands = self.p.methods_named(name, ("method", "static", "classmethod"))
        if is_self and u.cls is not None:
            fam = [u.cls] + self.p.ancestors(u.cls) + self.p.descendants(u.cls)
            cands = [c for c in cands if c.cls in fam]
        alts = []
        if cands:
            alts += self.call_units(cands, recv, pos, kw, star, out, e, t)
        lib = []
        if name in M_STORE:
            site = self.p.site(u, e, f".{name}() (in place)")
            lib = [("store", recv, allv, site)] if allv else [("write", recv, site)]
            lib.append(("alias", t, [recv] if name in M_RET_ALIAS else []))
        elif name in M_WRITE:
            lib = [("write", recv, self.p.site(u, e, f".{name}() (in place)")), ("alias", t, [recv] if name in M_RET_ALIAS else [])]
        elif name in M_VIEW:
            lib = [("alias", t, [recv] + allv)]
        elif name in M_FRESH:
            lib = [("alias", t, [])]
        elif name in GRID_EXT_METHODS and not cands:
            lib = [("alias", t, [])]
        if lib:
            # a library method of the same name exists: an alternative unless the receiver is self
            if not (is_self and cands):
                alts.append(lib)
        if not alts and name in CALLABLE_ATTRS:
            out.append(("calluser", t, [recv] + allv))
            return t
        if not alts:
            # attribute holding a callable (e.g. self._tfm.deriv2 is handled above; scipy result objects)
            raise Unsupported(f"method .{name}() is neither a program method nor in the effect tables (line {e.lineno})")
        self.emit_alts(alts, out)
        if is_self:
            self.after_self_call(out, recv, cands)
        return t


# ----------------------------------------------------------------------------- IR utilities
def translate_program(src_dir, modules=MODULES):
    prog = Program(src_dir, modules)
    for u in prog.units:
        try:
            FunTranslator(prog, u).translate()
        except Unsupported as ex:
            u.error = str(ex)
            u.ir = None
    return prog




def stub_ir(u: Unit):
    """IR of a function outside the supported subset: writes every parameter and runs opaque code"""
    np_ = len(u.params) + len(u.captured)
    body = [("write", i, 0) for i in range(1, np_ + 1)]
    body.append(("calluser", 0, list(range(1, np_ + 1))))
    body.append(("ret",))
    return body, np_, np_ + 1


def coq_stmt(s) -> str:
    k = s[0]
    vl = lambda ys: "[" + "; ".join(str(y) for y in ys) + "]"
    if k == "alias":
        return f"(Alias {s[1]} {vl(s[2])})"
    if k == "write":
        return f"(Write {s[1]} {s[2]})"
    if k == "store":
        return f"(Store {s[1]} {vl(s[2])} {s[3]})"
    if k == "setattr":
        return f"(SetAttr {s[1]} {vl(s[2])})"
    if k == "calluser":
        return f"(CallUser {s[1]} {vl(s[2])})"
    if k == "calllib":
        return f"(CallLib {s[1]} {s[2]} {vl(s[3])} {s[4]})"
    if k == "branch":
        return f"(Branch {coq_block(s[1])} {coq_block(s[2])})"
    if k == "loop":
        return f"(Loop {coq_block(s[1])})"
    if k == "brk":
        return "Brk"
    if k == "ret":
        return "Return"
    if k == "skip":
        return "Skip"
    raise ValueError(k)


def coq_block(stmts) -> str:
    if not stmts:
        return "Skip"
    if len(stmts) == 1:
        return coq_stmt(stmts[0])
    # balanced nesting keeps terms shallow
    mid = len(stmts) // 2
    return f"(Seq {coq_block(stmts[:mid])} {coq_block(stmts[mid:])})"
