"""C08 translator — fail-closed symbolic execution of the anchored routines of src/grid/utils.py into Coq (R).

What is translated (every run, from the current source):
  generate_real_spherical_harmonics            -> g_sin_phi, g_cos_phi, g_a_k, g_b_k, g_fac_sph, g_init_p0, g_y00 and
                                                  g_step = one iteration of the (l_deg, m_ord) loop body as a state
                                                  transformer (Legendre buffer p_leg, running `factorial`, rows written)
  generate_derivative_real_spherical_harmonics -> g_index_m, g_dstep = one iteration of the (l_val, m) loop body
                                                  (both output rows), SciPy's sph_harm_y is a parameter (oracle)
  solid_harmonics                              -> g_solid_entry (element-wise return expression)
  convert_cart_to_sph                          -> g_cart_to_sph (per point)
  convert_derivative_from_spherical_to_cartesian -> g_jacobian (9 entries after the r/phi overrides), g_sph_to_cart_deriv
The loop headers, array allocations, initialisations and return statements are compared verbatim (ast.unparse) with the
shape the hand-written skeleton in coq/C08/C08_model.v implements; anything else raises Unsupported.
Real expressions go through vlib.py2coq_real.Tr (sub-classed for subscripts, float(), conditional expressions,
integer-valued sub-expressions in Z and complex values as (re, im) pairs).
"""
from __future__ import annotations

import ast
import copy

from vlib import py2coq_real as P
from vlib.core import src_sha

Unsupported = P.Unsupported
PREC_DTYPES = {"np.longdouble", "float", "np.float64", "np.double"}


def up(n) -> str:
    return ast.unparse(n)


def require(cond, msg):
    if not cond:
        raise Unsupported(msg)


class Tr8(P.Tr):
    """Expression translator.  ints: names bound to Python/NumPy integers (Coq Z variables v_<name>);
    reals: names bound to real scalars (one evaluation point of the NumPy arrays)."""

    def __init__(self, ints=(), reals=()):
        super().__init__(P.Env({}, {}, {}))
        self.ints = set(ints)
        self.reals = set(reals)
        self.rfuncs: dict[str, str] = {}   # local real function -> coq name (arguments are reals)
        self.zfuncs: dict[str, str] = {}   # local integer function -> coq name (arguments are Z)
        self.cplx: dict[str, tuple[str, str]] = {}   # complex locals -> (re, im) coq variable names
        self.cells1: set[str] = set()      # one-element arrays used as scalar cells: x[0] is v_x
        self.vectors: dict[str, tuple[str, str, str]] = {}   # (N,3) arrays: x[:, k] is component k
        self.slices: dict[str, tuple[str, str]] = {}  # name -> (list variable, Z start):  name[i, :] = znth (start+i) list
        self.subst: dict[str, str] = {}    # verbatim sub-expression -> coq term (checked by the caller)
        self.buf: str | None = None        # name of the p_leg-like buffer array
        self.oracle_calls: list[str] = []

    # ------------------------------------------------------------------ integers (Z)
    def zexpr(self, e) -> str:
        if isinstance(e, ast.Constant) and isinstance(e.value, int) and not isinstance(e.value, bool):
            return str(e.value) if e.value >= 0 else f"({e.value})"
        if isinstance(e, ast.Name) and e.id in self.ints:
            return "v_" + e.id
        if isinstance(e, ast.UnaryOp) and isinstance(e.op, ast.USub):
            return f"(- {self.zexpr(e.operand)})"
        if isinstance(e, ast.BinOp):
            if isinstance(e.op, ast.Pow):
                require(isinstance(e.right, ast.Constant) and isinstance(e.right.value, int) and not isinstance(e.right.value, bool)
                        and e.right.value >= 0, f"integer power {up(e)}")
                return f"({self.zexpr(e.left)} ^ {e.right.value})"
            op = {ast.Add: "+", ast.Sub: "-", ast.Mult: "*"}.get(type(e.op))
            require(op is not None, f"integer operator in {up(e)}")
            return f"({self.zexpr(e.left)} {op} {self.zexpr(e.right)})"
        if isinstance(e, ast.Call) and not e.keywords and len(e.args) == 1:
            f = up(e.func)
            if f in ("int", "float"):          # conversions of an integer value
                return self.zexpr(e.args[0])
            if f in ("np.abs", "np.fabs", "abs"):
                return f"(Z.abs {self.zexpr(e.args[0])})"
            if f in self.zfuncs:
                return f"({self.zfuncs[f]} {self.zexpr(e.args[0])})"
        raise Unsupported(f"not an integer expression: {up(e)[:60]}")

    def is_int(self, e) -> bool:
        try:
            self.zexpr(e)
            return True
        except Unsupported:
            return False

    def zbool(self, t) -> str:
        require(isinstance(t, ast.Compare) and len(t.ops) == 1, f"condition {up(t)[:60]}")
        a, b = self.zexpr(t.left), self.zexpr(t.comparators[0])
        op = {ast.Eq: "Z.eqb", ast.LtE: "Z.leb", ast.Lt: "Z.ltb", ast.GtE: "Z.geb", ast.Gt: "Z.gtb"}.get(type(t.ops[0]))
        if op is None and isinstance(t.ops[0], ast.NotEq):
            return f"(negb (Z.eqb {a} {b}))%Z"
        require(op is not None, f"comparison {up(t)[:60]}")
        return f"({op} {a} {b})%Z"

    def rcond(self, t) -> str:
        """decidable comparison of reals (a sumbool, usable in `if`)"""
        require(isinstance(t, ast.Compare) and len(t.ops) == 1, f"condition {up(t)[:60]}")
        a, b = self.expr(t.left), self.expr(t.comparators[0])
        if isinstance(t.ops[0], ast.Lt):
            return f"(Rlt_dec {a} {b})"
        if isinstance(t.ops[0], ast.Gt):
            return f"(Rlt_dec {b} {a})"
        if isinstance(t.ops[0], ast.Eq):
            return f"(Req_EM_T {a} {b})"
        raise Unsupported(f"real comparison {up(t)[:60]}")

    def cond(self, t) -> str:
        if isinstance(t, ast.Compare) and len(t.ops) == 1 and self.is_int(t.left) and self.is_int(t.comparators[0]):
            return self.zbool(t)
        return self.rcond(t)

    # ------------------------------------------------------------------ reals
    def expr(self, e) -> str:
        src = up(e)
        if src in self.subst:
            return self.subst[src]
        if isinstance(e, ast.Name):
            if e.id in self.ints:
                return f"(IZR v_{e.id})"
            if e.id in self.reals:
                return "v_" + e.id
            raise Unsupported(f"name {e.id} is not a known scalar")
        if isinstance(e, ast.Constant):
            require(not isinstance(e.value, complex), "complex literal in a real expression")
            return P.lit(e.value)
        if isinstance(e, ast.IfExp):
            return f"(if {self.cond(e.test)} then {self.expr(e.body)} else {self.expr(e.orelse)})"
        if isinstance(e, ast.BinOp) and isinstance(e.op, ast.Pow):
            if up(e.left) in ("-1.0", "(-1.0)", "-1") and self.is_int(e.right):
                return f"(m1pow {self.zexpr(e.right)}%Z)"
            if isinstance(e.right, ast.Constant) and isinstance(e.right.value, int) and not isinstance(e.right.value, bool) and e.right.value >= 0:
                return f"({self.expr(e.left)} ^ {e.right.value})"
            require(self.is_int(e.right) and not self.is_int(e.left), f"power {src[:60]}")
            return f"(powerRZ {self.expr(e.left)} {self.zexpr(e.right)}%Z)"      # real base, integer-valued exponent
        if isinstance(e, ast.Subscript):
            return self.subscript(e)
        if isinstance(e, ast.Call):
            f = up(e.func)
            kws = {k.arg: up(k.value) for k in e.keywords}
            if set(kws) <= {"dtype"} and kws.get("dtype", "float") in PREC_DTYPES:   # precision only
                if f == "float" and len(e.args) == 1 and not kws:
                    return self.expr(e.args[0])
                if f == "np.array" and len(e.args) == 1 and isinstance(e.args[0], ast.List) and len(e.args[0].elts) == 1:
                    return self.expr(e.args[0].elts[0])          # one-element array = scalar cell
                if f in self.rfuncs:
                    return "(" + self.rfuncs[f] + " " + " ".join(self.expr(a) for a in e.args) + ")"
                if f == "np.arccos" and len(e.args) == 1:
                    return f"(acos {self.expr(e.args[0])})"
                if f == "np.arctan2" and len(e.args) == 2:
                    return f"(atan2 {self.expr(e.args[0])} {self.expr(e.args[1])})"
                if f == "np.linalg.norm" and len(e.args) == 1 and up(e.args[0]) in self.vectors:
                    raise Unsupported("np.linalg.norm without axis=-1")
                if f.startswith("np.") and f[3:] in P.UNARY_FUNCS and len(e.args) == 1:
                    return f"({P.UNARY_FUNCS[f[3:]]} {self.expr(e.args[0])})"
            if f == "np.linalg.norm" and len(e.args) == 1 and up(e.args[0]) in self.vectors and kws == {"axis": "-1"}:
                x, y, z = self.vectors[up(e.args[0])]
                return f"(norm3 {x} {y} {z})"
            if f == "np.where" and len(e.args) == 3 and not kws:
                return f"(if {self.rcond(e.args[0])} then {self.expr(e.args[1])} else {self.expr(e.args[2])})"
            if f in ("np.real", "np.imag") and len(e.args) == 1 and not kws:
                re_, im_ = self.cexpr(e.args[0])
                return re_ if f == "np.real" else im_
            raise Unsupported(f"call {src[:70]}")
        if isinstance(e, ast.Attribute):
            if up(e) in ("np.pi", "numpy.pi", "math.pi"):
                return "PI"
            raise Unsupported(f"attribute {src}")
        return super().expr(e)   # + - * / unary minus (recursion comes back here)

    def subscript(self, e: ast.Subscript) -> str:
        require(isinstance(e.value, ast.Name), f"subscript {up(e)}")
        name = e.value.id
        idx = list(e.slice.elts) if isinstance(e.slice, ast.Tuple) else [e.slice]
        full = lambda s: isinstance(s, ast.Slice) and s.lower is None and s.upper is None and s.step is None  # noqa: E731
        if name == self.buf:
            require(len(idx) in (2, 3) and (len(idx) == 2 or full(idx[2])), f"buffer index {up(e)}")
            require(isinstance(idx[1], ast.Constant) and idx[1].value in (0, 1), f"buffer column {up(e)}")
            return f"(rd b {self.zexpr(idx[0])}%Z {idx[1].value})"
        if name in self.cells1:
            require(len(idx) == 1 and isinstance(idx[0], ast.Constant) and idx[0].value == 0, f"cell index {up(e)}")
            return "v_" + name
        if name in self.vectors:
            require(len(idx) == 2 and full(idx[0]) and isinstance(idx[1], ast.Constant) and idx[1].value in (0, 1, 2), f"vector index {up(e)}")
            return self.vectors[name][idx[1].value]
        if name in self.slices:
            require(len(idx) == 2 and full(idx[1]), f"row index {up(e)}")
            lst, start = self.slices[name]
            return f"(znth ({start} + {self.zexpr(idx[0])})%Z {lst})"
        raise Unsupported(f"subscript {up(e)[:60]}")

    # ------------------------------------------------------------------ complex values as (re, im)
    def is_cplx(self, e) -> bool:
        if isinstance(e, ast.Name):
            return e.id in self.cplx
        if isinstance(e, ast.Constant):
            return isinstance(e.value, complex)
        if isinstance(e, ast.BinOp):
            return self.is_cplx(e.left) or self.is_cplx(e.right)
        if isinstance(e, ast.UnaryOp):
            return self.is_cplx(e.operand)
        if isinstance(e, ast.Call):
            f = up(e.func)
            if f == "sph_harm_y":
                return True
            if f == "np.exp" and len(e.args) == 1:
                return self.is_cplx(e.args[0])
        return False

    def cexpr(self, e) -> tuple[str, str]:
        if not self.is_cplx(e):
            return self.expr(e), "0"
        if isinstance(e, ast.Name):
            return self.cplx[e.id]
        if isinstance(e, ast.Call) and up(e.func) == "sph_harm_y" and len(e.args) == 4 and not e.keywords:
            n, m = self.zexpr(e.args[0]), self.zexpr(e.args[1])
            a, b = self.expr(e.args[2]), self.expr(e.args[3])
            self.oracle_calls.append(up(e))
            return f"(sphy_re {n}%Z {m}%Z {a} {b})", f"(sphy_im {n}%Z {m}%Z {a} {b})"
        if isinstance(e, ast.Call) and up(e.func) == "np.exp" and len(e.args) == 1 and not e.keywords:
            # exp(x * 1j) with x real
            a = e.args[0]
            require(isinstance(a, ast.BinOp) and isinstance(a.op, ast.Mult) and isinstance(a.right, ast.Constant)
                    and a.right.value == 1j and not self.is_cplx(a.left), f"complex exponential {up(e)}")
            x = self.expr(a.left)
            return f"(cos {x})", f"(sin {x})"
        if isinstance(e, ast.BinOp) and isinstance(e.op, ast.Mult):
            lc, rc = self.is_cplx(e.left), self.is_cplx(e.right)
            if lc and rc:
                (a, b), (c, d) = self.cexpr(e.left), self.cexpr(e.right)
                return f"({a} * {c} - {b} * {d})", f"({a} * {d} + {b} * {c})"
            if lc:
                (a, b), s = self.cexpr(e.left), self.expr(e.right)
                return f"({a} * {s})", f"({b} * {s})"
            (a, b), s = self.cexpr(e.right), self.expr(e.left)
            return f"({s} * {a})", f"({s} * {b})"
        raise Unsupported(f"complex expression {up(e)[:60]}")


def strip_doc(body):
    if body and isinstance(body[0], ast.Expr) and isinstance(body[0].value, ast.Constant) and isinstance(body[0].value.value, str):
        return body[1:]
    return body


def expect(stmt, text, what):
    require(up(stmt) == text, f"{what}: expected `{text}`, found `{up(stmt)[:90]}`")


def simple_fn(fn: ast.FunctionDef, cname: str, kind: str, outer_zfuncs=None) -> str:
    """def f(a, b): return <expr>   ->  Definition cname (v_a v_b : R|Z) : R|Z := expr."""
    a = fn.args
    require(not (a.vararg or a.kwarg or a.kwonlyargs or a.defaults or fn.decorator_list), f"signature of {fn.name}")
    body = strip_doc(fn.body)
    require(len(body) == 1 and isinstance(body[0], ast.Return) and body[0].value is not None, f"{fn.name} is not a single return")
    names = [x.arg for x in a.args]
    if kind == "R":
        tr = Tr8(reals=names)
        term = tr.expr(body[0].value)
    else:
        tr = Tr8(ints=names)
        v = body[0].value
        if isinstance(v, ast.IfExp):
            term = f"(if {tr.zbool(v.test)} then {tr.zexpr(v.body)} else {tr.zexpr(v.orelse)})%Z"
        else:
            term = f"({tr.zexpr(v)})%Z"
    ps = " ".join("v_" + n for n in names)
    return f"Definition {cname} ({ps} : {kind}) : {kind} :=\n  {term}."


# ====================================================================== statement executor (CPS over `if`)
class Exec:
    """Straight-line symbolic execution with `if` handled by duplicating the continuation.
    Hooks: assign_sub(target, value_src_node, st) -> let-text or None;  leaf(st) -> result term."""

    def __init__(self, tr: Tr8):
        self.tr = tr

    def leaf(self, st) -> str:  # pragma: no cover
        raise NotImplementedError

    def write(self, tgt: ast.Subscript, rhs: ast.expr, st, aug=None) -> str:  # pragma: no cover
        raise Unsupported(f"assignment target {up(tgt)[:60]}")

    def counter(self, name: str, st) -> bool:
        return False

    def extra(self, s, st):
        return None

    def run(self, stmts, st) -> str:
        tr = self.tr
        if not stmts:
            return self.leaf(st)
        s, rest = stmts[0], list(stmts[1:])
        if isinstance(s, ast.Expr) and isinstance(s.value, ast.Constant) and isinstance(s.value.value, str):
            return self.run(rest, st)
        if isinstance(s, ast.With):
            require(all(up(i.context_expr).startswith("np.errstate(") and i.optional_vars is None for i in s.items), f"with {up(s)[:40]}")
            return self.run(list(s.body) + rest, st)
        x = self.extra(s, st)
        if x is not None:
            return x + self.run(rest, st)
        if isinstance(s, ast.If):
            c = tr.cond(s.test)
            saved = (set(tr.reals), dict(tr.cplx))
            a = self.run(list(s.body) + rest, copy.deepcopy(st))
            tr.reals, tr.cplx = set(saved[0]), dict(saved[1])
            b = self.run(list(s.orelse) + rest, copy.deepcopy(st))
            tr.reals, tr.cplx = saved
            return f"(if {c}\n then {a}\n else {b})"
        if isinstance(s, ast.Assign):
            require(len(s.targets) == 1, "multiple assignment")
            t = s.targets[0]
            if isinstance(t, ast.Name):
                require(t.id not in tr.ints and t.id not in tr.vectors, f"assignment to {t.id}")
                if tr.is_cplx(s.value):
                    re_, im_ = tr.cexpr(s.value)
                    tr.cplx[t.id] = (f"v_{t.id}_re", f"v_{t.id}_im")
                    tr.reals.discard(t.id)
                    return f"let v_{t.id}_re := {re_} in\nlet v_{t.id}_im := {im_} in\n" + self.run(rest, st)
                # a bare subscript on the right would be a NumPy view (aliasing): not in the subset
                require(not isinstance(s.value, (ast.Subscript, ast.Name)), f"view/alias assignment {up(s)[:60]}")
                v = tr.expr(s.value)
                tr.reals.add(t.id)
                tr.cplx.pop(t.id, None)
                return f"let v_{t.id} := {v} in\n" + self.run(rest, st)
            if isinstance(t, ast.Subscript):
                return self.write(t, s.value, st) + self.run(rest, st)
            raise Unsupported(f"assignment {up(s)[:60]}")
        if isinstance(s, ast.AugAssign):
            if isinstance(s.target, ast.Name):
                require(isinstance(s.op, ast.Add) and up(s.value) == "1" and self.counter(s.target.id, st), f"augmented assignment {up(s)[:60]}")
                return self.run(rest, st)
            if isinstance(s.target, ast.Subscript):
                op = {ast.Add: "+", ast.Sub: "-", ast.Mult: "*", ast.Div: "/"}.get(type(s.op))
                require(op is not None, f"augmented operator {up(s)[:60]}")
                return self.write(s.target, s.value, st, aug=op) + self.run(rest, st)
        raise Unsupported(f"statement {type(s).__name__}: {up(s)[:70]}")

    def masked(self, tgt: ast.Subscript, rhs, aug) -> str | None:
        """x[<real comparison>] = value   for a real local x"""
        tr = self.tr
        if isinstance(tgt.value, ast.Name) and tgt.value.id in tr.reals and isinstance(tgt.slice, ast.Compare) and aug is None:
            n = tgt.value.id
            return f"let v_{n} := (if {tr.rcond(tgt.slice)} then {tr.expr(rhs)} else v_{n}) in\n"
        return None


def sub_index(t: ast.Subscript):
    return list(t.slice.elts) if isinstance(t.slice, ast.Tuple) else [t.slice]


def is_full(s) -> bool:
    return isinstance(s, ast.Slice) and s.lower is None and s.upper is None and s.step is None


# ====================================================================== generate_real_spherical_harmonics
class SphExec(Exec):
    def counter(self, name, st):
        if name == "i_sph":
            st["off"] += 1
            return True
        return False

    def write(self, tgt, rhs, st, aug=None):
        tr = self.tr
        idx = sub_index(tgt)
        name = tgt.value.id if isinstance(tgt.value, ast.Name) else None
        if name == tr.buf:
            require(len(idx) in (2, 3) and (len(idx) == 2 or is_full(idx[2])) and isinstance(idx[1], ast.Constant) and idx[1].value in (0, 1)
                    and aug is None, f"buffer write {up(tgt)}")
            return f"let b := upd b {tr.zexpr(idx[0])}%Z {idx[1].value} {tr.expr(rhs)} in\n"
        if name == "spherical_harm":
            require(len(idx) == 2 and up(idx[0]) == "i_sph" and is_full(idx[1]) and aug is None, f"row write {up(tgt)}")
            require(st["off"] == len(st["outs"]), "rows are not written consecutively (i_sph bookkeeping)")
            k = len(st["outs"])
            st["outs"].append(f"o{k}")
            return f"let o{k} := {tr.expr(rhs)} in\n"
        if name in tr.cells1:
            require(len(idx) == 1 and up(idx[0]) == "0" and aug is not None, f"cell write {up(tgt)}")
            return f"let v_{name} := (v_{name} {aug} {tr.expr(rhs)}) in\n"
        raise Unsupported(f"assignment target {up(tgt)[:60]}")

    def leaf(self, st):
        require(st["off"] == len(st["outs"]) and st["outs"], "i_sph does not advance by the number of rows written")
        return "(b, v_factorial, [" + "; ".join(st["outs"]) + "])"


def gen_sph(fn: ast.FunctionDef, src: str):
    require([a.arg for a in fn.args.args] == ["l_max", "theta", "phi"], "signature of generate_real_spherical_harmonics")
    body = strip_doc(fn.body)
    require(len(body) == 13, f"generate_real_spherical_harmonics has {len(body)} top-level statements, expected 13")
    out = []
    expect(body[0], "numb_pts = len(theta)", "point count")
    tr0 = Tr8(reals=["phi", "theta"])
    for st, nm in ((body[1], "sin_phi"), (body[2], "cos_phi")):
        require(isinstance(st, ast.Assign) and up(st.targets[0]) == nm, f"assignment of {nm}")
        out.append(f"Definition g_{nm} (v_phi : R) : R := {tr0.expr(st.value)}.")
    expect(body[3], "spherical_harm = np.zeros(((l_max + 1) ** 2, numb_pts), dtype=np.longdouble)", "output allocation")
    expect(body[4], "p_leg = np.zeros((l_max + 1, 2, numb_pts), dtype=np.longdouble)", "buffer allocation")
    require(isinstance(body[5], ast.Assign) and up(body[5].targets[0]) == "p_leg[0, :, :]", "initial condition of p_leg")
    out.append(f"Definition g_init_p0 : R := {Tr8().expr(body[5].value)}.")
    fnames = {}
    for st, nm in zip(body[6:9], ("a_k", "b_k", "fac_sph")):
        require(isinstance(st, ast.FunctionDef) and st.name == nm and [a.arg for a in st.args.args] == ["deg", "ord"], f"helper {nm}")
        out.append(simple_fn(st, "g_" + nm, "R"))
        fnames[nm] = "g_" + nm
    require(isinstance(body[9], ast.Assign) and up(body[9].targets[0]) == "spherical_harm[0, :]", "row 0")
    trh = Tr8()
    trh.rfuncs = dict(fnames)
    out.append(f"Definition g_y00 : R := {trh.expr(body[9].value)}.")
    expect(body[10], "i_sph = 1", "row counter")
    lo = body[11]
    require(isinstance(lo, ast.For) and not lo.orelse and up(lo.target) == "l_deg" and up(lo.iter) == "np.arange(1, l_max + 1, dtype=int)"
            and len(lo.body) == 1, "outer loop header")
    li = lo.body[0]
    require(isinstance(li, ast.For) and not li.orelse and up(li.target) == "m_ord" and up(li.iter) == "np.arange(0, l_deg + 1, dtype=int)",
            "inner loop header")
    expect(body[12], "return spherical_harm", "return")
    tr = Tr8(ints=["l_deg", "m_ord"], reals=["sin_phi", "cos_phi", "theta", "factorial"])
    tr.rfuncs = dict(fnames)
    tr.buf = "p_leg"
    tr.cells1 = {"factorial"}
    term = SphExec(tr).run(list(li.body), {"off": 0, "outs": []})
    out.append("Definition g_step (v_l_deg v_m_ord : Z) (v_sin_phi v_cos_phi v_theta : R) (b : buf) (v_factorial : R)\n"
               "  : buf * R * list R :=\n" + term + ".")
    return out


# ====================================================================== derivative routine
class DerExec(Exec):
    def counter(self, name, st):
        if name == "i_output":
            st["adv"] += 1
            return True
        return False

    def extra(self, s, st):
        tr = self.tr
        if isinstance(s, ast.Assign) and up(s.targets[0]) == "sph_harm_degree":
            v = s.value
            require(isinstance(v, ast.Subscript) and up(v.value) == "sph_harm_vals", "sph_harm_degree source")
            idx = sub_index(v)
            require(len(idx) == 2 and is_full(idx[1]) and isinstance(idx[0], ast.Slice) and idx[0].step is None and idx[0].lower is not None
                    and idx[0].upper is not None, "sph_harm_degree slice")
            lo, hi = tr.zexpr(idx[0].lower), tr.zexpr(idx[0].upper)
            tr.slices["sph_harm_degree"] = ("vals", lo)
            st["slice"] = (up(idx[0].lower), up(idx[0].upper))
            return ""
        if isinstance(s, ast.FunctionDef) and s.name == "index_m":
            st["defs"].append(simple_fn(s, "g_index_m", "Z"))
            tr.zfuncs["index_m"] = "g_index_m"
            return ""
        return None

    def write(self, tgt, rhs, st, aug=None):
        tr = self.tr
        m = self.masked(tgt, rhs, aug)
        if m is not None:
            return m
        idx = sub_index(tgt)
        require(up(tgt.value) == "output" and len(idx) == 3 and isinstance(idx[0], ast.Constant) and idx[0].value in (0, 1)
                and up(idx[1]) == "i_output" and is_full(idx[2]), f"assignment target {up(tgt)[:60]}")
        require(st["adv"] == 0, "write after the row counter advanced")
        k = idx[0].value
        if aug is None:
            st["set"].add(k)
            return f"let v_out{k} := {tr.expr(rhs)} in\n"
        require(k in st["set"], f"output[{k}] updated before it is assigned")
        return f"let v_out{k} := (v_out{k} {aug} {tr.expr(rhs)}) in\n"

    def leaf(self, st):
        require(st["adv"] == 1 and st["set"] == {0, 1}, "each iteration must write both rows and advance i_output once")
        return "(v_out0, v_out1)"


def gen_der(fn: ast.FunctionDef, src: str):
    require([a.arg for a in fn.args.args] == ["l_max", "theta", "phi"], "signature of the derivative routine")
    body = strip_doc(fn.body)
    require(len(body) >= 8, f"derivative routine has {len(body)} top-level statements, expected at least 8")
    expect(body[0], "num_pts = len(theta)", "point count")
    expect(body[1], "output = np.zeros((2, int((l_max + 1) ** 2), num_pts), dtype=np.longdouble)", "output allocation")
    require(isinstance(body[2], ast.Assign) and up(body[2].targets[0]) == "complex_expon", "complex_expon")
    # optional point-wise real quantities computed once before the loops (translated as lets in front of every iteration)
    prelude = list(body[3:-5])
    for st in prelude:
        require(isinstance(st, ast.Assign) and len(st.targets) == 1 and isinstance(st.targets[0], ast.Name)
                and st.targets[0].id not in ("l_list", "sph_harm_vals", "i_output", "output", "theta", "phi", "complex_expon"),
                f"unexpected statement before the loops: {up(st)[:60]}")
    body = body[:3] + body[-5:]
    expect(body[3], "l_list = np.arange(l_max + 1)", "degree list")
    expect(body[4], "sph_harm_vals = generate_real_spherical_harmonics(l_max, theta, phi)", "harmonics used by the derivative")
    expect(body[5], "i_output = 0", "row counter")
    lo = body[6]
    require(isinstance(lo, ast.For) and not lo.orelse and up(lo.target) == "l_val" and up(lo.iter) == "l_list" and len(lo.body) == 2, "outer loop header")
    expect(lo.body[0], "m_values = [0] + [m for x in range(1, l_val + 1) for m in (x, -x)]", "order of m")
    li = lo.body[1]
    require(isinstance(li, ast.For) and not li.orelse and up(li.target) == "m" and up(li.iter) == "m_values", "inner loop header")
    expect(body[7], "return output", "return")
    tr = Tr8(ints=["l_val", "m"], reals=["theta", "phi"])
    ex = DerExec(tr)
    require(tr.is_cplx(body[2].value), "complex_expon is not complex")
    ce_re, ce_im = tr.cexpr(body[2].value)
    tr.cplx["complex_expon"] = ("v_complex_expon_re", "v_complex_expon_im")
    pre = f"let v_complex_expon_re := {ce_re} in\nlet v_complex_expon_im := {ce_im} in\n"
    for st in prelude:
        nm = st.targets[0].id
        pre += f"let v_{nm} := {tr.expr(st.value)} in\n"
        tr.reals.add(nm)
    st = {"adv": 0, "set": set(), "defs": []}
    term = ex.run(list(li.body), st)
    # the nested function definition is collected in whichever branch copy ran first; take it from a fresh pass
    defs = []
    for s in li.body:
        if isinstance(s, ast.FunctionDef):
            require(s.name == "index_m", f"nested function {s.name}")
            defs.append(simple_fn(s, "g_index_m", "Z"))
    require(len(defs) == 1, "index_m not found")
    require(tr.slices.get("sph_harm_degree") is not None, "sph_harm_degree not defined")
    sl = None
    for s in li.body:
        if isinstance(s, ast.Assign) and up(s.targets[0]) == "sph_harm_degree":
            sl = up(s.value)
    require(sl == "sph_harm_vals[l_val ** 2:(l_val + 1) ** 2, :]", f"rows of degree l: {sl}")
    out = defs + [
        "Definition g_dstep (sphy_re sphy_im : Z -> Z -> R -> R -> R) (v_l_val v_m : Z) (v_theta v_phi : R) (vals : list R) : R * R :=\n"
        + pre + term + "."]
    return out, sorted(set(tr.oracle_calls))


# ====================================================================== solid_harmonics
def gen_solid(fn: ast.FunctionDef, src: str):
    require([a.arg for a in fn.args.args] == ["l_max", "sph_pts"], "signature of solid_harmonics")
    body = strip_doc(fn.body)
    require(len(body) == 4, "solid_harmonics: expected 4 statements")
    expect(body[0], "r, theta, phi = sph_pts.T", "column order of sph_pts")
    expect(body[1], "spherical_harm = generate_real_spherical_harmonics(l_max, theta, phi)", "harmonics used by solid_harmonics")
    expect(body[2], "degrees = np.array(sum([[float(l_deg)] * (2 * l_deg + 1) for l_deg in np.arange(l_max + 1, dtype=int)], []), dtype=np.longdouble)",
           "degree of each row")
    require(isinstance(body[3], ast.Return), "return")
    tr = Tr8(reals=["r", "spherical_harm"])
    tr.subst = {"r ** degrees[:, None]": "(v_r ^ v_deg)", "degrees[:, None]": "(IZR (Z.of_nat v_deg))"}
    return [f"Definition g_solid_entry (v_deg : nat) (v_r v_spherical_harm : R) : R :=\n  {tr.expr(body[3].value)}."]


# ====================================================================== convert_cart_to_sph
class CartExec(Exec):
    def write(self, tgt, rhs, st, aug=None):
        m = self.masked(tgt, rhs, aug)
        require(m is not None, f"assignment target {up(tgt)[:60]}")
        return m

    def extra(self, s, st):
        tr = self.tr
        if isinstance(s, ast.If) and len(s.body) == 1 and isinstance(s.body[0], ast.Raise) and not s.orelse:
            st["guards"].append(up(s.test))
            return ""
        if isinstance(s, ast.Assign) and up(s) == "center = np.zeros(3, dtype=float) if center is None else np.asarray(center)":
            return ""
        if isinstance(s, ast.Assign) and up(s.targets[0]) == "relat_pts":
            require(up(s.value) == "points - center", f"relative points: {up(s.value)}")
            tr.vectors["relat_pts"] = tuple(f"({p} - {c})" for p, c in zip(tr.vectors["points"], tr.vectors["center"]))
            return ""
        if isinstance(s, ast.Return):
            require(up(s.value) == "np.vstack([r, theta, phi]).T" and {"r", "theta", "phi"} <= tr.reals, f"return {up(s)[:60]}")
            st["ret"] = True
            return "(v_r, v_theta, v_phi)"
        return None

    def leaf(self, st):
        require(st.get("ret"), "no return")
        return ""


def gen_cart(fn: ast.FunctionDef, src: str):
    require([a.arg for a in fn.args.args] == ["points", "center"], "signature of convert_cart_to_sph")
    tr = Tr8()
    tr.vectors = {"points": ("v_px", "v_py", "v_pz"), "center": ("v_cx", "v_cy", "v_cz")}
    st = {"guards": []}
    term = CartExec(tr).run(strip_doc(fn.body), st)
    return ["Definition g_cart_to_sph (v_px v_py v_pz v_cx v_cy v_cz : R) : R * R * R :=\n" + term + "."], st["guards"]


# ====================================================================== convert_derivative_from_spherical_to_cartesian
class JacExec(Exec):
    def extra(self, s, st):
        tr = self.tr
        if isinstance(s, ast.Assign) and up(s.targets[0]) == "jacobian":
            v = s.value
            require(isinstance(v, ast.Call) and up(v.func) == "np.array" and len(v.args) == 1 and not v.keywords and isinstance(v.args[0], ast.List)
                    and len(v.args[0].elts) == 3 and all(isinstance(r, ast.List) and len(r.elts) == 3 for r in v.args[0].elts), "jacobian literal")
            txt = ""
            for i, row in enumerate(v.args[0].elts):
                for j, e in enumerate(row.elts):
                    txt += f"let j{i}{j} := {tr.expr(e)} in\n"
            st["jac"] = True
            return txt
        if isinstance(s, ast.Return):
            require(st.get("jac") and up(s.value) == "jacobian.dot(np.array([deriv_r, deriv_theta, deriv_phi]))", f"return {up(s)[:70]}")
            st["ret"] = True
            rows = [f"(j{i}0 * v_deriv_r + j{i}1 * v_deriv_theta + j{i}2 * v_deriv_phi)" for i in range(3)]
            return "(" + ", ".join(rows) + ")"
        return None

    def write(self, tgt, rhs, st, aug=None):
        idx = sub_index(tgt)
        require(up(tgt.value) == "jacobian" and st.get("jac") and len(idx) == 2 and is_full(idx[0]) and isinstance(idx[1], ast.Constant)
                and idx[1].value in (0, 1, 2) and aug is None, f"assignment target {up(tgt)[:60]}")
        v = self.tr.expr(rhs)
        return "".join(f"let j{i}{idx[1].value} := {v} in\n" for i in range(3))

    def leaf(self, st):
        require(st.get("ret"), "no return")
        return ""


def gen_jac(fn: ast.FunctionDef, src: str):
    names = [a.arg for a in fn.args.args]
    require(names == ["deriv_r", "deriv_theta", "deriv_phi", "r", "theta", "phi"], "signature of convert_derivative_from_spherical_to_cartesian")
    tr = Tr8(reals=names)
    term = JacExec(tr).run(strip_doc(fn.body), {})
    ps = " ".join("v_" + n for n in names)
    return [f"Definition g_sph_to_cart_deriv ({ps} : R) : R * R * R :=\n" + term + "."]


# ====================================================================== driver
HEADER = """(* generated from src/grid/utils.py on every run by tools/props/c08_translate.py; do not edit *)
From Coq Require Import Reals ZArith List Bool.
From P Require Import C08_model_base.
Import ListNotations.
Open Scope R_scope.
"""

UNITS = ["generate_real_spherical_harmonics", "generate_derivative_real_spherical_harmonics", "solid_harmonics",
         "convert_cart_to_sph", "convert_derivative_from_spherical_to_cartesian", "generate_real_spherical_harmonics_scipy"]


def translate(src: str):
    """-> (coq text, units, info).  Raises Unsupported when the source leaves the supported shape."""
    tree = ast.parse(src)
    fns = {n.name: n for n in tree.body if isinstance(n, ast.FunctionDef)}
    for u in UNITS:
        require(u in fns, f"function {u} not found in utils.py")
    units = []
    for u in UNITS:
        seg = ast.get_source_segment(src, fns[u])
        units.append({"unit": u, "file": "src/grid/utils.py", "lines": [fns[u].lineno, fns[u].end_lineno], "sha": src_sha(seg),
                      "translated": u != "generate_real_spherical_harmonics_scipy"})
    out = [HEADER]
    out += gen_sph(fns["generate_real_spherical_harmonics"], src)
    der, oracle_calls = gen_der(fns["generate_derivative_real_spherical_harmonics"], src)
    out += der
    out += gen_solid(fns["solid_harmonics"], src)
    cart, guards = gen_cart(fns["convert_cart_to_sph"], src)
    out += cart
    out += gen_jac(fns["convert_derivative_from_spherical_to_cartesian"], src)
    return "\n\n".join(out) + "\n", units, {"oracle_calls": oracle_calls, "cart_guards": guards}
