"""C10 — local grids hold exactly the points inside the cutoff sphere, for any grid type; selection by index.

gen:   hand model (coq/C10/C10_model.v).  The only generated file is C10_gen.v: the `config` record saying, for the
       eight code sites where the pinned source deviates from the property, whether the implementation under test
       shows the corrected behaviour.  Each flag is decided by running one directed witness history (the same
       witnesses as the `…_refuted` theorems) on the implementation and judging it with a brute-force oracle.
prove: coq/C10/*.v — `query_refines_spec` (all histories) for the corrected configuration, `…_partial` for any
       configuration, `…_refuted` for each pinned flag, selection theorems.
tie:   random operation histories (SetPoints / SetWeights / Query / GetItem / Enter = continue on the selected grid; plus,
       judged by the oracle only, a follow-up query ON a returned LocalGrid) over Grid (1-D array, N×1, N×2, N×3),
       OneDGrid, AtomGrid, MolGrid, UniformGrid / Tensor1DGrids and PeriodicGrid (selection only), integer
       coordinates; the list of observations is compared inside Coq (vm_compute) with `run ball_ref impl_cfg …`.
       The oracle hypothesis `oracle_ok` is validated against scipy's cKDTree; `slice_indices` against Python's
       slice.indices exhaustively on a small box.
float: tiny / equal / permuted / same-object reassignments of points and weights after the tree exists, judged by an
       exact-rational oracle on the implementation (radius between a point's old and new distance).
forms: grids whose arrays are not float64 (int / float32 storage at construction or by reassignment), fractional centres,
       centre and radius in every accepted argument form, radii a hair beyond / short of a point's distance; the returned
       LocalGrid.center must be the centre asked for.  Same exact-rational oracle.
search: an independent brute-force oracle judges every in-scope step of every history on the implementation; a
       property failure that the (agreeing) model does not attribute to a flagged, directed-witness defect is a
       violation with the concrete history as replay.
"""
from __future__ import annotations

import ast
import json
import math
import struct
from fractions import Fraction

import numpy as np

from vlib.core import SRC, Ctx, src_sha

INF = float("inf")
ERR = {"IndexError": "EIndex", "AttributeError": "EAttr", "ValueError": "EValue", "TypeError": "EType"}
CLS = {"Grid": "CGrid", "OneDGrid": "COneD", "AtomGrid": "CAtom", "MolGrid": "CMol", "UniformGrid": "CRect",
       "Tensor1DGrids": "CRect", "PeriodicGrid": "CPeriodic"}
SELECTABLE = ("Grid", "OneDGrid", "PeriodicGrid")
FLAGS = ["empty_ok", "tree_reset", "atom_tree_init", "local_public", "npint_grid", "npint_oned", "npint_periodic",
         "periodic_empty_ok"]


class Unencodable(Exception):
    pass


# ---------------------------------------------------------------------------------------------- encoding helpers
def wbits(x) -> int:
    """Injective integer label of a float weight (IEEE-754 bit pattern); weights are opaque to the model."""
    return struct.unpack("<q", struct.pack("<d", float(x)))[0]


def wfloat(b: int) -> float:
    return struct.unpack("<d", struct.pack("<q", b))[0]


def as_int(x) -> int:
    xf = float(x)
    if not math.isfinite(xf) or not xf.is_integer():
        raise Unencodable(f"non-integer coordinate {x!r}")
    return int(xf)


def rows_of(arr) -> list[list[int]]:
    a = np.asarray(arr)
    if a.ndim == 1:
        return [[as_int(v)] for v in a]
    if a.ndim == 2:
        return [[as_int(v) for v in r] for r in a]
    raise Unencodable(f"points array of ndim {a.ndim}")


def zc(n: int) -> str:
    return f"({n})" if n < 0 else str(n)


def pt(p) -> str:
    return "[" + "; ".join(zc(v) for v in p) + "]"


def pts(ps) -> str:
    return "[" + "; ".join(pt(p) for p in ps) + "]"


def zl(ws) -> str:
    return "[" + "; ".join(zc(v) for v in ws) + "]"


def optz(v) -> str:
    return "None" if v is None else f"(Some {zc(v)})"


def bl(b) -> str:
    return "true" if b else "false"


def coq_centre(c) -> str:
    return f"(CScalar {zc(c['scalar'])})" if "scalar" in c else f"(CVec {pt(c['vec'])})"


def coq_extra(x) -> str:
    if x is None:
        return "XNone"
    if x[0] == "domain":
        return f"(XDomain {zc(x[1])} {zc(x[2])})"
    return f"(XLattice {pts(x[1])})"


def coq_index(ix) -> str:
    if "int" in ix:
        return f"(IInt {zc(ix['int'])})"
    if "npint" in ix:
        return f"(INpInt {zc(ix['npint'])})"
    if "slice" in ix:
        a, b, s = ix["slice"]
        return f"(ISlice {optz(a)} {optz(b)} {optz(s)})"
    if "array" in ix:
        return f"(IArr {zl(ix['array'])})"
    return "(IMask [" + "; ".join(bl(b) for b in ix["mask"]) + "])"


def coq_op(o) -> str:
    if o["op"] == "setpoints":
        return f"(SetPoints {bl(o['flat'])} {pts(o['value'])})"
    if o["op"] == "setweights":
        return f"(SetWeights {zl([wbits(v) for v in o['value']])})"
    if o["op"] == "query":
        r = o["radius"]
        rr = {"inf": "RInf", "neg": "RNeg", "nan": "RNan"}[r] if isinstance(r, str) else f"(RFin {zc(r['k'])})"
        return f"(Query {coq_centre(o['centre'])} {rr})"
    if o["op"] == "enter":
        return f"(Enter {coq_index(o['index'])})"
    return f"(GetItem {coq_index(o['index'])})"


def coq_obs(ob) -> str:
    if ob[0] == "err":
        return f"(OErr {ob[1]})"
    if ob[0] == "done":
        return "ODone"
    if ob[0] == "local":
        tr = "; ".join(f"({i}%nat, {pt(p)}, {zc(w)})" for i, p, w in ob[2])
        return f"(OLocal {coq_centre(ob[1])} [{tr}])"
    if ob[0] == "sel":
        return f"(OSel {ob[1]} {pts(ob[2])} {zl(ob[3])} {coq_extra(ob[4])})"
    raise Unencodable(str(ob))


# ---------------------------------------------------------------------------------------------- implementation side
def build_grid(d):
    from grid.atomgrid import AtomGrid
    from grid.basegrid import Grid, OneDGrid
    from grid.cubic import Tensor1DGrids, UniformGrid
    from grid.molgrid import MolGrid
    from grid.periodicgrid import PeriodicGrid

    f = lambda x: np.array(x, dtype=float)  # noqa: E731
    k = d["kind"]
    # optional storage form of user-supplied arrays: coordinates divided by "div", cast to "pdtype" / "wdtype"
    cast = lambda a, key: (a / d.get("div", 1) if key == "pdtype" else a).astype(d.get(key, "float64"))  # noqa: E731
    if k == "Grid":
        p = f([r[0] for r in d["points"]]) if d["flat"] else f(d["points"])
        return Grid(cast(p, "pdtype"), cast(f(d["weights"]), "wdtype"))
    if k == "OneDGrid":
        dom = None if d["domain"] is None else tuple(d["domain"])
        return OneDGrid(cast(f([r[0] for r in d["points"]]), "pdtype"), cast(f(d["weights"]), "wdtype"), dom)
    if k == "AtomGrid":
        rg = OneDGrid(f(d["radii"]), np.ones(len(d["radii"])), (0, np.inf))
        return AtomGrid(rg, degrees=[d.get("degree", 3)], center=None if d["center"] is None else f(d["center"]))
    if k == "MolGrid":
        ats = [build_grid({"kind": "AtomGrid", **a}) for a in d["atoms"]]
        return MolGrid(np.ones(len(ats), dtype=int), ats, f(d["aim"]))
    if k == "UniformGrid":
        return UniformGrid(f(d["origin"]), f(d["axes"]), np.array(d["shape"], dtype=int), weight=d["weight"])
    if k == "Tensor1DGrids":
        one = [OneDGrid(f(p), f(w)) for p, w in zip(d["axes_points"], d["axes_weights"])]
        return Tensor1DGrids(*one)
    if k == "PeriodicGrid":
        rv = None if d["realvecs"] is None else f(d["realvecs"])
        return PeriodicGrid(f(d["points"]), f(d["weights"]), rv)
    raise ValueError(k)


def py_index(ix):
    if "int" in ix:
        return ix["int"]
    if "npint" in ix:
        return getattr(np, ix.get("dtype", "int64"))(ix["npint"])
    if "slice" in ix:
        return slice(*ix["slice"])
    if "array" in ix:
        return np.array(ix["array"], dtype=np.int64)
    return np.array(ix["mask"], dtype=bool)


def canon_exc(e) -> tuple:
    n = type(e).__name__
    return ("err", ERR[n]) if n in ERR else ("other", f"exception {n}: {str(e)[:80]}")


def observe_local(parent, lg, flat) -> tuple:
    from grid.basegrid import LocalGrid

    if not isinstance(lg, LocalGrid):
        return ("other", f"result type {type(lg).__name__}")
    try:
        P, W, I, C = np.asarray(lg.points), np.asarray(lg.weights), np.asarray(lg.indices), np.asarray(lg.center)
        m = len(W)
        if W.ndim != 1 or I.ndim != 1 or len(I) != m or len(P) != m or P.ndim != (1 if flat else 2):
            return ("other", f"shapes points{P.shape} weights{W.shape} indices{I.shape}")
        if m and I.dtype.kind not in "iu":
            return ("other", f"indices dtype {I.dtype}")
        c = {"scalar": as_int(C)} if C.ndim == 0 else {"vec": [as_int(v) for v in C]}
        rows = rows_of(P)
        tr = sorted((int(I[j]), rows[j], wbits(W[j])) for j in range(m))
        return ("local", c, tr)
    except Unencodable as e:
        return ("other", str(e))


def observe_sel(parent, child) -> tuple:
    name = type(child).__name__
    if type(child) is not type(parent) or name not in SELECTABLE:
        return ("other", f"selection has type {name}")
    try:
        P, W = np.asarray(child.points), np.asarray(child.weights)
        if W.ndim != 1 or len(P) != len(W) or P.ndim != np.asarray(parent.points).ndim:
            return ("other", f"shapes points{P.shape} weights{W.shape}")
        if name == "OneDGrid":
            dom = child.domain
            x = None if dom is None else ("domain", as_int(dom[0]), as_int(dom[1]))
        elif name == "PeriodicGrid":
            x = ("lattice", rows_of(child.realvecs))
        else:
            x = None
        return ("sel", CLS[name], rows_of(P), [wbits(v) for v in W], x)
    except Unencodable as e:
        return ("other", str(e))


def apply_op(g, o, flat) -> tuple:
    """Run one operation on the implementation; returns (canonical observation, returned grid object or None)."""
    f = lambda x: np.array(x, dtype=float)  # noqa: E731
    try:
        if o["op"] == "setpoints":
            v = f([r[0] for r in o["value"]]) if o["flat"] else f(o["value"])
            g.points = v
            return ("done",), None
        if o["op"] == "setweights":
            g.weights = f(o["value"])
            return ("done",), None
        if o["op"] == "query":
            c = o["centre"]
            cen = float(c["scalar"]) if "scalar" in c else f(c["vec"])
            r = o["radius"]
            rad = {"inf": np.inf, "neg": -1.5, "nan": float("nan")}[r] if isinstance(r, str) else r["r"]
            lg = g.get_localgrid(cen, rad)
            return observe_local(g, lg, flat), lg
        child = g[py_index(o["index"])]
        return observe_sel(g, child), child
    except Exception as e:  # noqa: BLE001 - the exception class IS the observation
        return canon_exc(e), None


# ---------------------------------------------------------------------------------------------- brute-force oracle
def dist2(p, c):
    return sum((a - b) * (a - b) for a, b in zip(p, c))


def py_select(n, ix):
    """Rows selected by Python/numpy semantics (None: invalid index)."""
    def res(i):
        return i if 0 <= i < n else (i + n if -n <= i < 0 else None)

    if "int" in ix or "npint" in ix:
        j = res(ix.get("int", ix.get("npint")))
        return None if j is None else [j]
    if "slice" in ix:
        a, b, s = ix["slice"]
        return None if s == 0 else list(range(n))[slice(a, b, s)]
    if "array" in ix:
        js = [res(i) for i in ix["array"]]
        return None if None in js else js
    m = ix["mask"]
    return None if m and len(m) != n else [j for j, b in enumerate(m) if b]  # numpy accepts an empty mask


def judge(g, o, flat, ob, extra):
    """Property verdict for one step on the implementation: ('skip', why) | ('ok',) | ('fail', expected)."""
    try:
        pub, W = rows_of(g.points), [wbits(v) for v in np.asarray(g.weights)]
    except Unencodable:
        return ("skip", "non-integer state")
    n = len(W)
    if n == 0:
        return ("skip", "empty grid")
    if o["op"] == "query":
        c, r = o["centre"], o["radius"]
        if ("scalar" in c) != flat or ("vec" in c and len(c["vec"]) != len(pub[0])):
            return ("skip", "centre shape")
        if r in ("neg", "nan"):
            return ("skip", "radius")
        cv = [c["scalar"]] if "scalar" in c else c["vec"]
        exp = [(i, pub[i], W[i]) for i in range(n) if r == "inf" or dist2(pub[i], cv) <= r["k"]]
        want = ("local", c, exp)
        return ("ok",) if ob == want else ("fail", want)
    if o["op"] in ("getitem", "enter"):
        l = py_select(n, o["index"])
        if l is None:
            return ("skip", "invalid index")
        kind = type(g).__name__
        if kind not in SELECTABLE:
            return ("skip", "class without selection")
        # a OneDGrid with a domain / a PeriodicGrid with lattice vectors cannot have zero points (constructor precondition);
        # a PeriodicGrid WITHOUT lattice vectors is documented to behave like the plain Grid, so it is judged
        if not l and ((kind == "PeriodicGrid" and extra[1]) or (kind == "OneDGrid" and extra is not None)):
            return ("skip", "empty selection on a class that cannot be empty")
        if kind == "OneDGrid" and extra is not None and any(not extra[1] <= pub[i][0] <= extra[2] for i in l):
            return ("skip", "points outside the domain")
        want = ("sel", CLS[kind], [pub[i] for i in l], [W[i] for i in l], extra)
        return ("ok",) if ob == want else ("fail", want)
    return ("skip", "setter")


# ---------------------------------------------------------------------------------------------- histories
class History:
    def __init__(self, desc, ops):
        self.desc, self.ops = desc, ops
        self.obs, self.verdicts, self.why = [], [], []
        self.sub = {}   # step -> observation of the follow-up query ON the returned local grid (judged by the oracle only)
        self.unenc = None

    def key(self, upto=None):
        ops = self.ops if upto is None else self.ops[: upto + 1]
        return json.dumps({"grid": self.desc, "ops": ops}, separators=(",", ":"), sort_keys=True)

    def run(self):
        g = build_grid(self.desc)
        kind = type(g).__name__
        self.kind = kind
        P0 = np.asarray(g.points)
        self.flat = P0.ndim == 1
        self.pub0 = rows_of(P0)
        self.dim = len(self.pub0[0])
        self.w0 = [wbits(v) for v in np.asarray(g.weights)]
        self.c0 = [as_int(v) for v in g.center] if kind == "AtomGrid" else []
        if kind == "OneDGrid":
            self.extra = None if g.domain is None else ("domain", as_int(g.domain[0]), as_int(g.domain[1]))
        elif kind == "PeriodicGrid":
            self.extra = ("lattice", rows_of(g.realvecs))
        else:
            self.extra = None
        built = stale = False
        for o in self.ops:
            ob, obj = apply_op(g, o, self.flat)
            v = judge(g, o, self.flat, ob, self.extra)
            why = None
            if o["op"] == "query" and "sub" in o and v[0] == "ok" and ob[0] == "local" and ob[2]:
                # a LocalGrid is a grid: a query on it must answer for ITS points and weights, whatever its parent did before
                so = {"op": "query", "centre": o["sub"]["centre"], "radius": o["sub"]["radius"]}
                ob2, _ = apply_op(obj, so, self.flat)
                v2 = judge(obj, so, self.flat, ob2, None)
                if v2[0] == "fail":
                    self.sub[len(self.obs)] = ob2
                    v = v2
            if v[0] == "fail":  # which flagged defect could explain it (checked against the flags later)
                if o["op"] == "query":
                    if kind == "AtomGrid":
                        why = "atom_tree_init" if o["radius"] != "inf" and ob == ("err", "EAttr") else "local_public"
                    elif not v[1][2] and ob == ("err", "EIndex"):
                        why = "empty_ok"
                    elif stale and o["radius"] != "inf":
                        why = "tree_reset"
                elif kind == "PeriodicGrid" and not v[1][2] and ob == ("err", "EValue"):
                    why = "periodic_empty_ok"
                elif "npint" in o["index"]:
                    why = {"Grid": "npint_grid", "OneDGrid": "npint_oned", "PeriodicGrid": "npint_periodic"}.get(kind)
            if o["op"] == "query" and v[0] != "skip" and o["radius"] != "inf" and kind != "AtomGrid":
                built = True
            if o["op"] == "setpoints" and ob == ("done",) and built:
                stale = True
            if o["op"] == "enter" and ob[0] == "sel" and ob[2]:
                g = obj            # the history continues on the selected grid, which starts without a tree
                built = stale = False
            self.obs.append(ob)
            self.verdicts.append(v)
            self.why.append(why)
        return self

    def coq_case(self, upto=None):
        ops = self.ops if upto is None else self.ops[: upto + 1]
        obs = self.obs if upto is None else self.obs[: upto + 1]
        return (f"check impl_cfg {CLS[self.kind]} {bl(self.flat)} {self.dim}%nat {pts(self.pub0)} {zl(self.w0)} "
                f"{pt(self.c0)} {coq_extra(self.extra)} [{'; '.join(coq_op(o) for o in ops)}] "
                f"[{'; '.join(coq_obs(ob) for ob in obs)}]")

    def seen(self, j):
        """What was observed at step j, for reports (the follow-up query on the local grid if that is what failed)."""
        return ("on the returned local grid, get_localgrid(%s, %s): " % (self.ops[j]["sub"]["centre"], self.ops[j]["sub"]["radius"])
                + short(self.sub[j])) if j in self.sub else short(self.obs[j])

    def script(self, upto=None):
        return {"grid": self.desc, "ops": self.ops if upto is None else self.ops[: upto + 1]}


def radius_of(k: int) -> dict:
    r = math.sqrt(k + 0.5)
    assert k < Fraction(r) ** 2 < k + 1, (k, r)  # exact: floor(r^2) = k and r^2 is not an integer (no boundary tie)
    return {"k": k, "r": r}


def gen_desc(rng, kind):
    ri = rng.randint
    if kind == "Grid":
        flat = rng.random() < 0.25
        d = 1 if flat else ri(1, 3)
        n = ri(1, 7)
        return {"kind": "Grid", "flat": flat, "points": [[ri(-4, 4) for _ in range(d)] for _ in range(n)],
                "weights": [ri(-9, 9) for _ in range(n)]}
    if kind == "OneDGrid":
        n = ri(1, 7)
        p = [[ri(-5, 5)] for _ in range(n)]
        lo, hi = min(x[0] for x in p), max(x[0] for x in p)
        dom = None if rng.random() < 0.4 else [lo - ri(0, 2), hi + ri(0, 2)]
        return {"kind": "OneDGrid", "points": p, "weights": [ri(-9, 9) for _ in range(n)], "domain": dom}
    if kind == "AtomGrid":
        radii = sorted(rng.sample(range(0 if rng.random() < 0.15 else 1, 5), ri(1, 2)))
        return {"kind": "AtomGrid", "radii": radii, "center": None if rng.random() < 0.2 else [ri(-3, 3) for _ in range(3)]}
    if kind == "MolGrid":
        atoms = [{"radii": sorted(rng.sample(range(1, 4), ri(1, 2))), "center": [ri(-3, 3) for _ in range(3)]}
                 for _ in range(ri(1, 2))]
        n = sum(6 * len(a["radii"]) for a in atoms)
        return {"kind": "MolGrid", "atoms": atoms, "aim": [ri(0, 3) if rng.random() < 0.5 else 1 for _ in range(n)]}
    if kind == "UniformGrid":
        d = ri(2, 3)
        while True:
            axes = [[(ri(1, 2) * rng.choice((1, -1)) if i == j else (ri(-1, 1) if rng.random() < 0.3 else 0))
                     for j in range(d)] for i in range(d)]
            if abs(round(np.linalg.det(np.array(axes, dtype=float)))) >= 1:
                break
        return {"kind": "UniformGrid", "origin": [ri(-2, 2) for _ in range(d)], "axes": axes,
                "shape": [ri(2, 3) for _ in range(d)], "weight": rng.choice(["Trapezoid", "Rectangle"])}
    if kind == "Tensor1DGrids":
        d = ri(2, 3)
        ap = [sorted(rng.sample(range(-3, 4), ri(2, 3))) for _ in range(d)]
        return {"kind": "Tensor1DGrids", "axes_points": ap, "axes_weights": [[ri(1, 4) for _ in a] for a in ap]}
    if kind == "PeriodicGrid":
        d, n = ri(1, 3), ri(1, 6)
        rv = None
        if rng.random() < 0.7:
            nv = ri(1, d)
            rv = [[(ri(6, 9) if i == j else 0) for j in range(d)] for i in range(nv)]
        return {"kind": "PeriodicGrid", "points": [[ri(-4, 4) for _ in range(d)] for _ in range(n)],
                "weights": [ri(-9, 9) for _ in range(n)], "realvecs": rv}
    raise ValueError(kind)


def gen_ops(rng, desc, pub, flat, maxlen):
    """Random history for a grid whose initial public points are `pub` (tracked through successful setters)."""
    ri = rng.randint
    kind = desc["kind"]
    n, d = len(pub), len(pub[0])
    cur = [list(p) for p in pub]
    selectable = kind in SELECTABLE
    periodic = kind == "PeriodicGrid"
    ops = []
    ctx_repeat = [0]

    def gen_index():
        m = rng.random()
        if m < 0.2:
            return {"int": ri(-n - 1, n)}
        if m < 0.38:
            return {"npint": ri(-n - 1, n), "dtype": rng.choice(["int64", "int32", "intp"])}
        if m < 0.62:
            b = lambda: None if rng.random() < 0.35 else ri(-n - 2, n + 2)  # noqa: E731
            st = None if rng.random() < 0.4 else rng.choice([-3, -2, -1, 1, 2, 3, 0] if rng.random() < 0.2 else [-3, -2, -1, 1, 2, 3])
            return {"slice": [b(), b(), st]}
        if m < 0.82:
            hi = n if rng.random() < 0.1 else n - 1
            return {"array": [ri(-n, hi) for _ in range(ri(0, n + 1))]}
        k = n + (rng.choice((-1, 1)) if rng.random() < 0.1 else 0)
        return {"mask": [rng.random() < 0.5 for _ in range(max(k, 0))]}

    for _ in range(ri(1, maxlen)):
        u = rng.random()
        if periodic:
            what = "getitem" if u < 0.7 else ("setpoints" if u < 0.85 else "setweights")
        elif selectable:
            what = "query" if u < 0.5 else ("getitem" if u < 0.72 else ("setpoints" if u < 0.9 else "setweights"))
        else:
            what = "query" if u < 0.68 else ("setpoints" if u < 0.88 else "setweights")
        if what == "query":
            m = rng.random()
            if m < 0.3:
                c = list(rng.choice(cur))
            elif m < 0.55:
                c = [x + ri(-1, 1) for x in rng.choice(cur)]
            elif m < 0.85:
                c = [ri(-5, 5) for _ in range(d)]
            else:
                c = [ri(40, 60) for _ in range(d)]
            centre = {"scalar": c[0]} if flat else {"vec": c}
            if rng.random() < 0.04:  # wrong shape
                centre = {"vec": c} if flat else ({"scalar": c[0]} if rng.random() < 0.5 else {"vec": c + [0]})
            ds = sorted({dist2(p, c) for p in cur})
            m = rng.random()
            if m < 0.08:
                rad = {"k": 0, "r": 0.0}
            elif m < 0.14:
                rad = {"k": 0, "r": 1e-9}
            elif m < 0.24 and any(math.isqrt(x) ** 2 == x for x in ds if x > 0):
                t = math.isqrt(rng.choice([x for x in ds if x > 0 and math.isqrt(x) ** 2 == x]))
                rad = {"k": t * t, "r": float(t)}        # exact tie: a point at distance exactly r (integers: exact in floats)
            elif m < 0.5:
                rad = radius_of(rng.choice(ds))          # just reaches one of the points
            elif m < 0.62:
                rad = radius_of(max(rng.choice(ds) - 1, 0))  # just misses it
            elif m < 0.78:
                rad = radius_of(ri(0, 40))
            elif m < 0.84:
                rad = {"k": 10**12, "r": 1e6 + 0.25}
            elif m < 0.96:
                rad = "inf"
            else:
                rad = rng.choice(["neg", "nan"])
            o = {"op": "query", "centre": centre, "radius": rad}
            prev = [q for q in ops if q["op"] == "query"]
            if prev and rng.random() < 0.2:
                # the very same (centre, radius) as an earlier query: the answer must reflect what was reassigned in between
                o = {"op": "query", "centre": dict(rng.choice(prev)["centre"]), "radius": rng.choice(prev)["radius"]}
                if rng.random() < 0.5:
                    q0 = rng.choice(prev)
                    o = {"op": "query", "centre": dict(q0["centre"]), "radius": q0["radius"]}
                ctx_repeat[0] += 1
            if rng.random() < 0.25:
                # follow-up query ON the returned local grid (it is a grid in its own right)
                c2 = list(rng.choice(cur)) if rng.random() < 0.6 else [x + ri(-1, 1) for x in c]
                d2 = sorted({dist2(p, c2) for p in cur})
                o["sub"] = {"centre": {"scalar": c2[0]} if flat else {"vec": c2},
                            "radius": rng.choice([radius_of(rng.choice(d2)), radius_of(ri(0, 30)), {"k": 0, "r": 0.0}, "inf"])}
            ops.append(o)
        elif what == "setpoints":
            m = rng.random()
            if m < 0.3:
                new = [list(p) for p in cur]
                rng.shuffle(new)
            elif m < 0.55:
                sh = [ri(-3, 3) for _ in range(d)]
                new = [[a + b for a, b in zip(p, sh)] for p in cur]
            else:
                new = [[ri(-4, 4) for _ in range(d)] for _ in range(n)]
            if kind == "OneDGrid" and desc["domain"] is not None and rng.random() < 0.8:
                lo, hi = desc["domain"]
                new = [[min(max(p[0], lo), hi)] for p in new]
            fl = flat
            m = rng.random()
            if m < 0.05:
                new = new + [new[0]]
            elif m < 0.08 and n > 1:
                new = new[:-1]
            elif m < 0.11 and not flat:
                new = [p + [0] for p in new]
            elif m < 0.13 and d == 1:
                fl = not flat
            ops.append({"op": "setpoints", "flat": fl, "value": new})
            if kind != "AtomGrid" and fl == flat and len(new) == n and len(new[0]) == d:
                cur = new
        elif what == "setweights":
            k = n + (rng.choice((-1, 1)) if rng.random() < 0.1 and n > 1 else 0)
            ops.append({"op": "setweights", "value": [ri(-9, 9) for _ in range(k)]})
        else:
            ix = gen_index()
            op = "getitem"
            if rng.random() < 0.45:
                # continue the history ON the selected grid (a non-empty selection the constructor accepts)
                for _ in range(6):
                    l = py_select(n, ix)
                    if l and not (kind == "OneDGrid" and desc["domain"] is not None
                                  and any(not desc["domain"][0] <= cur[i][0] <= desc["domain"][1] for i in l)):
                        op, cur, n = "enter", [cur[i] for i in l], len(l)
                        break
                    ix = gen_index()
            ops.append({"op": op, "index": ix})
    return ops


# ---------------------------------------------------------------------------------------------- directed witnesses
def witnesses():
    """flag -> (obligation, key, grid description, ops).  The last op is the judged one."""
    q = lambda c, r: {"op": "query", "centre": {"vec": c}, "radius": r}  # noqa: E731
    atom = {"kind": "AtomGrid", "radii": [1], "center": [5, 0, 0]}
    pts2 = [[0, 0, 0], [1, 0, 0]]
    np1 = {"op": "getitem", "index": {"npint": 1, "dtype": "int64"}}
    return {
        "empty_ok": ("empty_sphere_refuted", "Grid([[0,0,0],[1,0,0]],[1,2]).get_localgrid([10,10,10],sqrt(0.5))",
                     {"kind": "Grid", "flat": False, "points": pts2, "weights": [1, 2]}, [q([10, 10, 10], radius_of(0))]),
        "tree_reset": ("stale_tree_refuted",
                       "g=Grid([[0],[5]],[1,2]); g.get_localgrid([0],sqrt(0.5)); g.points=[[5],[0]]; g.get_localgrid([0],sqrt(0.5))",
                       {"kind": "Grid", "flat": False, "points": [[0], [5]], "weights": [1, 2]},
                       [q([0], radius_of(0)), {"op": "setpoints", "flat": False, "value": [[5], [0]]}, q([0], radius_of(0))]),
        "atom_tree_init": ("atomgrid_finite_refuted",
                           "AtomGrid(OneDGrid([1],[1],(0,inf)),degrees=[3],center=[5,0,0]).get_localgrid([5,0,0],sqrt(1.5))",
                           atom, [q([5, 0, 0], radius_of(1))]),
        "local_public": ("atomgrid_inf_refuted",
                         "AtomGrid(OneDGrid([1],[1],(0,inf)),degrees=[3],center=[5,0,0]).get_localgrid([5,0,0],inf)",
                         atom, [q([5, 0, 0], "inf")]),
        "npint_grid": ("getitem_npint_refuted", "Grid([[0,0,0],[1,0,0]],[1,2])[np.int64(1)]",
                       {"kind": "Grid", "flat": False, "points": pts2, "weights": [1, 2]}, [np1]),
        "npint_oned": ("getitem_npint_refuted", "OneDGrid([0,1,2],[1,2,3],(0,2))[np.int64(1)]",
                       {"kind": "OneDGrid", "points": [[0], [1], [2]], "weights": [1, 2, 3], "domain": [0, 2]}, [np1]),
        "npint_periodic": ("getitem_npint_refuted", "PeriodicGrid([[0,0,0],[1,0,0]],[1,2],10*eye(3))[np.int64(1)]",
                           {"kind": "PeriodicGrid", "points": pts2, "weights": [1, 2],
                            "realvecs": [[10, 0, 0], [0, 10, 0], [0, 0, 10]]}, [np1]),
        "periodic_empty_ok": ("periodic_empty_refuted", "PeriodicGrid([[0,0,0],[1,0,0]],[1,2])[0:0]",
                              {"kind": "PeriodicGrid", "points": pts2, "weights": [1, 2], "realvecs": None},
                              [{"op": "getitem", "index": {"slice": [0, 0, None]}}]),
    }


def short(ob):
    """Stable fingerprint of an observation for the known-findings file."""
    if ob[0] == "err":
        return {"EIndex": "IndexError", "EAttr": "AttributeError", "EValue": "ValueError", "EType": "TypeError"}[ob[1]]
    if ob[0] == "local":
        return "local:" + ";".join(f"{i}:{','.join(map(str, p))}@{wfloat(w):g}" for i, p, w in ob[2])
    if ob[0] == "sel":
        x = "" if ob[4] is None else "|" + ",".join(map(str, ob[4][1:]))
        return "sel:" + ";".join(",".join(map(str, p)) + f"@{wfloat(w):g}" for p, w in zip(ob[2], ob[3])) + x
    return str(ob)


# ---------------------------------------------------------------------------------------------- anchored units
def anchored_units():
    want = {
        "basegrid.py": ["Grid.__init__", "Grid.points", "Grid.weights", "Grid.__getitem__", "Grid.get_localgrid",
                        "LocalGrid.__init__", "OneDGrid.__init__", "OneDGrid.__getitem__"],
        "atomgrid.py": ["AtomGrid.__init__", "AtomGrid.points"],
        "molgrid.py": ["MolGrid.__init__"],
        "cubic.py": ["_HyperRectangleGrid.__init__"],
        "periodicgrid.py": ["PeriodicGrid.__getitem__"],
    }
    units = []
    for fn, names in want.items():
        src = (SRC / fn).read_text()
        tree = ast.parse(src)
        found = set()
        for c in tree.body:
            if isinstance(c, ast.ClassDef):
                for m in c.body:
                    if isinstance(m, ast.FunctionDef) and f"{c.name}.{m.name}" in names:
                        seg = ast.get_source_segment(src, m)
                        units.append({"unit": f"{c.name}.{m.name}", "file": f"src/grid/{fn}",
                                      "lines": [m.lineno, m.end_lineno], "sha": src_sha(seg)})
                        found.add(f"{c.name}.{m.name}")
        missing = set(names) - found
        if missing:
            raise ValueError(f"anchored code not found in {fn}: {sorted(missing)}")
    return units


# ---------------------------------------------------------------------------------------------- float perturbation histories
# Judged by an exact-rational oracle on the implementation only (the integer model does not represent them): after a
# finite-radius query has built the neighbour tree, points (weights) are REASSIGNED to a tiny perturbation / an equal copy /
# a permuted copy / the same array object edited in place before the reassignment, and a later query whose sphere boundary
# lies between a point's old and new distance must answer for the new values.
MARGIN = 2e-14  # every point must be off the sphere boundary by this margin in d^2, relative to max(d^2, r^2) (float round-off ~5e-16)


def fbits(row) -> tuple:
    return tuple(wbits(v) for v in np.atleast_1d(row))


def float_expected(g, centre, r):
    """Exact membership (Fractions) over the grid's current public points; None if some point is too close to the boundary."""
    P = np.asarray(g.points, dtype=float)
    W = np.asarray(g.weights, dtype=float)
    rows = P.reshape(len(W), -1)
    c = [Fraction(float(v)) for v in np.atleast_1d(centre)]
    r2 = Fraction(float(r)) ** 2
    out = []
    for i, row in enumerate(rows):
        d2 = sum((Fraction(float(x)) - y) ** 2 for x, y in zip(row, c))
        if d2 == 0:            # the point IS the centre: distance exactly 0 also in floats, inside for every radius >= 0
            out.append((i, fbits(row), wbits(W[i])))
            continue
        if abs(float(d2 - r2)) <= MARGIN * max(float(d2), float(r2)):
            return None
        if d2 <= r2:
            out.append((i, fbits(row), wbits(W[i])))
    return out


def centre_arg(st):
    """The centre object handed to get_localgrid, in the argument form the step asks for."""
    c, form = st["centre"], st.get("cform", "array64")
    if isinstance(c, float):
        return {"array64": c, "float": c, "np64": np.float64(c), "np32": np.float32(c), "int": int(c), "array0d": np.array(c)}[form]
    return {"array64": lambda: np.array(c, dtype=float), "list": lambda: list(c), "tuple": lambda: tuple(c),
            "array32": lambda: np.array(c, dtype=np.float32), "arrayint": lambda: np.array(c, dtype=int)}[form]()


def radius_arg(st):
    r, form = st["r"], st.get("rform", "float")
    return {"float": r, "np64": np.float64(r), "np32": np.float32(r), "int": int(r)}[form]


def float_observe(g, centre, r):
    try:
        lg = g.get_localgrid(centre, r)
        P, W, I = np.asarray(lg.points), np.asarray(lg.weights), np.asarray(lg.indices)
        if len(W) != len(P) or len(W) != len(I):
            return f"shapes points{P.shape} weights{W.shape} indices{I.shape}"
        want_c = [float(v) for v in np.atleast_1d(np.asarray(centre, dtype=float))]
        got_c = [float(v) for v in np.atleast_1d(np.asarray(lg.center, dtype=float))]
        if got_c != want_c or np.ndim(lg.center) != np.ndim(np.asarray(centre)):
            return f"LocalGrid.center={got_c}, requested centre {want_c}"
        return sorted((int(I[j]), fbits(P[j]), wbits(W[j])) for j in range(len(W)))
    except Exception as e:  # noqa: BLE001
        return f"{type(e).__name__}: {str(e)[:60]}"


def float_step(g, st, state):
    """Apply one step of a float history (pure function of the description, used by run and replay)."""
    if st["op"] == "query":
        return float_observe(g, centre_arg(st), radius_arg(st))
    attr = "points" if st["op"] == "setpoints" else "weights"
    old = np.asarray(getattr(g, attr), dtype=float)
    mode = st["mode"]
    if mode == "astype":           # the same values (rounded if need be) in another storage type
        new = np.asarray(getattr(g, attr)).astype(st["dtype"])
    elif mode == "rel":
        new = old * (1.0 + st["eps"])
    elif mode == "abs":
        new = old + st["eps"]
    elif mode == "copy":
        new = old.copy()
    elif mode == "perm":
        new = old[np.array(st["perm"])].copy()
    elif mode == "shift":          # a fresh array, remembered so that a later step can edit it in place and assign it again
        new = old + st["eps"]
        state["held"] = new
    elif mode == "inplace-then-reassign":
        new = state["held"]
        new += st["eps"]           # in-place edit of the array the grid already holds ...
    else:
        raise ValueError(mode)
    setattr(g, attr, new)          # ... followed by an assignment (of a new or of the very same object)
    return "ok"


def fshort(x):
    if isinstance(x, str) or x is None:
        return str(x)
    return "indices=" + ",".join(str(t[0]) for t in x)


def gen_float_history(rng, kind):
    desc = gen_desc(rng, kind)
    if kind == "OneDGrid":
        desc["domain"] = None if rng.random() < 0.5 else [-50, 50]
    g = build_grid(desc)
    P = np.asarray(g.points, dtype=float)
    n = len(np.asarray(g.weights))
    rows = P.reshape(n, -1)
    d = rows.shape[1]
    flat = P.ndim == 1
    mk = lambda c: float(c[0]) if flat else [float(v) for v in c]  # noqa: E731
    c0 = [rng.randint(-5, 5) for _ in range(d)]
    steps = [{"op": "query", "centre": mk(c0), "r": radius_of(rng.randint(0, 30))["r"]}]   # builds the tree
    what = rng.choice(["points"] * 3 + ["weights"])
    u = rng.random()
    if what == "weights":
        mode = rng.choice(["rel", "abs", "copy", "perm"])
        st = {"op": "setweights", "mode": mode}
        if mode == "rel":
            st["eps"] = rng.choice([1e-9, 1e-8, 1e-7, 1e-6, 5e-6, 1e-5]) * rng.choice((1, -1))
        elif mode == "abs":
            st["eps"] = rng.choice([1e-11, 1e-10, 1e-9, 5e-9, 1e-8]) * rng.choice((1, -1))
        elif mode == "perm":
            st["perm"] = rng.sample(range(n), n)
        steps.append(st)
        steps.append({"op": "query", "centre": mk(rng.choice(rows.tolist())), "r": radius_of(rng.randint(1, 40))["r"]})
        return desc, steps
    if u < 0.3:
        st = [{"op": "setpoints", "mode": "rel", "eps": rng.choice([1e-9, 1e-8, 1e-7, 1e-6, 5e-6, 1e-5]) * rng.choice((1, -1))}]
    elif u < 0.6:
        st = [{"op": "setpoints", "mode": "abs", "eps": rng.choice([1e-12, 1e-11, 1e-10, 1e-9, 5e-9, 1e-8]) * rng.choice((1, -1))}]
    elif u < 0.7:
        st = [{"op": "setpoints", "mode": "copy"}]
    elif u < 0.85:
        st = [{"op": "setpoints", "mode": "perm", "perm": rng.sample(range(n), n)}]
    else:
        st = [{"op": "setpoints", "mode": "shift", "eps": float(rng.randint(-2, 2))},
              {"op": "query", "centre": mk(c0), "r": radius_of(rng.randint(0, 30))["r"]},
              {"op": "setpoints", "mode": "inplace-then-reassign", "eps": rng.choice([5e-9, 1e-6, 1.0, 3.0])}]
    steps += st
    # final query: a radius between the old and the new distance of some point (found on a scratch instance)
    g2, state = build_grid(desc), {}
    old = np.asarray(g2.points, dtype=float).reshape(n, -1).copy()
    for s_ in steps[1:]:
        if s_["op"] != "query":
            float_step(g2, s_, state)
    new = np.asarray(g2.points, dtype=float).reshape(n, -1)
    best = None
    for _ in range(12):
        i = rng.randrange(n)
        c = [float(v) for v in (old[i] + [rng.randint(-3, 3) for _ in range(d)])]
        do, dn = math.dist(old[i], c), math.dist(new[i], c)
        if abs(do - dn) > 4 * MARGIN * max(1.0, do):
            best = (c, (do + dn) / 2)
            break
    if best is None:   # the reassignment does not move any distance (copy / permutation): any radius will do
        c = [float(v) for v in rng.choice(old.tolist())]
        best = (c, radius_of(rng.randint(0, 40))["r"])
    steps.append({"op": "query", "centre": mk(best[0]), "r": best[1]})
    return desc, steps


def gen_form_history(rng, kind):
    """Grids whose arrays are not float64 (integer / float32 storage, at construction or by reassignment), fractional centres,
    centre and radius passed in every accepted form, radii a hair beyond / short of a point's distance."""
    ri = rng.randint
    desc = gen_desc(rng, kind)
    if kind in ("Grid", "OneDGrid"):
        pd = rng.choice(["int64", "int32", "float32", "float64"])
        desc["pdtype"], desc["wdtype"] = pd, rng.choice(["float64", "float32", "int64"])
        if pd.startswith("float"):
            desc["div"] = rng.choice([1, 2, 8])
        if kind == "OneDGrid":
            desc["domain"] = None if rng.random() < 0.5 else [-50, 50]
    g = build_grid(desc)
    P = np.asarray(g.points)
    n = len(np.asarray(g.weights))
    flat = P.ndim == 1
    d = P.reshape(n, -1).shape[1]
    steps = []
    if kind not in ("Grid", "OneDGrid") or rng.random() < 0.4:
        if rng.random() < 0.5:   # build the tree first, then change the storage type by reassignment
            steps.append({"op": "query", "centre": 0.5 if flat else [0.5] * d, "r": radius_of(ri(0, 30))["r"]})
        what = "setpoints" if rng.random() < 0.75 else "setweights"
        steps.append({"op": what, "mode": "astype",
                      "dtype": rng.choice(["int64", "float32", "int32"] if what == "setpoints" else ["float32", "int64"])})
    g2, state = build_grid(desc), {}
    for st in steps:
        if st["op"] != "query":
            float_step(g2, st, state)
    rows = np.asarray(g2.points, dtype=float).reshape(n, -1)
    for _ in range(ri(1, 3)):
        i = rng.randrange(n)
        m = rng.random()
        if m < 0.45:     # fractional centre near a point
            c = [float(v) + rng.choice([-1.5, -0.5, -0.25, 0.25, 0.5, 0.75, 1.5, 0.1, -0.3]) for v in rows[i]]
        elif m < 0.7:    # arbitrary decimals
            c = [round(rng.uniform(-5, 5), 3) for _ in range(d)]
        elif m < 0.85:   # far from the origin: single precision would lose the fraction
            c = [float(v) + 100.1 for v in rows[i]]
        else:
            c = [float(v) for v in rows[rng.randrange(n)]]
        integral = all(float(v).is_integer() for v in c)
        if flat:
            cform = rng.choice(["float", "np64", "array0d", "np32"] + (["int"] if integral else []))
        else:
            cform = rng.choice(["array64", "array64", "list", "tuple", "array32"] + (["arrayint"] if integral else []))
        st = {"op": "query", "centre": c[0] if flat else c, "cform": cform}
        cv = [float(v) for v in np.atleast_1d(np.asarray(centre_arg({**st, "r": 1.0}), dtype=float))]
        dist = math.dist(rows[i], cv)
        m = rng.random()
        if m < 0.6 and dist > 0:
            r = dist * (1 + rng.choice((1, -1)) * rng.choice([1e-12, 1e-10, 1e-8, 1e-7, 1e-6, 1e-4, 1e-2]))
        elif m < 0.8:
            r = float(ri(0, 6))
        else:
            r = radius_of(ri(0, 40))["r"]
        st["r"] = r
        st["rform"] = rng.choice(["float", "float", "np64", "np32"] + (["int"] if float(r).is_integer() else []))
        steps.append(st)
    return desc, steps


def gen_atom_history(rng, kind):
    """Atomic / molecular grids as they occur in practice: nucleus at coordinates that are not exactly representable, radial
    shells from 1e-6 upwards.  Queries centred exactly on a parent point (radius 0, tiny, a shell radius) or on the nucleus with
    a radius a hair beyond / short of a shell; the parent points are the PUBLIC points (rounded sums nucleus + offset)."""
    def atom():
        radii = sorted(rng.sample([1e-6, 1e-5, 1e-4, 1e-3, 0.01, 0.1, 0.5, 1.0, 2.5], rng.randint(2, 4)))
        return {"radii": radii, "center": [round(rng.uniform(-60, 60), 1) for _ in range(3)], "degree": rng.choice([3, 3, 5, 7])}
    if kind == "AtomGrid":
        desc = {"kind": "AtomGrid", **atom()}
        atoms = [desc]
    else:
        atoms = [atom() for _ in range(rng.randint(1, 2))]
        n = sum(build_grid({"kind": "AtomGrid", **a}).size for a in atoms)
        desc = {"kind": "MolGrid", "atoms": atoms, "aim": [1] * n}
    g = build_grid(desc)
    P = np.asarray(g.points, dtype=float)
    steps = []
    for _ in range(rng.randint(1, 3)):
        a = rng.choice(atoms)
        m = rng.random()
        if m < 0.5:      # centred exactly on one of the parent's points
            c = [float(v) for v in P[rng.randrange(len(P))]]
            r = rng.choice([0.0, 0.0, 1e-300, 1e-12, rng.choice(a["radii"]), rng.choice(a["radii"]) * (1 + rng.choice((1, -1)) * 1e-6)])
        elif m < 0.85:   # centred on the nucleus, radius next to a shell radius
            c = [float(v) for v in a["center"]]
            r = rng.choice(a["radii"]) * (1 + rng.choice((1, -1)) * rng.choice([1e-9, 1e-6, 1e-3, 1e-2, 0.3]))
        else:
            c = [float(v) + rng.choice([-0.5, 0.25, 1e-5]) for v in P[rng.randrange(len(P))]]
            r = rng.choice(a["radii"]) * rng.choice([0.5, 1.0, 1.7])
        steps.append({"op": "query", "centre": c, "cform": rng.choice(["array64", "list", "tuple"]), "r": r})
    return desc, steps


def run_float_history(desc, steps):
    """Returns (index of the first failing judged step or None, observed, expected, integrate_problem, skipped)."""
    g, state = build_grid(desc), {}
    for j, st in enumerate(steps):
        if st["op"] == "query":
            # the sphere the caller asked for: the numeric VALUES of the arguments actually passed
            exp = float_expected(g, np.asarray(centre_arg(st), dtype=float), float(radius_arg(st)))
            ob = float_step(g, st, state)
            if exp is None:
                if j == len(steps) - 1:
                    return None, None, None, None, True
                continue
            if ob != exp:
                return j, ob, exp, None, False
        else:
            float_step(g, st, state)
            if st["op"] == "setweights":
                W = [float(v) for v in np.asarray(g.weights)]
                tot, scale = math.fsum(W), math.fsum(abs(v) for v in W)
                got = float(g.integrate(np.ones(len(W))))
                if abs(got - tot) > 1e-13 * max(scale, 1e-300):
                    return j, f"integrate(1)={got!r}", f"sum(new weights)={tot!r}", True, False
    return None, None, None, None, False



HDR = ("From Coq Require Import ZArith List Bool.\nFrom P Require Import C10_model C10_gen.\n"
       "Import ListNotations.\nOpen Scope Z_scope.\n")


# ---------------------------------------------------------------------------------------------- run
def run(ctx: Ctx):
    rng = ctx.rng
    units = anchored_units()

    # ---------------- directed witnesses: decide the configuration flags, re-derive the known defects
    flags, wit_hist = {}, {}
    for flag, (oblig, key, desc, ops) in witnesses().items():
        h = History(desc, ops).run()
        wit_hist[flag] = h
        v = h.verdicts[-1]
        # _kdtree missing is a behaviour of its own (AttributeError); the other flags: does the witness satisfy the property
        flags[flag] = (h.obs[-1] != ("err", "EAttr")) if flag == "atom_tree_init" else (v[0] == "ok")
        ctx.case(("witness", flag))
        if v[0] == "fail":
            ctx.fail(oblig, key, short(h.obs[-1]),
                     f"{key}: observed {short(h.obs[-1])}, the property requires {short(v[1])}",
                     {"history": h.script(), "expected": v[1], "observed_full": h.obs[-1], "flag": flag})
        elif v[0] != "ok":
            raise RuntimeError(f"directed witness {flag} not judged: {v}")
    ctx.cov["impl_config"] = dict(flags)
    ctx.gen("C10_gen.v",
            "(* generated on every run: which of the eight deviating code sites show the corrected behaviour on the\n"
            "   implementation under test (decided by the directed witnesses, validated by the correspondence) *)\n"
            "From P Require Import C10_model.\n"
            "Definition impl_cfg : config := mkcfg " + " ".join(bl(flags[f]) for f in FLAGS) + ".\n", units)

    # ---------------- prove
    ctx.copy_coq("C10")
    status = ctx.coq_build()
    ctx.register_props(status)
    if not status.get("C10_model.v") or not status.get("C10_gen.v"):
        raise RuntimeError("model does not compile: " + ctx.logs.get("C10_model.v", "")[-400:])

    # ---------------- oracle hypothesis  oracle_ok  against scipy's cKDTree
    from scipy.spatial import cKDTree

    nval = 300 if ctx.quick else 3000
    for t in range(nval):
        d, n = rng.randint(1, 3), rng.randint(1, 30)
        P = [[rng.randint(-5, 5) for _ in range(d)] for _ in range(n)]
        tree = cKDTree(np.array(P, dtype=float))
        for _ in range(4):
            c = [rng.randint(-6, 6) for _ in range(d)] if rng.random() < 0.8 else list(rng.choice(P))
            t = rng.randint(1, 7)
            rad = rng.choice([{"k": 0, "r": 0.0}, {"k": 0, "r": 1e-9}, radius_of(rng.randint(0, 60)), {"k": t * t, "r": float(t)},
                              radius_of(rng.choice([dist2(p, c) for p in P])), {"k": 10**12, "r": 1e6 + 0.25}])
            got = list(tree.query_ball_point(np.array(c, dtype=float), rad["r"], p=2.0))
            exp = [i for i in range(n) if dist2(P[i], c) <= rad["k"]]
            ctx.case(None)
            if sorted(got) != exp:
                ctx.fail("oracle_ok", f"ckdtree:{P}:{c}:{rad['r']!r}", str(sorted(got)),
                         f"cKDTree.query_ball_point returned {sorted(got)}, brute force {exp} (hypothesis oracle_ok)",
                         {"points": P, "centre": c, "radius": rad}, found_input=False)
    ctx.count("oracle_validations", nval * 4)

    # ---------------- slice_indices against Python's slice.indices (exhaustive on a box)
    nmax, lim = (4, 6) if ctx.quick else (7, 9)
    bounds = [None] + list(range(-lim, lim + 1))
    cases, meta = [], []
    for n in range(nmax + 1):
        for s in (-3, -2, -1, 1, 2, 3):
            rows = []
            for a in bounds:
                for b in bounds:
                    e = list(range(n))[slice(a, b, s)]
                    rows.append(f"({optz(a)}, {optz(b)}, [{'; '.join(f'{j}%nat' for j in e)}])")
                    ctx.case(None)
            cases.append(f"forallb (fun t => let '(a, b, e) := t in list_eqb Nat.eqb (slice_indices {n}%nat a b {zc(s)}) e) "
                         f"[{'; '.join(rows)}]")
            meta.append((n, s))
    for i in ctx.coq_bool_cases("C10_slice", HDR, cases, shard=8):
        n, s = meta[i]
        ctx.fail("corr_slice", f"slice:n={n}:step={s}", None,
                 f"model slice_indices differs from Python slice semantics for n={n}, step={s}", found_input=False)
    ctx.count("slice_triples", len(cases) * len(bounds) ** 2)

    # ---------------- random histories
    kinds = ["Grid", "Grid", "OneDGrid", "AtomGrid", "MolGrid", "UniformGrid", "Tensor1DGrids", "PeriodicGrid"]
    nh = 1600 if ctx.quick else 32000
    maxlen = 8 if ctx.quick else 12
    hs = [wit_hist[f] for f in FLAGS]
    seen = set()
    nbuildfail = 0
    while len(hs) < nh + len(FLAGS):
        kind = kinds[len(hs) % len(kinds)]
        desc = gen_desc(rng, kind)
        try:
            g = build_grid(desc)
            P = np.asarray(g.points)
            h = History(desc, gen_ops(rng, desc, rows_of(P), P.ndim == 1, maxlen))
            k = h.key()
            if k in seen:
                continue
            h.run()
        except Unencodable:
            raise
        except Exception as e:  # noqa: BLE001 - constructing a valid grid (or the harness around it) raised: report the concrete grid
            nbuildfail += 1
            if nbuildfail <= 3:
                ctx.fail("corr_history", "construct:" + json.dumps(desc, separators=(",", ":"), sort_keys=True), type(e).__name__,
                         f"{kind}: constructing / driving the grid {json.dumps(desc)} raised {type(e).__name__}: {str(e)[:120]}",
                         {"grid": desc})
            if nbuildfail > 200:
                raise
            continue
        seen.add(k)
        hs.append(h)
    cases = []
    pre_bad = []
    for i, h in enumerate(hs):
        ctx.case(h.key(), traces=len(h.ops))
        ctx.count(f"histories:{h.kind}:{'1d-array' if h.flat else 'dim' + str(h.dim)}")
        for o, ob, v in zip(h.ops, h.obs, h.verdicts):
            tag = o["op"]
            if tag == "query":
                r = o["radius"]
                tag += ":" + (r if isinstance(r, str) else ("zero" if r["r"] == 0 else "tiny" if r["r"] < 1e-6 else "huge" if r["k"] > 10**6
                                                            else "exact-tie" if r["r"] == math.isqrt(r["k"]) else "finite"))
                if ob[0] == "local" and not ob[2]:
                    ctx.count("query:empty-result")
            elif tag in ("getitem", "enter"):
                tag += ":" + next(iter(o["index"]))
            if "sub" in o:
                ctx.count("op:query-on-local-grid")
            ctx.count("op:" + tag)
            ctx.count("verdict:" + v[0])
            if ob[0] == "err":
                ctx.count("obs:" + ob[1])
        try:
            cases.append(h.coq_case())
        except Unencodable as e:
            h.unenc = str(e)
            pre_bad.append(i)
            cases.append("true")
    bad = sorted(set(ctx.coq_bool_cases("C10_hist", HDR, cases, shard=100)) | set(pre_bad))

    # ---------------- search: locate the diverging step of disagreeing histories, judge it with the oracle
    # (at most MAXREP reports, shortest histories first; the total is recorded)
    MAXREP = 8
    ctx.cov["disagreeing_histories"] = len(bad)
    # the two shortest disagreeing histories of EVERY grid kind (a failing class is never crowded out by another one)
    rep, per_kind = [], {}
    for i in sorted(bad, key=lambda i: (len(hs[i].ops), i)):
        if per_kind.get(hs[i].kind, 0) < 2:
            per_kind[hs[i].kind] = per_kind.get(hs[i].kind, 0) + 1
            rep.append(i)
    pref, owner = [], []
    for i in rep:
        if hs[i].unenc is None:
            for j in range(len(hs[i].ops)):
                pref.append(hs[i].coq_case(j))
                owner.append((i, j))
    badp = ctx.coq_bool_cases("C10_loc", HDR, pref, shard=20) if pref else []
    first = {}
    for q in badp:
        i, j = owner[q]
        first[i] = min(first.get(i, j), j)
    for i in rep:
        h = hs[i]
        if h.unenc is None:
            step = first.get(i, len(h.ops) - 1)
        else:
            step = next(j for j, ob in enumerate(h.obs) if ob[0] == "other")
        fails = [j for j in range(step + 1) if h.verdicts[j][0] == "fail" and (h.why[j] is None or flags[h.why[j]] or j == step)]
        if fails:
            j = fails[-1]
            ctx.fail("corr_history", h.key(j), h.seen(j),
                     f"{h.kind}: step {j} ({coq_op(h.ops[j])}) observed {h.seen(j)}, the property requires {short(h.verdicts[j][1])}"
                     f" (model and implementation disagree on {len(bad)} histories)",
                     {"history": h.script(j), "observed_full": h.obs[j], "expected": h.verdicts[j][1]})
        else:
            ctx.fail("corr_history", "model:" + h.key(step), short(h.obs[step]),
                     f"{h.kind}: model and implementation disagree at step {step} ({coq_op(h.ops[step])}); implementation observed "
                     f"{short(h.obs[step])}; the brute-force oracle has no objection to the implementation there "
                     f"({len(bad)} disagreeing histories)",
                     {"history": h.script(step), "observed_full": h.obs[step]}, found_input=False)
    # property failures on histories where the model agrees must be attributable to a flagged defect
    badset = set(bad)
    unexplained, ugroups = 0, {}
    for i, h in enumerate(hs):
        if i in badset:
            continue
        for j, v in enumerate(h.verdicts):
            if v[0] != "fail":
                continue
            why = h.why[j]
            if why is not None and not flags[why]:
                ctx.count("explained-by:" + why)
                continue
            if i < len(FLAGS):
                continue  # the directed witness itself (already reported above)
            unexplained += 1
            group = (h.kind, h.ops[j]["op"], next(iter(h.ops[j].get("index", {"-": 0}))), j in h.sub)
            if ugroups.get(group, 0) >= 2:
                continue   # two reports per (grid kind, operation, index kind); every other class is still reported
            ugroups[group] = ugroups.get(group, 0) + 1
            ctx.fail("query_refines_spec" if h.ops[j]["op"] == "query" else "getitem_spec", h.key(j), h.seen(j),
                     f"{h.kind}: step {j} ({coq_op(h.ops[j])}) observed {h.seen(j)}, the property requires {short(v[1])}",
                     {"history": h.script(j), "observed_full": h.obs[j], "expected": v[1]})

    # ---------------- float perturbation histories (judged on the implementation by an exact-rational oracle)
    fkinds = ["Grid", "Grid", "OneDGrid", "MolGrid", "UniformGrid"]
    nf, done, skipped, freports, fgroups = (400 if ctx.quick else 4000), 0, 0, 0, set()
    while done < nf:
        kind = fkinds[done % len(fkinds)]
        desc, steps = gen_float_history(rng, kind)
        j, ob, exp, integ, skip = run_float_history(desc, steps)
        done += 1
        if skip:
            skipped += 1
            continue
        mode = next(st["mode"] for st in reversed(steps) if st["op"] != "query")
        what = next(st["op"] for st in steps if st["op"] != "query")
        ctx.case(json.dumps({"grid": desc, "steps": steps}, sort_keys=True), traces=len(steps))
        ctx.count(f"float:{kind}:{what}:{mode}")
        if j is not None:
            freports += 1
            if (kind, what, mode) in fgroups:
                continue   # first failure per (grid kind, attribute, kind of reassignment)
            fgroups.add((kind, what, mode))
            hist = {"grid": desc, "steps": steps[: j + 1]}
            ctx.fail("query_refines_spec", "float:" + json.dumps(hist, separators=(",", ":"), sort_keys=True), fshort(ob),
                     f"{kind}: after [{'; '.join(st['op'] + (':' + st['mode'] if 'mode' in st else '') for st in steps[:j])}] "
                     f"step {j} ({steps[j]['op']}) observed {fshort(ob)}, the current points/weights require {fshort(exp)}",
                     {"float_history": hist, "observed_full": ob, "expected": exp})
    # storage types and argument forms: "every kind of grid ... every centre and non-negative radius"
    gkinds = ["Grid", "Grid", "OneDGrid", "OneDGrid", "MolGrid", "UniformGrid", "Tensor1DGrids"]
    ng, done, seen_groups = (500 if ctx.quick else 5000), 0, set()
    while done < ng:
        kind = gkinds[done % len(gkinds)]
        desc, steps = gen_form_history(rng, kind)
        try:
            j, ob, exp, integ, skip = run_float_history(desc, steps)
        except Exception as e:  # noqa: BLE001 - a constructor / setter of the implementation raised: that is the finding
            j, ob, exp, skip = len(steps) - 1, f"{type(e).__name__}: {str(e)[:80]}", "no exception", False
        done += 1
        q = steps[-1]
        ctx.case(json.dumps({"grid": desc, "steps": steps}, sort_keys=True), traces=len(steps))
        ctx.count(f"form:{kind}:points={desc.get('pdtype', 'library')}"
                  + (":reassigned-" + next(st["dtype"] for st in steps if st.get("mode") == "astype") if any(st.get("mode") == "astype" for st in steps) else ""))
        ctx.count(f"form:centre={q.get('cform')}:radius={q.get('rform')}")
        if skip:
            skipped += 1
            continue
        if j is not None:
            freports += 1
            group = (kind, desc.get("pdtype"), steps[j].get("cform"), steps[j].get("rform"), steps[j].get("mode"))
            if group in seen_groups or len(seen_groups) >= 2 * MAXREP:
                continue   # first failure per (class, storage type, argument form); a new class is always reported
            seen_groups.add(group)
            hist = {"grid": desc, "steps": steps[: j + 1]}
            ctx.fail("query_refines_spec", "form:" + json.dumps(hist, separators=(",", ":"), sort_keys=True), fshort(ob),
                     f"{kind} (points {desc.get('pdtype', 'as built by the library')}): step {j} {json.dumps(steps[j])} observed {fshort(ob)}, "
                     f"the sphere asked for requires {fshort(exp)}",
                     {"float_history": hist, "observed_full": ob, "expected": exp})
    # atomic / molecular grids with realistic (non-representable) nuclei and tiny shells
    na, done, agroups = (300 if ctx.quick else 3000), 0, set()
    while done < na:
        kind = ("AtomGrid", "AtomGrid", "MolGrid")[done % 3]
        desc, steps = gen_atom_history(rng, kind)
        try:
            j, ob, exp, integ, skip = run_float_history(desc, steps)
        except Exception as e:  # noqa: BLE001
            j, ob, exp, skip = len(steps) - 1, f"{type(e).__name__}: {str(e)[:80]}", "no exception", False
        done += 1
        ctx.case(json.dumps({"grid": desc, "steps": steps}, sort_keys=True), traces=len(steps))
        ctx.count(f"atoms:{kind}:radius-{'zero' if steps[-1]['r'] == 0 else 'tiny' if steps[-1]['r'] < 1e-9 else 'shell'}")
        if skip:
            skipped += 1
            continue
        if j is not None:
            freports += 1
            group = (kind, steps[j]["r"] == 0, steps[j]["r"] < 1e-9)
            if group in agroups:
                continue
            agroups.add(group)
            hist = {"grid": desc, "steps": steps[: j + 1]}
            ctx.fail("query_refines_spec", "atoms:" + json.dumps(hist, separators=(",", ":"), sort_keys=True), fshort(ob),
                     f"{kind} {json.dumps(desc)}: get_localgrid({steps[j]['centre']}, {steps[j]['r']!r}) observed {fshort(ob)}, "
                     f"the parent's points within that sphere are {fshort(exp)}",
                     {"float_history": hist, "observed_full": ob, "expected": exp})
    ctx.count("float:skipped-boundary-margin", skipped)
    ctx.cov["float_history_failures"] = freports
    # informational, NOT judged: editing the assigned array in place without assigning again (see assumptions)
    try:
        from grid.basegrid import Grid
        A = np.array([[float(i), 0.0, 0.0] for i in range(40)])
        gi = Grid(A, np.ones(40))
        gi.get_localgrid(np.zeros(3), 1.5)
        A[39] = [0.5, 0.0, 0.0]
        ctx.notes.append("in-place edit of the held points array without reassignment (not judged): indices within 1.5 of the origin = "
                         f"{sorted(int(v) for v in gi.get_localgrid(np.zeros(3), 1.5).indices)} (current values would give [0, 1, 39])")
    except Exception as e:  # noqa: BLE001
        ctx.notes.append(f"in-place edit probe raised {type(e).__name__}")
    ctx.cov["unexplained_property_failures"] = unexplained
    for h in (hs[0], hs[1], hs[len(FLAGS)], hs[len(FLAGS) + 3], hs[len(FLAGS) + 4], hs[-1]):
        ctx.sample({"grid": h.desc, "ops": h.ops[:4], "observed": [short(o) if o[0] != "done" else "ok" for o in h.obs[:4]]})
    ctx.cov["rule"] = (
        "random histories (1..%d operations: points/weights reassignment incl. wrong shapes, queries with centre on / next to / "
        "far from a grid point and radius 0, 1e-9, an integer r with a grid point at distance exactly r (exact in floats), sqrt(k+1/2) for k a "
        "squared distance of the grid or one less or random, 1e6, inf, "
        "negative, nan; selections by int, numpy int, slice, index array, mask incl. invalid ones) round-robin over Grid (1-D array, "
        "N x 1..3), OneDGrid, AtomGrid, MolGrid, UniformGrid, Tensor1DGrids, PeriodicGrid (selection only); integer coordinates so "
        "squared distances are exact and no radius is a boundary tie; every history is distinct (canonical JSON); the whole list of "
        "observations (sorted (index, point, weight) triples, centre, canonical exception class) is compared with the Coq model by "
        "vm_compute; in parallel a brute-force oracle judges every in-scope step on the implementation") % maxlen
    ctx.cov["exhaustive"] = False
    ctx.trusted += [
        "hand model coq/C10/C10_model.v (tied by the history correspondence on every run)",
        "configuration flags impl_cfg decided by 8 directed witness histories on the implementation (a wrong flag makes the "
        "random-history correspondence fail)",
        "oracle hypothesis, validated against scipy.spatial.cKDTree on every run: oracle_ok bq := forall snap c k, NoDup (bq snap c k) "
        "/\\ forall i, In i (bq snap c k) <-> (i < length snap)%nat /\\ dist2 (nth i snap []) c <= k",
        "radius encoding k = floor(r^2) (theorem radius_bridge; the harness asserts k < r^2 < k+1 in exact rationals)",
        "weights are opaque labels: float64 bit patterns",
        "numpy fancy indexing / Python slice semantics as modelled by resolve, resolve_all, mask_indices, slice_indices "
        "(slice_indices validated exhaustively on a box, the others through the histories)",
    ]
    ctx.assumptions += [
        "integer coordinates and centres (exact squared distances); float round-off at ball boundaries is out of scope",
        "the property speaks of reassignments: editing, in place and without assigning again, an array the grid holds by reference "
        "(the library never copies and cKDTree aliases its data) is NOT judged; an in-place edit FOLLOWED by an assignment of the "
        "same array object is a reassignment and is judged (float histories)",
        "storage-type / argument-form histories: the sphere asked for is defined by the numeric VALUES of the centre and radius "
        "arguments as passed and of the point array as stored",
        "float perturbation histories are judged only when every point is off the sphere boundary by a relative margin 2e-14 in d^2",
        "selection is claimed for Grid, OneDGrid, PeriodicGrid; an empty selection on a OneDGrid with a domain or on a "
        "PeriodicGrid with lattice vectors, and a selection of points lying outside the OneDGrid domain, are rejected by the constructors and "
        "are treated as outside the property (modelled, not judged)",
        "PeriodicGrid.get_localgrid is property C11",
    ]


def replay(rp):
    if "float_history" in rp:
        fh = rp["float_history"]
        j, ob, exp, _, _ = run_float_history(fh["grid"], fh["steps"])
        print(json.dumps(fh))
        print("failing step:", j, "| observed:", fshort(ob), "| required:", fshort(exp))
        return 1 if j is not None else 0
    h = History(rp["history"]["grid"], rp["history"]["ops"]).run()
    for o, ob, v in zip(h.ops, h.obs, h.verdicts):
        print(json.dumps(o), "->", short(ob) if ob[0] != "done" else "ok", "|", v[0], short(v[1]) if v[0] == "fail" else "")
    return 1 if h.verdicts[-1][0] == "fail" else 0
