"""C19 — caches and remembered parameters never change what a later call returns.

gen:   a small abstract interpreter (ast, fail closed) runs AngularGrid.__init__ for every method in the three
       scenarios {miss & cache=True, miss & cache=False, hit} and records, per array (points / weights), which of
       {array loaded from the data file, array put in the cache, array handed to super().__init__} are the same
       array object and how many 4*pi factors each carries -> `cfg_src`.  load_atomic_gaussian_params is matched
       against "cache assigned only from json.load; results are np.asarray/np.array of cached lists" -> the
       Coulomb row of cfg_src.  _generate_atomic_grid / get_shell_grid are checked (not modelled) for in-place
       writes into, or returned aliases of, the angular grid's arrays.  In rtransform.py the three classes with an
       inferred scale are checked for "set_maximum_parameter_b assigns only when b is None; no other method writes
       self.*"; the table of methods that call it and the table of methods whose result depends on the scale (they
       read self.b / self._b directly or through other methods of the object) are extracted -> `tcfg_src`.
prove: coq/C19/*.v (generic theorems over every aliasing configuration and every history; instance theorems about
       cfg_src / tcfg_src; refutations for the pinned configuration; the repaired configuration).
tie:   history correspondence.  Random API histories (constructions with cache on/off across methods/degrees,
       in-place edits and attribute reassignment of returned arrays, AtomGrid / MolGrid constructions, shell
       extraction, integration, the routines that rebuild angular grids internally, parameter loads) are run on the
       implementation with cleared module caches; after every call every live array (of every returned object and
       of every cache entry) is classified bit-for-bit (shipped data / 4*pi-scaled / overwritten by edit t / per
       shell clean-or-not) and the memory-sharing structure (np.shares_memory) is recorded; the whole trace is
       compared with the model run under cfg_src inside Coq (vm_compute).  Transform objects get random call
       sequences with/without explicit b; the sequence of b values and raised errors is compared with the model,
       and every result with a fresh object built with that b.  Identical calls on one object must return identical
       results (random sequences with repeated calls; directed sweep m1(x); m2(y); m1(x) over all classes, method pairs,
       b inferred / explicit): a scale that is used must have been stored.
search: per array, the shortest model history violating the property is found by bounded exhaustive search in
       Coq and replayed on the implementation (-> known findings / new violations).  A disagreement between
       implementation and model is minimised (ddmin, Coq as the model oracle) and extended by probing edits until
       an observation differs from the shipped data although the model says it must not.
       Model-independent searches run on every run and judge the implementation against the shipped data only
       (every object a call returns must equal what the same call returns in a fresh process): the random histories,
       a directed sweep over all ordered pairs of methods at their common degrees (with in-place edits of every
       returned array, cache flag on/off, AtomGrid / shell grids), the Coulomb loader (edit the returned arrays, load
       again by atomic number / symbol / lower-case symbol), the transform call orders, and the reachable-array sweep:
       for every construction A (AngularGrid per method, AtomGrid(...), AtomGrid.from_preset / from_pruned with their
       default radial grid and default centre, get_shell_grid, MolGrid.from_size / from_preset / from_pruned, the loader)
       every NumPy array reachable from the returned object (points, weights, center, indices, rgrid.points,
       rgrid.weights, atgrids[i].*, atcoords, aim_weights, ...) is overwritten in place, then every construction B is
       repeated: its points and weights must be what B returns in a fresh process (all grid.* modules are reloaded in
       dependency order between the A's, so module-level state unknown to the harness is reset too); a failure is
       narrowed to the single edited array.  Whenever a part of the tie
       is broken (a unit outside the extractor's subset -- that part of the model then is the specification itself --,
       an instance theorem about cfg_src / tcfg_src that no longer compiles, a trace disagreement without a probing
       result), Ctx.broken_tie reports the first such failing history that is not a listed known finding as the
       replay; only if there is none the violation is reported as no-failing-input-found.
"""
from __future__ import annotations

import ast
import importlib
import json
import math
import warnings

import numpy as np

from vlib.core import SRC, Ctx, src_sha

METHODS = ["lebedev", "spherical", "maxdet", "ahrens_beylkin"]
COQ_M = {"lebedev": "Lebedev", "spherical": "Spherical", "maxdet": "Maxdet", "ahrens_beylkin": "Ahrens", "coulomb": "Coulomb"}
KINDS = ["KP", "KW"]
KNAME = {"KP": "points", "KW": "weights"}


# ====================================================================== gen: abstract interpreter
class Unsupported(ValueError):
    pass


class NeedsPrivate(Unsupported):
    """Library code writes into (or passes on) an AngularGrid's arrays: harmless exactly when every AngularGrid owns
    private copies of its arrays (cfg_src isolating for every method and array)."""


class Arr:
    """An abstract array object: identity, provenance kind (P/W), number of 4*pi factors."""

    def __init__(self, ident, kind, nscale):
        self.ident, self.kind, self.nscale = ident, kind, nscale

    def __repr__(self):
        return f"Arr({self.ident},{self.kind},{self.nscale})"


class Tup:
    def __init__(self, items):
        self.items = list(items)


class Str:
    def __init__(self, s):
        self.s = s


class Num:
    def __init__(self, v):
        self.v = v


class CacheDict:
    def __init__(self, name):
        self.name = name


class MethodTable:
    """A module-level dict literal {method name: cache dictionary}."""

    def __init__(self, mapping):
        self.mapping = mapping


UNK = object()
FRESH_CALLS_NP = {"copy", "array"}  # np.copy(x), np.array(x): new array
REF_CALLS_NP = {"asarray", "ascontiguousarray", "asanyarray"}  # of an ndarray: the same array


def _is_np(node, attr=None):
    return isinstance(node, ast.Attribute) and isinstance(node.value, ast.Name) and node.value.id in ("np", "numpy") and (attr is None or node.attr == attr)


class InitInterp:
    """Runs AngularGrid.__init__ abstractly for one (method, hit, cache flag) scenario."""

    def __init__(self, fn: ast.FunctionDef, method: str, hit: bool, cacheflag: bool, cache_globals: set, tables=None):
        self.fn, self.method, self.hit, self.cacheflag = fn, method, hit, cacheflag
        self.cache_globals = cache_globals
        self.tables = tables or {}
        self.nid = 0
        self.load = None  # (Arr, Arr) created by the loader
        self.centry = None  # (Arr, Arr) standing for the arrays held by the cache (hit)
        self.stored = None
        self.inst = None
        self.cache_used = None
        self.env = {"method": Str(method), "cache": Num(bool(cacheflag)), "size": UNK, "degree": UNK, "self": UNK}

    def new(self, kind, nscale):
        self.nid += 1
        return Arr(self.nid, kind, nscale)

    # ---- expressions
    def ev(self, e):
        if isinstance(e, ast.Constant):
            if isinstance(e.value, str):
                return Str(e.value)
            if isinstance(e.value, (bool, int, float)):
                return Num(e.value)
            return UNK
        if isinstance(e, ast.Name):
            if e.id in self.cache_globals:
                return CacheDict(e.id)
            if e.id in self.tables and e.id not in self.env:
                return MethodTable(self.tables[e.id])
            return self.env.get(e.id, UNK)
        if isinstance(e, ast.Tuple):
            return Tup([self.ev(x) for x in e.elts])
        if isinstance(e, ast.List):
            return Tup([self.ev(x) for x in e.elts])
        if isinstance(e, ast.Attribute):
            if _is_np(e, "pi") or (isinstance(e.value, ast.Name) and e.value.id == "math" and e.attr == "pi"):
                return Num(math.pi)
            v = self.ev(e.value)
            if isinstance(v, Arr):
                if e.attr in ("shape", "size", "ndim", "dtype"):
                    return UNK
                raise Unsupported(f"attribute .{e.attr} of an array (line {e.lineno})")
            return UNK
        if isinstance(e, ast.Subscript):
            v = self.ev(e.value)
            if isinstance(v, MethodTable):
                key = self.ev(e.slice)
                if not isinstance(key, Str):
                    raise Unsupported(f"method table indexed by a non-constant (line {e.lineno})")
                if key.s not in v.mapping:
                    raise _Raised()
                return CacheDict(v.mapping[key.s])
            if isinstance(v, CacheDict):
                if not (isinstance(e.slice, ast.Name) and e.slice.id == "degree"):
                    raise Unsupported(f"cache indexed by something else than `degree` (line {e.lineno})")
                if not self.hit:
                    raise Unsupported(f"cache read on a miss (line {e.lineno})")
                self.use_cache(v, e)
                if self.centry is None:
                    self.centry = (self.new("P", 0), self.new("W", 0))
                return Tup(self.centry)
            if isinstance(v, Tup) and isinstance(e.slice, ast.Constant) and isinstance(e.slice.value, int):
                return v.items[e.slice.value]
            if isinstance(v, Arr):
                raise Unsupported(f"indexing/slicing of an array (a view) (line {e.lineno})")
            return UNK
        if isinstance(e, ast.BinOp):
            return self.binop(e)
        if isinstance(e, ast.Compare) or isinstance(e, ast.BoolOp) or isinstance(e, ast.UnaryOp):
            t = self.truth(e)
            return UNK if t is None else Num(t)
        if isinstance(e, ast.Call):
            return self.call(e)
        if isinstance(e, ast.JoinedStr):
            return UNK
        raise Unsupported(f"expression {type(e).__name__} (line {e.lineno})")

    def flat_mult(self, e, out):
        if isinstance(e, ast.BinOp) and isinstance(e.op, ast.Mult):
            self.flat_mult(e.left, out)
            self.flat_mult(e.right, out)
        else:
            out.append(self.ev(e))

    def binop(self, e):
        if isinstance(e.op, ast.Mult):
            fs = []
            self.flat_mult(e, fs)
            arrs = [f for f in fs if isinstance(f, Arr)]
            if not arrs:
                if all(isinstance(f, Num) for f in fs):
                    p = 1.0
                    for f in fs:
                        p *= f.v
                    return Num(p)
                return UNK
            if len(arrs) != 1 or not all(isinstance(f, (Arr, Num)) for f in fs):
                raise Unsupported(f"product of an array with a non-constant (line {e.lineno})")
            p = 1.0
            for f in fs:
                if isinstance(f, Num):
                    p *= f.v
            a = arrs[0]
            if abs(p - 4 * math.pi) < 1e-12:
                return self.new(a.kind, a.nscale + 1)
            if p == 1.0:
                return self.new(a.kind, a.nscale)
            raise Unsupported(f"array scaled by {p!r}, neither 1 nor 4*pi (line {e.lineno})")
        l, r = self.ev(e.left), self.ev(e.right)
        if isinstance(l, Arr) or isinstance(r, Arr):
            raise Unsupported(f"arithmetic {type(e.op).__name__} on an array (line {e.lineno})")
        if isinstance(l, Num) and isinstance(r, Num):
            try:
                return Num({ast.Add: lambda a, b: a + b, ast.Sub: lambda a, b: a - b, ast.Div: lambda a, b: a / b,
                            ast.Pow: lambda a, b: a ** b}[type(e.op)](l.v, r.v))
            except Exception:
                return UNK
        return UNK

    def use_cache(self, v: CacheDict, node):
        if self.cache_used is None:
            self.cache_used = v.name
        elif self.cache_used != v.name:
            raise Unsupported(f"two different caches used for method {self.method} (line {node.lineno})")

    def call(self, e: ast.Call):
        f = e.func
        args = [self.ev(a) for a in e.args]
        kws = {k.arg: k.value for k in e.keywords}
        anyarr = any(isinstance(a, Arr) for a in args) or any(isinstance(self.ev(v), Arr) for v in kws.values())
        if isinstance(f, ast.Attribute):
            if f.attr == "lower" and not args:
                v = self.ev(f.value)
                return Str(v.s.lower()) if isinstance(v, Str) else UNK
            if isinstance(f.value, ast.Name) and f.value.id == "self":
                if f.attr == "_load_precomputed_angular_grid":
                    if self.hit:
                        raise Unsupported(f"data file loaded on a cache hit (line {e.lineno})")
                    if self.load is not None:
                        raise Unsupported(f"data file loaded twice (line {e.lineno})")
                    self.load = (self.new("P", 0), self.new("W", 0))
                    return Tup(self.load)
                if f.attr == "_get_degree_and_size" and not anyarr:
                    return Tup([UNK, UNK])
                raise Unsupported(f"call of self.{f.attr} (line {e.lineno})")
            if _is_np(f):
                if f.attr in FRESH_CALLS_NP and len(args) == 1 and isinstance(args[0], Arr):
                    if f.attr == "array" and "copy" in kws:
                        raise Unsupported(f"np.array(..., copy=...) (line {e.lineno})")
                    return self.new(args[0].kind, args[0].nscale)
                if f.attr in REF_CALLS_NP and len(args) == 1 and isinstance(args[0], Arr):
                    return args[0]
                if f.attr in ("any", "all", "sum", "min", "max", "abs", "isnan", "isfinite") :
                    return UNK
                if not anyarr:
                    return UNK
                raise Unsupported(f"np.{f.attr} applied to a tracked array (line {e.lineno})")
            v = self.ev(f.value)
            if isinstance(v, Arr):
                if f.attr == "copy" and not args:
                    return self.new(v.kind, v.nscale)
                if f.attr == "astype" :
                    if "copy" in kws:
                        raise Unsupported(f"astype(copy=...) (line {e.lineno})")
                    return self.new(v.kind, v.nscale)
                raise Unsupported(f"method .{f.attr}() of a tracked array (line {e.lineno})")
            if anyarr:
                raise Unsupported(f"tracked array passed to {ast.unparse(f)} (line {e.lineno})")
            return UNK
        if isinstance(f, ast.Name):
            if f.id in ("len", "isinstance", "int", "float", "str", "bool") :
                return UNK
            if anyarr:
                raise Unsupported(f"tracked array passed to {f.id} (line {e.lineno})")
            return UNK
        raise Unsupported(f"call (line {e.lineno})")

    # ---- three-valued conditions
    def truth(self, e):
        if isinstance(e, ast.BoolOp):
            vals = [self.truth(v) for v in e.values]
            if isinstance(e.op, ast.And):
                if any(v is False for v in vals):
                    return False
                return True if all(v is True for v in vals) else None
            if any(v is True for v in vals):
                return True
            return False if all(v is False for v in vals) else None
        if isinstance(e, ast.UnaryOp) and isinstance(e.op, ast.Not):
            t = self.truth(e.operand)
            return None if t is None else (not t)
        if isinstance(e, ast.Compare) and len(e.ops) == 1:
            op, l, r = e.ops[0], self.ev(e.left), self.ev(e.comparators[0])
            if isinstance(op, (ast.In, ast.NotIn)) and isinstance(r, CacheDict):
                if not (isinstance(e.left, ast.Name) and e.left.id == "degree"):
                    raise Unsupported(f"cache membership of something else than `degree` (line {e.lineno})")
                self.use_cache(r, e)
                return self.hit if isinstance(op, ast.In) else (not self.hit)
            if isinstance(l, Str) and isinstance(op, (ast.In, ast.NotIn)) and isinstance(r, MethodTable):
                t = l.s in r.mapping
                return t if isinstance(op, ast.In) else (not t)
            if isinstance(l, Str):
                if isinstance(op, (ast.Eq, ast.NotEq)) and isinstance(r, Str):
                    return (l.s == r.s) if isinstance(op, ast.Eq) else (l.s != r.s)
                if isinstance(op, (ast.In, ast.NotIn)) and isinstance(r, Tup) and all(isinstance(x, Str) for x in r.items):
                    t = l.s in [x.s for x in r.items]
                    return t if isinstance(op, ast.In) else (not t)
            return None
        if isinstance(e, ast.Name):
            v = self.ev(e)
            if isinstance(v, Num) and isinstance(v.v, bool):
                return v.v
            return None
        self.ev(e)
        return None

    # ---- statements
    def snapshot(self):
        def key(v):
            if isinstance(v, Arr):
                return ("A", v.ident, v.kind, v.nscale)
            if isinstance(v, Tup):
                return ("T",) + tuple(key(x) for x in v.items)
            if isinstance(v, Str):
                return ("S", v.s)
            if isinstance(v, CacheDict):
                return ("C", v.name)
            return ("U",)

        arrs = {k: key(v) for k, v in self.env.items() if key(v)[0] in ("A", "T", "C")}
        return (arrs, None if self.stored is None else key(Tup(self.stored)), None if self.inst is None else key(Tup(self.inst)))

    def assign(self, target, val, node):
        if isinstance(target, ast.Name):
            self.env[target.id] = val
        elif isinstance(target, ast.Tuple):
            if isinstance(val, Tup) and len(val.items) == len(target.elts):
                for t, v in zip(target.elts, val.items):
                    self.assign(t, v, node)
            elif val is UNK:
                for t in target.elts:
                    self.assign(t, UNK, node)
            else:
                raise Unsupported(f"tuple assignment (line {node.lineno})")
        elif isinstance(target, ast.Subscript):
            base = self.ev(target.value)
            if isinstance(base, CacheDict):
                if not (isinstance(target.slice, ast.Name) and target.slice.id == "degree"):
                    raise Unsupported(f"cache written at a key other than `degree` (line {node.lineno})")
                self.use_cache(base, node)
                if self.hit or self.stored is not None:
                    raise Unsupported(f"cache written on a hit / twice (line {node.lineno})")
                if not (isinstance(val, Tup) and len(val.items) == 2 and all(isinstance(x, Arr) for x in val.items)):
                    raise Unsupported(f"cache entry is not a pair of arrays (line {node.lineno})")
                self.stored = tuple(val.items)
            elif isinstance(base, (Arr, Tup)):
                raise Unsupported(f"element assignment into a tracked array (line {node.lineno})")
        elif isinstance(target, ast.Attribute):
            if isinstance(val, (Arr, Tup)):
                raise Unsupported(f"tracked array stored in attribute {ast.unparse(target)} (line {node.lineno})")
        else:
            raise Unsupported(f"assignment target (line {node.lineno})")

    def run_block(self, stmts):
        for st in stmts:
            self.stmt(st)

    def stmt(self, st):
        if isinstance(st, ast.Expr):
            v = st.value
            if isinstance(v, ast.Constant):
                return  # docstring
            if isinstance(v, ast.Call):
                f = v.func
                if (isinstance(f, ast.Attribute) and f.attr == "__init__" and isinstance(f.value, ast.Call)
                        and isinstance(f.value.func, ast.Name) and f.value.func.id == "super"):
                    args = [self.ev(a) for a in v.args]
                    if self.inst is not None or len(args) != 2 or v.keywords or not all(isinstance(a, Arr) for a in args):
                        raise Unsupported(f"super().__init__ call (line {st.lineno})")
                    self.inst = tuple(args)
                    return
                if isinstance(f, ast.Attribute) and f.attr == "warn" and isinstance(f.value, ast.Name) and f.value.id == "warnings":
                    for a in v.args:
                        if isinstance(self.ev(a), Arr):
                            raise Unsupported("array passed to warnings.warn")
                    return
            raise Unsupported(f"expression statement (line {st.lineno})")
        if isinstance(st, ast.Assign):
            val = self.ev(st.value)
            for t in st.targets:
                self.assign(t, val, st)
            return
        if isinstance(st, ast.AugAssign):
            tv = self.ev(st.target) if isinstance(st.target, (ast.Name, ast.Subscript, ast.Attribute)) else UNK
            if isinstance(tv, (Arr, Tup)):
                raise Unsupported(f"in-place update of a tracked array (line {st.lineno})")
            return
        if isinstance(st, ast.If):
            t = self.truth(st.test)
            if t is True:
                self.run_block(st.body)
            elif t is False:
                self.run_block(st.orelse)
            else:
                import copy

                a, b = copy.copy(self), copy.copy(self)
                a.env, b.env = dict(self.env), dict(self.env)
                try:
                    a.run_block(st.body)
                    ra = a.snapshot()
                except _Raised:
                    ra = None
                try:
                    b.run_block(st.orelse)
                    rb = b.snapshot()
                except _Raised:
                    rb = None
                if ra is not None and rb is not None and ra != rb:
                    raise Unsupported(f"branches of an undecided `if` treat the arrays differently (line {st.lineno})")
                src = a if ra is not None else b
                if ra is None and rb is None:
                    raise _Raised()
                self.env, self.stored, self.inst, self.nid = src.env, src.stored, src.inst, max(a.nid, b.nid)
                self.load, self.centry, self.cache_used = src.load, src.centry, src.cache_used
            return
        if isinstance(st, ast.Raise):
            raise _Raised()
        if isinstance(st, ast.Pass):
            return
        raise Unsupported(f"statement {type(st).__name__} (line {st.lineno})")

    def run(self):
        try:
            self.run_block(self.fn.body)
        except _Raised:
            raise Unsupported(f"__init__ raises for method={self.method!r}")
        if self.inst is None:
            raise Unsupported("super().__init__ is never called")
        return self


class _Raised(Exception):
    pass


def _xmode(arr: Arr, base: Arr):
    return "XRef" if arr.ident == base.ident else f"(XFresh {arr.nscale - base.nscale})" if arr.nscale >= base.nscale else None


def extract_angular(ctx: Ctx):
    src = (SRC / "angular.py").read_text()
    tree = ast.parse(src)
    cache_globals = set()
    for n in tree.body:
        tgt = None
        if isinstance(n, ast.Assign) and len(n.targets) == 1 and isinstance(n.targets[0], ast.Name):
            tgt, val = n.targets[0].id, n.value
        elif isinstance(n, ast.AnnAssign) and isinstance(n.target, ast.Name) and n.value is not None:
            tgt, val = n.target.id, n.value
        if tgt and tgt.endswith("_CACHE"):
            if not (isinstance(val, ast.Dict) and not val.keys) and not (isinstance(val, ast.Call) and isinstance(val.func, ast.Name) and val.func.id == "dict" and not val.args and not val.keywords):
                raise Unsupported(f"module-level cache {tgt} is not initialised with an empty dict")
            cache_globals.add(tgt)
    tables, table_lines = {}, set()
    for n in tree.body:
        if isinstance(n, ast.Assign) and len(n.targets) == 1 and isinstance(n.targets[0], ast.Name) and isinstance(n.value, ast.Dict) and n.value.keys \
                and all(isinstance(k, ast.Constant) and isinstance(k.value, str) for k in n.value.keys) \
                and all(isinstance(v, ast.Name) and v.id in cache_globals for v in n.value.values):
            tables[n.targets[0].id] = {k.value: v.id for k, v in zip(n.value.keys, n.value.values)}
            table_lines.update(range(n.lineno, n.end_lineno + 1))
    cls = [n for n in tree.body if isinstance(n, ast.ClassDef) and n.name == "AngularGrid"]
    if len(cls) != 1:
        raise Unsupported("class AngularGrid not found")
    init = [n for n in cls[0].body if isinstance(n, ast.FunctionDef) and n.name == "__init__"]
    if len(init) != 1:
        raise Unsupported("AngularGrid.__init__ not found")
    init = init[0]
    a = init.args
    names = [x.arg for x in a.args] + [x.arg for x in a.kwonlyargs]
    if names != ["self", "degree", "size", "cache", "method"] or a.vararg or a.kwarg:
        raise Unsupported(f"signature of AngularGrid.__init__: {names}")
    kwd = dict(zip([x.arg for x in a.kwonlyargs], a.kw_defaults))
    if not (isinstance(kwd.get("cache"), ast.Constant) and kwd["cache"].value is True):
        raise Unsupported("default of `cache` is not True")
    # every other use of the cache globals in the module (outside __init__) is unsupported
    for node in ast.walk(tree):
        if isinstance(node, ast.Name) and node.id in cache_globals:
            inside = init.lineno <= node.lineno <= init.end_lineno
            toplevel = any(isinstance(n, (ast.Assign, ast.AnnAssign)) and n.lineno == node.lineno for n in tree.body)
            if not inside and not toplevel and node.lineno not in table_lines:
                raise Unsupported(f"cache {node.id} used outside AngularGrid.__init__ (line {node.lineno})")
        if isinstance(node, ast.Name) and node.id in tables:
            if not (init.lineno <= node.lineno <= init.end_lineno) and node.lineno not in table_lines:
                raise Unsupported(f"method table {node.id} used outside AngularGrid.__init__ (line {node.lineno})")
    units = [{"unit": "AngularGrid.__init__", "file": "src/grid/angular.py", "lines": [init.lineno, init.end_lineno],
              "sha": src_sha(ast.get_source_segment(src, init))}]
    for n in cls[0].body:
        if isinstance(n, ast.FunctionDef) and n.name == "_load_precomputed_angular_grid":
            units.append({"unit": "AngularGrid._load_precomputed_angular_grid", "file": "src/grid/angular.py",
                          "lines": [n.lineno, n.end_lineno], "sha": src_sha(ast.get_source_segment(src, n))})
            for r in ast.walk(n):
                if isinstance(r, ast.Return):
                    ok = isinstance(r.value, ast.Tuple) and len(r.value.elts) == 2
                    if not ok:
                        raise Unsupported("loader does not return a pair")
    cfg = {}
    caches = {}
    for m in METHODS:
        res = {}
        for hit in (False, True):
            for flag in (True, False):
                it = InitInterp(init, m, hit, flag, cache_globals, tables).run()
                res[(hit, flag)] = it
        caches[m] = {it.cache_used for it in res.values()}
        if len(caches[m]) != 1 or None in caches[m]:
            raise Unsupported(f"method {m}: cache dictionary not uniquely determined: {caches[m]}")
        for ki, k in enumerate(KINDS):
            kk = "PW"[ki]
            # miss, cache=True
            it = res[(False, True)]
            if it.stored is None:
                raise Unsupported(f"method {m}: nothing is cached on a miss with cache=True")
            L, S, I = it.load[ki], it.stored[ki], it.inst[ki]
            if S.kind != kk or I.kind != kk:
                raise Unsupported(f"method {m}: points/weights swapped on the way to the cache or the instance")
            store = _xmode(S, L)
            if I.ident == S.ident and S.ident != L.ident:
                missc = "IAliasCache"
            else:
                x = _xmode(I, L)
                missc = None if x is None else f"(IOf {x})"
            # miss, cache=False
            it = res[(False, False)]
            if it.stored is not None:
                raise Unsupported(f"method {m}: cache written although cache=False")
            if it.inst[ki].kind != kk:
                raise Unsupported(f"method {m}: points/weights swapped")
            missn = _xmode(it.inst[ki], it.load[ki])
            # hit: both flags must agree
            h1, h2 = res[(True, True)], res[(True, False)]
            if h1.centry is None or h2.centry is None:
                raise Unsupported(f"method {m}: cache entry not used on a hit")
            if h1.inst[ki].kind != kk:
                raise Unsupported(f"method {m}: points/weights swapped on a hit")
            hit1, hit2 = _xmode(h1.inst[ki], h1.centry[ki]), _xmode(h2.inst[ki], h2.centry[ki])
            if hit1 != hit2 or h1.stored is not None or h2.stored is not None:
                raise Unsupported(f"method {m}: a cache hit depends on the cache flag or rewrites the cache")
            if None in (store, missc, missn, hit1):
                raise Unsupported(f"method {m}: negative scale bookkeeping")
            cfg[(m, k)] = {"store": store, "missc": missc, "missn": missn, "hit": hit1}
    used = [next(iter(caches[m])) for m in METHODS]
    if len(set(used)) != len(METHODS):
        raise Unsupported(f"two methods share one cache dictionary: {used}")
    return cfg, units, dict(zip(METHODS, used))


def extract_coulomb(ctx: Ctx):
    """load_atomic_gaussian_params: cache only assigned from json.load; results are fresh conversions of cached lists."""
    src = (SRC / "coulomb.py").read_text()
    tree = ast.parse(src)
    name = "_ATOMIC_GAUSS_PARAMS_CACHE"
    fn = [n for n in tree.body if isinstance(n, ast.FunctionDef) and n.name == "load_atomic_gaussian_params"]
    if len(fn) != 1:
        raise Unsupported("load_atomic_gaussian_params not found")
    fn = fn[0]
    top = [n for n in tree.body if isinstance(n, (ast.Assign, ast.AnnAssign)) and name in ast.unparse(n)]
    if len(top) != 1 or not (isinstance(getattr(top[0], "value", None), ast.Constant) and top[0].value.value is None):
        raise Unsupported(f"{name} is not a module-level variable initialised with None")
    for node in ast.walk(tree):
        if isinstance(node, ast.Name) and node.id == name and not (fn.lineno <= node.lineno <= fn.end_lineno) and node.lineno != top[0].lineno:
            raise Unsupported(f"{name} used outside load_atomic_gaussian_params (line {node.lineno})")
    data_names = set()  # names bound to (parts of) the cached JSON
    modes = None
    for node in ast.walk(fn):
        if isinstance(node, ast.Assign):
            for t in node.targets:
                if isinstance(t, ast.Name) and t.id == name:
                    v = node.value
                    if not (isinstance(v, ast.Call) and ast.unparse(v.func) == "json.load"):
                        raise Unsupported(f"{name} assigned from something else than json.load (line {node.lineno})")
                elif isinstance(t, ast.Subscript) and (name in ast.unparse(t) or any(d in [n.id for n in ast.walk(t) if isinstance(n, ast.Name)] for d in data_names)):
                    raise Unsupported(f"the cached table is modified (line {node.lineno})")
                elif isinstance(t, ast.Name) and isinstance(node.value, ast.Subscript) and ast.unparse(node.value.value) == name:
                    data_names.add(t.id)
        if isinstance(node, (ast.AugAssign, ast.Delete)) and name in ast.unparse(node):
            raise Unsupported(f"the cached table is modified (line {node.lineno})")
    # second pass for writes through `data[...] = ...` (data_names now complete)
    for node in ast.walk(fn):
        if isinstance(node, ast.Assign):
            for t in node.targets:
                if isinstance(t, ast.Subscript) and isinstance(t.value, ast.Name) and t.value.id in data_names:
                    raise Unsupported(f"the cached table is modified (line {node.lineno})")
        if isinstance(node, ast.Call) and isinstance(node.func, ast.Attribute) and isinstance(node.func.value, ast.Name) \
                and node.func.value.id in data_names | {name} and node.func.attr in ("update", "pop", "setdefault", "clear", "popitem", "__setitem__"):
            raise Unsupported(f"the cached table is modified (line {node.lineno})")
    rets = [n for n in ast.walk(fn) if isinstance(n, ast.Return)]
    if len(rets) != 1 or not isinstance(rets[0].value, ast.Tuple) or len(rets[0].value.elts) != 2:
        raise Unsupported("load_atomic_gaussian_params does not return one pair")
    binds = {}
    for node in fn.body:
        if isinstance(node, ast.Assign) and len(node.targets) == 1 and isinstance(node.targets[0], ast.Name):
            binds[node.targets[0].id] = node.value

    def mode(e, key):
        if isinstance(e, ast.Name) and e.id in binds:
            e = binds[e.id]
        if isinstance(e, ast.Call) and _is_np(e.func) and e.func.attr in ("asarray", "array") and len(e.args) == 1:
            inner = e.args[0]
            if "copy" in [k.arg for k in e.keywords]:
                raise Unsupported("np.array(..., copy=...) in the loader")
            if isinstance(inner, ast.Subscript) and isinstance(inner.value, ast.Name) and inner.value.id in data_names \
                    and isinstance(inner.slice, ast.Constant) and inner.slice.value == key:
                return "(XFresh 0)"  # the JSON holds Python lists: the conversion allocates a new array
        if isinstance(e, ast.Subscript) and isinstance(e.value, ast.Name) and e.value.id in data_names \
                and isinstance(e.slice, ast.Constant) and e.slice.value == key:
            return "XRef"
        raise Unsupported(f"returned value for {key} is not a conversion of the cached list (line {e.lineno})")

    modes = {"KP": mode(rets[0].value.elts[0], "coeffs_s"), "KW": mode(rets[0].value.elts[1], "alphas_s")}
    units = [{"unit": "load_atomic_gaussian_params", "file": "src/grid/coulomb.py", "lines": [fn.lineno, fn.end_lineno],
              "sha": src_sha(ast.get_source_segment(src, fn))}]
    cfg = {("coulomb", k): {"store": "XRef", "missc": f"(IOf {modes[k]})", "missn": modes[k], "hit": modes[k]} for k in KINDS}
    return cfg, units


FRESH_BINOPS = (ast.Mult, ast.MatMult, ast.Add, ast.Sub, ast.Div, ast.Pow)


def check_atomgrid(ctx: Ctx):
    """_generate_atomic_grid / get_shell_grid: the angular grid's arrays are only read; what leaves the function is
    a new array.  Also: every AngularGrid(...) call in atomgrid.py uses the default cache flag (or a constant)."""
    src = (SRC / "atomgrid.py").read_text()
    tree = ast.parse(src)
    cls = [n for n in tree.body if isinstance(n, ast.ClassDef) and n.name == "AtomGrid"]
    if len(cls) != 1:
        raise Unsupported("class AtomGrid not found")
    fns = {n.name: n for n in cls[0].body if isinstance(n, ast.FunctionDef)}
    units = []
    flags = set()
    for node in ast.walk(tree):
        if isinstance(node, ast.Call) and isinstance(node.func, ast.Name) and node.func.id == "AngularGrid":
            kw = {k.arg: k.value for k in node.keywords}
            if "cache" in kw:
                if not (isinstance(kw["cache"], ast.Constant) and isinstance(kw["cache"].value, bool)):
                    raise Unsupported(f"AngularGrid(cache=<non-constant>) (line {node.lineno})")
                flags.add(kw["cache"].value)
            else:
                flags.add(True)
            if "size" in kw or len(node.args) > 1:
                raise Unsupported(f"AngularGrid called with size / positional arguments (line {node.lineno})")
    if len(flags) != 1:
        raise Unsupported(f"AngularGrid(...) calls in atomgrid.py use different cache flags: {flags}")
    libcache = flags.pop()

    def analyse(fn, var, out_attrs):
        """var: name bound to AngularGrid(...).  Returns dict attr-> 'fresh'|'alias' for arrays leaving via `var.attr = x`."""
        alias = set()  # names that may refer to var.points / var.weights
        out = {}

        def is_src(e):
            return isinstance(e, ast.Attribute) and isinstance(e.value, ast.Name) and e.value.id == var and e.attr in ("points", "weights")

        def mentions(e):
            return any((isinstance(n, ast.Name) and n.id in alias) or is_src(n) for n in ast.walk(e))

        def cls_expr(e):
            """'alias' | 'fresh' | 'other'"""
            if is_src(e) or (isinstance(e, ast.Name) and e.id in alias):
                return "alias"
            if not mentions(e):
                return "other"
            if isinstance(e, ast.BinOp) and isinstance(e.op, FRESH_BINOPS):
                return "fresh"
            if isinstance(e, ast.Call) and isinstance(e.func, ast.Attribute):
                if e.func.attr in ("copy", "dot", "astype") and cls_expr(e.func.value) in ("alias", "fresh") and "copy" not in [k.arg for k in e.keywords]:
                    return "fresh"
                if _is_np(e.func) and e.func.attr in ("copy", "array", "vstack", "hstack", "concatenate", "dot", "matmul", "multiply") and not any(k.arg in ("out", "copy") for k in e.keywords):
                    return "fresh"
                if _is_np(e.func) and e.func.attr in ("asarray", "atleast_2d", "atleast_1d", "reshape", "ravel", "transpose"):
                    return "alias"
            if isinstance(e, ast.Attribute) and e.attr == "T" and cls_expr(e.value) == "alias":
                return "alias"
            if isinstance(e, ast.Subscript) and cls_expr(e.value) == "alias":
                return "alias"  # a view
            raise Unsupported(f"{fn.name}: unsupported use of an angular-grid array: {ast.unparse(e)[:60]} (line {e.lineno})")

        def do(stmts):
            for st in stmts:
                if isinstance(st, ast.Assign):
                    vals = st.value.elts if isinstance(st.value, ast.Tuple) else None
                    for t in st.targets:
                        tgts = t.elts if isinstance(t, ast.Tuple) else [t]
                        vs = vals if (vals is not None and isinstance(t, ast.Tuple) and len(vals) == len(tgts)) else [st.value] * len(tgts)
                        kinds = [cls_expr(v) for v in vs]
                        for tt, kd in zip(tgts, kinds):
                            if isinstance(tt, ast.Name):
                                if tt.id == var and kd != "other":
                                    raise Unsupported(f"{fn.name}: {var} rebound (line {st.lineno})")
                                (alias.add if kd == "alias" else alias.discard)(tt.id)
                            elif isinstance(tt, ast.Attribute) and isinstance(tt.value, ast.Name) and tt.value.id == var and tt.attr in ("points", "weights"):
                                out[tt.attr] = "alias" if kd == "alias" else "fresh"
                            elif isinstance(tt, ast.Subscript):
                                if cls_expr(tt.value) == "alias":
                                    raise NeedsPrivate(f"{fn.name}: element assignment into an angular-grid array (line {st.lineno})")
                                if kd == "alias":
                                    raise NeedsPrivate(f"{fn.name}: angular-grid array stored in a container (line {st.lineno})")
                            elif kd == "alias":
                                raise Unsupported(f"{fn.name}: angular-grid array stored in {ast.unparse(tt)} (line {st.lineno})")
                elif isinstance(st, ast.AugAssign):
                    if (isinstance(st.target, ast.Name) and st.target.id in alias) or is_src(st.target) or \
                            (isinstance(st.target, ast.Subscript) and mentions(st.target.value)):
                        raise NeedsPrivate(f"{fn.name}: in-place update of an angular-grid array (line {st.lineno})")
                    if mentions(st.value):
                        cls_expr(st.value)
                elif isinstance(st, ast.If):
                    before = set(alias)
                    do(st.body)
                    a1 = set(alias)
                    alias.clear()
                    alias.update(before)
                    do(st.orelse)
                    alias.update(a1)
                elif isinstance(st, ast.For):
                    do(st.body)
                    do(st.body)  # second pass: loop-carried aliases
                    do(st.orelse)
                elif isinstance(st, ast.Expr):
                    v = st.value
                    if isinstance(v, ast.Call) and isinstance(v.func, ast.Attribute) and v.func.attr == "append" and len(v.args) == 1:
                        if cls_expr(v.args[0]) == "alias":
                            raise NeedsPrivate(f"{fn.name}: angular-grid array appended without a copy (line {st.lineno})")
                    elif mentions(v):
                        raise Unsupported(f"{fn.name}: angular-grid array passed to {ast.unparse(v)[:40]} (line {st.lineno})")
                elif isinstance(st, ast.Return):
                    if st.value is not None and mentions(st.value) and cls_expr(st.value) == "alias":
                        raise NeedsPrivate(f"{fn.name}: returns an angular-grid array by reference (line {st.lineno})")
                elif isinstance(st, (ast.Raise, ast.Pass)):
                    pass
                elif isinstance(st, (ast.With, ast.Try)):
                    do(st.body)
                else:
                    if any(mentions(n) for n in ast.walk(st) if isinstance(n, ast.expr)):
                        raise Unsupported(f"{fn.name}: statement {type(st).__name__} touches an angular-grid array (line {st.lineno})")

        do(fn.body)
        return out

    for name in ("_generate_atomic_grid", "get_shell_grid"):
        if name not in fns:
            raise Unsupported(f"AtomGrid.{name} not found")
        fn = fns[name]
        units.append({"unit": f"AtomGrid.{name}", "file": "src/grid/atomgrid.py", "lines": [fn.lineno, fn.end_lineno],
                      "sha": src_sha(ast.get_source_segment(src, fn))})
        binders = [st for st in ast.walk(fn) if isinstance(st, ast.Assign) and isinstance(st.value, ast.Call)
                   and isinstance(st.value.func, ast.Name) and st.value.func.id == "AngularGrid"]
        if len(binders) != 1 or not isinstance(binders[0].targets[0], ast.Name):
            raise Unsupported(f"{name}: expected exactly one `x = AngularGrid(...)`")
        out = analyse(fn, binders[0].targets[0].id, None)
        if name == "get_shell_grid":
            if out.get("points") != "fresh" or out.get("weights") != "fresh":
                raise NeedsPrivate(f"get_shell_grid returns the angular grid with its own arrays: {out}")
            rets = [n for n in ast.walk(fn) if isinstance(n, ast.Return)]
            if not all(isinstance(r.value, ast.Name) and r.value.id == binders[0].targets[0].id for r in rets):
                raise Unsupported("get_shell_grid does not return the angular grid object")
    return libcache, units


T_CLASSES = [("LinearInfiniteRTransform", "TLinearInf"), ("ExpRTransform", "TExp"), ("PowerRTransform", "TPower")]
T_CALLS = [("transform", "CTransform"), ("deriv", "CDeriv"), ("deriv2", "CDeriv2"), ("deriv3", "CDeriv3"), ("inverse", "CInverse")]


def extract_transforms(ctx: Ctx):
    src = (SRC / "rtransform.py").read_text()
    tree = ast.parse(src)
    units, sets, guard, uses = [], {}, {}, {}
    stateful = {c for c, _ in T_CLASSES}
    for cls in [n for n in tree.body if isinstance(n, ast.ClassDef)]:
        fns = {n.name: n for n in cls.body if isinstance(n, ast.FunctionDef)}
        for fname, fn in fns.items():
            if fname == "__init__":
                continue
            for node in ast.walk(fn):
                tg = []
                if isinstance(node, ast.Assign):
                    tg = node.targets
                elif isinstance(node, (ast.AugAssign, ast.AnnAssign)):
                    tg = [node.target]
                for t in tg:
                    for sub in ast.walk(t):
                        if isinstance(sub, ast.Attribute) and isinstance(sub.value, ast.Name) and sub.value.id == "self":
                            if not (cls.name in stateful and fname == "set_maximum_parameter_b" and sub.attr == "_b"):
                                raise Unsupported(f"{cls.name}.{fname} writes self.{sub.attr} (line {node.lineno}): remembered state outside the model")
                if isinstance(node, ast.Call) and isinstance(node.func, ast.Name) and node.func.id in ("setattr",):
                    raise Unsupported(f"{cls.name}.{fname} uses setattr (line {node.lineno})")
    for cname, coq in T_CLASSES:
        cls = [n for n in tree.body if isinstance(n, ast.ClassDef) and n.name == cname]
        if len(cls) != 1:
            raise Unsupported(f"class {cname} not found")
        fns = {n.name: n for n in cls[0].body if isinstance(n, ast.FunctionDef)}
        sm = fns.get("set_maximum_parameter_b")
        if sm is None or [a.arg for a in sm.args.args] != ["self", "x"]:
            raise Unsupported(f"{cname}.set_maximum_parameter_b(self, x) not found")
        body = [s for s in sm.body if not (isinstance(s, ast.Expr) and isinstance(s.value, ast.Constant))]

        def is_setb(s):
            return isinstance(s, ast.Assign) and len(s.targets) == 1 and ast.unparse(s.targets[0]) == "self._b" and ast.unparse(s.value) in ("np.max(x)", "x.max()", "np.amax(x)")

        def is_zero_check(s):
            return isinstance(s, ast.If) and not s.orelse and len(s.body) == 1 and isinstance(s.body[0], ast.Raise) \
                and ast.unparse(s.test) in ("np.abs(self.b) < 1e-16", "np.abs(self._b) < 1e-16", "abs(self.b) < 1e-16", "abs(self._b) < 1e-16")

        if len(body) == 1 and isinstance(body[0], ast.If) and not body[0].orelse and ast.unparse(body[0].test) in ("self.b is None", "self._b is None") \
                and len(body[0].body) == 2 and is_setb(body[0].body[0]) and is_zero_check(body[0].body[1]):
            guard[coq] = True
        elif len(body) == 2 and is_setb(body[0]) and is_zero_check(body[1]):
            guard[coq] = False
        else:
            raise Unsupported(f"{cname}.set_maximum_parameter_b has an unsupported body")
        bprop = fns.get("b")
        if bprop is None or ast.unparse(bprop.body[-1]) != "return self._b":
            raise Unsupported(f"{cname}.b is not `return self._b`")
        init = fns["__init__"]
        if not any(isinstance(s, ast.Assign) and ast.unparse(s.targets[0]) == "self._b" and ast.unparse(s.value) == "b" for s in init.body):
            raise Unsupported(f"{cname}.__init__ does not store b")
        units.append({"unit": f"{cname}.set_maximum_parameter_b", "file": "src/grid/rtransform.py", "lines": [sm.lineno, sm.end_lineno],
                      "sha": src_sha(ast.get_source_segment(src, sm))})
        for meth, ccoq in T_CALLS:
            fn = fns.get(meth)
            if fn is None:
                raise Unsupported(f"{cname}.{meth} not found")
            arg = fn.args.args[1].arg
            calls = [n for n in ast.walk(fn) if isinstance(n, ast.Call) and isinstance(n.func, ast.Attribute) and n.func.attr == "set_maximum_parameter_b"]
            if calls:
                body = [s for s in fn.body if not (isinstance(s, ast.Expr) and isinstance(s.value, ast.Constant))]
                first = body[0]
                if len(calls) != 1 or not (isinstance(first, ast.Expr) and first.value is calls[0] and ast.unparse(calls[0]) == f"self.set_maximum_parameter_b({arg})"):
                    raise Unsupported(f"{cname}.{meth}: set_maximum_parameter_b is not the first statement applied to the argument")
            sets[(coq, ccoq)] = bool(calls)
        # which methods' results depend on the scale: they read self.b / self._b, directly or through other methods of
        # the object (set_maximum_parameter_b's own test of b does not count)
        reads, callees = {}, {}
        for fname, fn in fns.items():
            if fname in ("__init__", "set_maximum_parameter_b", "b"):
                continue
            reads[fname] = any(isinstance(n, ast.Attribute) and isinstance(n.value, ast.Name) and n.value.id == "self" and n.attr in ("b", "_b")
                               and isinstance(n.ctx, ast.Load) for n in ast.walk(fn))
            callees[fname] = {n.func.attr for n in ast.walk(fn) if isinstance(n, ast.Call) and isinstance(n.func, ast.Attribute)
                              and isinstance(n.func.value, ast.Name) and n.func.value.id == "self"} - {"set_maximum_parameter_b"}
            for n in ast.walk(fn):
                if isinstance(n, ast.Call) and isinstance(n.func, ast.Name) and n.func.id in ("getattr", "vars") and any(
                        isinstance(a, ast.Name) and a.id == "self" for a in n.args):
                    raise Unsupported(f"{cname}.{fname} inspects self dynamically (line {n.lineno})")
        changed = True
        while changed:
            changed = False
            for fname in reads:
                if not reads[fname] and any(reads.get(c, False) for c in callees[fname]):
                    reads[fname] = changed = True
        for meth, ccoq in T_CALLS:
            uses[(coq, ccoq)] = bool(reads.get(meth, False))
    return sets, guard, units, uses


def coq_gen_text(cfg, libcache, sets, guard, uses):
    def table(field, ctor=None):
        rows = []
        for (m, k), v in cfg.items():
            rows.append(f"    | {COQ_M[m]}, {k} => {v[field]}")
        return "fun m k => match m, k with\n" + "\n".join(rows) + "\n    end"

    t = ["(* generated from /repo/src/grid/{angular,atomgrid,coulomb,rtransform}.py on every run; do not edit *)",
         "From Coq Require Import List Arith Bool ZArith.", "From P Require Import C19_model.",
         "Definition cfg_src : cfg := {|",
         f"  c_store := {table('store')};", f"  c_missc := {table('missc')};", f"  c_missn := {table('missn')};",
         f"  c_hit := {table('hit')};", f"  c_libcache := {'true' if libcache else 'false'} |}}.",
         "Definition tcfg_src : tcfg := {|", "  t_sets := fun t c => match t, c with"]
    for (tk, c), v in sets.items():
        t.append(f"    | {tk}, {c} => {'true' if v else 'false'}")
    t.append("    end;")
    t.append("  t_uses := fun t c => match t, c with")
    for (tk, c), v in uses.items():
        t.append(f"    | {tk}, {c} => {'true' if v else 'false'}")
    t.append("    end;")
    t.append("  t_guard := fun t => match t with " + " ".join(f"| {tk} => {'true' if g else 'false'}" for tk, g in guard.items()) + " end |}.")
    return "\n".join(t) + "\n"


# ====================================================================== implementation harness
DEG_POOL = {"lebedev": [3, 4, 5, 7], "spherical": [1, 3, 4, 5], "maxdet": [1, 2, 3, 5, 14], "ahrens_beylkin": [5, 14, 19]}
WITNESS_DEG = {"lebedev": 5, "spherical": 5, "maxdet": 5, "ahrens_beylkin": 14, "coulomb": 6}
ELEMENTS = {1: "H", 6: "C", 7: "N", 8: "O", 17: "Cl"}
RAD_PTS = [0.5, 1.0, 1.75]
RAD_WTS = [0.25, 0.5, 0.125]
TINY = 1e-9
DATA_DIR = {"lebedev": "lebedev", "spherical": "spherical_design", "maxdet": "maxdet", "ahrens_beylkin": "ahrens_beylkin"}
FOURPI = None


def fillval(tag):
    return 1000.0 + tag


def scale4pi(a):
    return a * 4 * np.pi


class Impl:
    """Runs API histories on the implementation; knows where the module-level state lives."""

    def __init__(self, cache_names):
        import grid.angular as A
        import grid.atomgrid as AT
        import grid.basegrid as B
        import grid.coulomb as C
        import grid.molgrid as M

        self.A, self.AT, self.B, self.C, self.M = A, AT, B, C, M
        self.cache_names = cache_names
        self.pristine_memo = {}
        self.raw_memo = {}
        self.json_raw = json.loads((SRC / "data" / "atomic_gauss_params.json").read_text())

    # ---- module state
    def caches(self):
        return {m: getattr(self.A, self.cache_names[m]) for m in METHODS}

    def all_cache_dicts(self):
        ds = [v for k, v in vars(self.A).items() if k.endswith("_CACHE") and isinstance(v, dict)]
        return ds + [c for c in self.caches().values() if not any(c is d for d in ds)]

    def reset(self):
        for c in self.all_cache_dicts():
            c.clear()
        self.C._ATOMIC_GAUSS_PARAMS_CACHE = None

    def pristine(self, key, fn):
        """Value of fn() in a process state with empty caches (the live caches are put back afterwards)."""
        if key in self.pristine_memo:
            return self.pristine_memo[key]
        saved = [(c, dict(c)) for c in self.all_cache_dicts()]
        sc = self.C._ATOMIC_GAUSS_PARAMS_CACHE
        for c, _ in saved:
            c.clear()
        self.C._ATOMIC_GAUSS_PARAMS_CACHE = None
        try:
            with warnings.catch_warnings():
                warnings.simplefilter("ignore")
                v = fn()
        finally:
            for c, s in saved:
                c.clear()
                c.update(s)
            self.C._ATOMIC_GAUSS_PARAMS_CACHE = sc
        self.pristine_memo[key] = v
        return v

    # ---- reference data
    def resolve(self, m, dreq):
        d, size = self.A.AngularGrid._get_degree_and_size(degree=dreq, size=None, method=m)
        return int(d), int(size)

    def raw(self, m, d):
        """The shipped file, read here (not through the library's loader)."""
        if (m, d) not in self.raw_memo:
            if m == "coulomb":
                e = self.json_raw[ELEMENTS[d]]
                self.raw_memo[(m, d)] = (np.asarray(e["coeffs_s"], dtype=float), np.asarray(e["alphas_s"], dtype=float))
            else:
                _, size = self.resolve(m, d)
                f = SRC / "data" / DATA_DIR[m] / f"{m}_{d}_{size}.npz"
                if self.resolve(m, d)[0] != d or not f.exists():
                    self.raw_memo[(m, d)] = None  # no such grid is shipped (a cache key that should not exist)
                    return None
                with np.load(f) as z:
                    p, w = np.array(z["points"]), np.array(z["weights"])
                if len(w) == 1:
                    w = np.ones(len(p)) * w
                self.raw_memo[(m, d)] = (p, w)
        return self.raw_memo[(m, d)]

    def inst(self, m, d):
        """Arrays of the grid in a fresh process state."""
        if m == "coulomb":
            return self.pristine(("inst", m, d), lambda: tuple(np.array(a) for a in self.C.load_atomic_gaussian_params(d)))

        def f():
            g = self.A.AngularGrid(degree=d, method=m, cache=False)
            return (np.array(g.points), np.array(g.weights))

        return self.pristine(("inst", m, d), f)

    def rgrid(self, n, tiny):
        pts = np.array(([TINY] if tiny else []) + RAD_PTS)[:n]
        wts = np.array(([0.375] if tiny else []) + RAD_WTS)[:n]
        return self.B.OneDGrid(pts, wts, (0, np.inf))

    def make_atom(self, m, dreqs, rot, tiny):
        return self.AT.AtomGrid(self.rgrid(len(dreqs), tiny), degrees=list(dreqs), method=m, rotate=rot)

    def atom_ref(self, m, dreqs, rot, tiny):
        """The atomic grid assembled from one-shell atomic grids, each built in a state with empty caches (so every
        angular grid in it is a first construction); rotate + i is the rotation seed of shell i."""
        key = ("atom", m, tuple(dreqs), rot, tiny)
        if key in self.pristine_memo:
            return self.pristine_memo[key]
        full = self.rgrid(len(dreqs), tiny)
        ps, ws, idx, ds = [], [], [0], []
        for i, d in enumerate(dreqs):
            def f(i=i, d=d):
                rg = self.B.OneDGrid(full.points[i:i + 1].copy(), full.weights[i:i + 1].copy(), (0, np.inf))
                a = self.AT.AtomGrid(rg, degrees=[d], method=m, rotate=(rot + i if rot else 0))
                return (np.array(a.points), np.array(a.weights), int(a.degrees[0]))

            p, w, dd = self.pristine(key + ("shell", i), f)
            ps.append(p)
            ws.append(w)
            ds.append(dd)
            idx.append(idx[-1] + len(w))
        v = (np.vstack(ps), np.hstack(ws), idx, ds)
        self.pristine_memo[key] = v
        return v

    def shell_ref(self, m, dreqs, rot, tiny, i, r_sq):
        def f():
            a = self.make_atom(m, dreqs, rot, tiny)
            for c in self.caches().values():
                c.clear()
            s = a.get_shell_grid(i, r_sq=r_sq)
            return (np.array(s.points), np.array(s.weights))

        return self.pristine(("shell", m, tuple(dreqs), rot, tiny, i, r_sq), f)


def coq_ship(m, d, k, n=0):
    t = f"(Ship {COQ_M[m]} {d} {k})"
    for _ in range(n):
        t = f"(Scale4pi {t})"
    return t


UNKNOWN_BLOCK = "(Filled 999999)"


class Run:
    """One history on the implementation: objects, tracked arrays, observations, model operations."""

    def __init__(self, impl: Impl, spec_n):
        self.impl = impl
        self.spec_n = spec_n  # (m, k) -> 0/1, read from the model's spec (hand-written there)
        self.objs = []  # dicts
        self.keys = []  # chronological cache keys (m, d)
        self.tags = []
        self.params_seen = []
        impl.reset()

    # ---- classification of one array
    def exact(self, arr, m, d, k):
        """Coq `val` of a one-block array that should hold data of (m, d, k)."""
        try:
            a = np.asarray(arr, dtype=float)
        except Exception:
            return f"[{UNKNOWN_BLOCK}]"
        ki = 0 if k == "KP" else 1
        try:
            rawpair = self.impl.raw(m, d)
        except Exception:  # noqa: BLE001
            rawpair = None
        if rawpair is None:
            return f"[{UNKNOWN_BLOCK}]"
        raw = rawpair[ki]
        if a.shape != raw.shape:
            return f"[{UNKNOWN_BLOCK}]"
        b = a.tobytes()
        cands = [(coq_ship(m, d, k, 0), raw), (coq_ship(m, d, k, 1), scale4pi(raw)), (coq_ship(m, d, k, 2), scale4pi(scale4pi(raw)))]
        pi_ = self.impl.inst(m, d)[ki]
        cands.append((coq_ship(m, d, k, self.spec_n[(m, k)]), pi_))
        for t in self.tags:
            f = np.full(raw.shape, fillval(t))
            cands += [(f"(Filled {t})", f), (f"(Scale4pi (Filled {t}))", scale4pi(f)), (f"(Scale4pi (Scale4pi (Filled {t})))", scale4pi(scale4pi(f)))]
        for term, c in cands:
            if c.tobytes() == b:
                return f"[{term}]"
        return f"[{UNKNOWN_BLOCK}]"

    def flags(self, arr, ref, idx):
        a = np.asarray(arr)
        if a.shape != ref.shape:
            return [False] * (len(idx) - 1)
        return [a[idx[j]:idx[j + 1]].tobytes() == ref[idx[j]:idx[j + 1]].tobytes() for j in range(len(idx) - 1)]

    def obs_of(self, o, ki):
        arr = o["get"][ki]()
        k = KINDS[ki]
        if o["kind"] in ("ang", "params"):
            return "OExact " + self.exact(arr, o["m"], o["d"], k)
        fl = self.flags(arr, o["ref"][ki], o["idx"])
        return "OFlags [" + "; ".join("true" if x else "false" for x in fl) + "]"

    # ---- cache entries
    def update_keys(self):
        live = []
        for m, c in self.impl.caches().items():
            for d in c.keys():
                live.append((m, int(d)))
        cj = self.impl.C._ATOMIC_GAUSS_PARAMS_CACHE
        if isinstance(cj, dict):
            for z in self.params_seen:
                if ELEMENTS[z] in cj:
                    live.append(("coulomb", z))
        self.keys = [k for k in self.keys if k in live] + [k for k in live if k not in self.keys]

    def cache_arrays(self, key):
        m, d = key
        if m == "coulomb":
            e = self.impl.C._ATOMIC_GAUSS_PARAMS_CACHE[ELEMENTS[d]]
            return e["coeffs_s"], e["alphas_s"]
        ent = self.impl.caches()[m][d]
        return ent[0], ent[1]

    # ---- snapshot
    def snapshot(self, ints=()):
        self.update_keys()
        arrays, vals = [], []
        for o in self.objs:
            for ki in (0, 1):
                arrays.append(o["get"][ki]())
                vals.append(self.obs_of(o, ki))
        for key in self.keys:
            try:
                cp, cw = self.cache_arrays(key)
            except Exception:
                cp, cw = None, None
            for ki, a in enumerate((cp, cw)):
                arrays.append(a)
                vals.append("OExact " + self.exact(a, key[0], key[1], KINDS[ki]))
        share = canon_sharing(arrays)
        keys = "; ".join(f"({COQ_M[m]}, {d})" for m, d in self.keys)
        it = "; ".join(f"({o}, {'true' if f else 'false'})" for o, f in ints)
        return ("{| sn_vals := [" + "; ".join(vals) + "]; sn_share := [" + "; ".join(str(i) for i in share)
                + f"]; sn_keys := [{keys}]; sn_int := [{it}] |}}")

    # ---- operations.  Each returns the list of model operations (Coq terms) it stands for.
    def do(self, op):
        kind = op[0]
        I = self.impl
        with warnings.catch_warnings():
            warnings.simplefilter("ignore")
            if kind == "ang":
                m, dreq, flag = op[1], op[2], op[3]
                if len(op) > 4 and op[4] == "size":  # the same grid requested through its number of points
                    g = I.A.AngularGrid(size=I.resolve(m, dreq)[1], method=m, cache=bool(flag))
                else:
                    g = I.A.AngularGrid(degree=dreq, method=m, cache=bool(flag))
                d = int(g.degree)
                self.objs.append({"kind": "ang", "m": m, "d": d, "obj": g, "get": (lambda g=g: g.points, lambda g=g: g.weights)})
                return [f"Construct {COQ_M[m]} {d} {'true' if flag else 'false'}"], ()
            if kind == "params":
                z = op[1]
                form = op[2] if len(op) > 2 else "num"
                arg = {"num": z, "sym": ELEMENTS[z], "lower": ELEMENTS[z].lower(), "npint": np.int64(z)}[form]
                c, a = I.C.load_atomic_gaussian_params(arg)
                if z not in self.params_seen:
                    self.params_seen.append(z)
                self.objs.append({"kind": "params", "m": "coulomb", "d": z, "obj": (c, a), "get": (lambda c=c: c, lambda a=a: a)})
                return [f"Construct Coulomb {z} true"], ()
            if kind in ("mut", "set"):
                _, k, oi, tag = op
                if not (0 <= oi < len(self.objs)):
                    return [], ()
                o = self.objs[oi]
                ki = 0 if k == "P" else 1
                if tag not in self.tags:
                    self.tags.append(tag)
                if kind == "mut":
                    arr = o["get"][ki]()
                    arr[...] = fillval(tag)
                    if o["kind"] == "atom" and ki == 0:
                        return [], ()  # AtomGrid.points returns `_points + center`: a new array on every access
                    return [f"Mut{k} {oi} {tag}"], ()
                if o["kind"] not in ("ang", "shell"):
                    return [], ()
                new = np.full(o["get"][ki]().shape, fillval(tag))
                if ki == 0:
                    o["obj"].points = new
                else:
                    o["obj"].weights = new
                return [f"Set{k} {oi} {tag}"], ()
            if kind == "atom":
                _, m, dreqs, rot, tiny = op
                a = I.make_atom(m, dreqs, rot, tiny)
                ds = [int(x) for x in a.degrees]
                rp, rw, idx, rds = I.atom_ref(m, dreqs, rot, tiny)
                if ds != rds or [int(i) for i in a.indices] != idx:
                    idx = [int(i) for i in a.indices]
                self.objs.append({"kind": "atom", "m": m, "ds": ds, "spec": (m, tuple(dreqs), rot, tiny), "obj": a, "ref": (rp, rw), "idx": idx,
                                  "get": (lambda a=a: a.points, lambda a=a: a.weights)})
                return [f"MkAtom {COQ_M[m]} [{'; '.join(str(d) for d in ds)}]"], ()
            if kind == "shell":
                _, ai, i, r_sq = op
                if not (0 <= ai < len(self.objs)) or self.objs[ai]["kind"] != "atom" or not (0 <= i < len(self.objs[ai]["ds"])):
                    return [], ()
                at = self.objs[ai]
                s = at["obj"].get_shell_grid(i, r_sq=bool(r_sq))
                ref = I.shell_ref(*at["spec"], i, bool(r_sq))
                self.objs.append({"kind": "shell", "obj": s, "ref": ref, "idx": [0, len(ref[1])],
                                  "get": (lambda s=s: s.points, lambda s=s: s.weights)})
                return [f"Shell {ai} {i}"], ()
            if kind == "mol":
                _, ais, store = op
                ais = [a for a in ais if 0 <= a < len(self.objs) and self.objs[a]["kind"] == "atom"]
                if not ais:
                    return [], ()
                ats = [self.objs[a] for a in ais]
                total = sum(o["obj"].size for o in ats)
                mg = I.M.MolGrid(np.ones(len(ats), dtype=int), [o["obj"] for o in ats], np.ones(total), store=bool(store))
                refp = np.vstack([o["ref"][0] for o in ats])
                refw = np.hstack([o["ref"][1] for o in ats])
                idx, off = [0], 0
                for o in ats:
                    idx += [off + j for j in o["idx"][1:]]
                    off += o["idx"][-1]
                self.objs.append({"kind": "mol", "obj": mg, "ref": (refp, refw), "idx": idx, "get": (lambda g=mg: g.points, lambda g=mg: g.weights)})
                return [f"MkMol [{'; '.join(str(a) for a in ais)}]"], ()
            if kind == "int":
                _, oi = op
                if not (0 <= oi < len(self.objs)) or self.objs[oi]["kind"] == "params":
                    return [], ()
                o = self.objs[oi]
                w = o["get"][1]()
                val = o["obj"].integrate(np.ones(len(w)))
                refw = I.inst(o["m"], o["d"])[1] if o["kind"] == "ang" else o["ref"][1]
                clean = I.B.Grid(np.zeros((len(refw), 3)), np.array(refw)).integrate(np.ones(len(refw)))
                return [], ((oi, bool(np.asarray(val).tobytes() == np.asarray(clean).tobytes())),)
            if kind == "angcoords":
                _, ai = op
                if not (0 <= ai < len(self.objs)) or self.objs[ai]["kind"] != "atom":
                    return [], ()
                at = self.objs[ai]
                a = at["obj"]
                a.integrate_angular_coordinates(np.ones(a.size))
                rp = a.rgrid.points
                return [f"Touch {COQ_M[at['m']]} {at['ds'][i]}" for i in range(len(rp)) if rp[i] < 1e-8], ()
        raise ValueError(f"unknown operation {op!r}")

    def run(self, ops):
        """-> list of (model ops, snapshot) Coq terms, or raises."""
        trace = []
        self.direct_fail = None
        for i, op in enumerate(ops):
            n0 = len(self.objs)
            mops, ints = self.do(op)
            if self.direct_fail is None and len(self.objs) > n0 and self.objs[-1]["kind"] != "mol":
                try:
                    if not last_object_clean(self)[0]:
                        self.direct_fail = i
                except Exception:  # noqa: BLE001
                    pass
            trace.append("([" + "; ".join(mops) + "], " + self.snapshot(ints) + ")")
        return trace


try:
    from numpy.lib.array_utils import byte_bounds as _byte_bounds
except Exception:  # NumPy < 2
    _byte_bounds = np.byte_bounds


def canon_sharing(arrays):
    """index of the first tracked array each array shares memory with."""
    info = []
    for a in arrays:
        if isinstance(a, np.ndarray):
            lo, hi = _byte_bounds(a) if a.size else (id(a), id(a))
            info.append((lo, hi, a))
        else:
            info.append((None, None, a))
    out = []
    for i, (lo, hi, a) in enumerate(info):
        r = i
        for j in range(i):
            lo2, hi2, b = info[j]
            if lo is None or lo2 is None:
                if a is b and a is not None:
                    r = j
                    break
                continue
            if lo < hi2 and lo2 < hi and np.shares_memory(a, b):
                r = j
                break
        out.append(r)
    return out


# ====================================================================== random histories
def gen_history(rng, maxlen=12):
    n = rng.randint(2, maxlen)
    ms = rng.sample(METHODS, rng.choice([1, 1, 2, 2, 3]))
    pool = []
    for m in ms:
        for d in rng.sample(DEG_POOL[m], rng.choice([1, 2, 2])):
            pool.append((m, d))
    ops, kinds, tag = [], [], 0
    atoms = []
    while len(ops) < n:
        r = rng.random()
        no = len(kinds)
        if r < 0.30 or no == 0:
            m, d = rng.choice(pool)
            ops.append(["ang", m, d, rng.random() < 0.7] + (["size"] if rng.random() < 0.15 else []))
            kinds.append("ang")
        elif r < 0.52:
            oi = rng.randrange(no) if rng.random() < 0.8 else rng.randrange(no + 1)
            ops.append(["mut", rng.choice("PW"), oi, tag])
            tag += 1
        elif r < 0.57:
            cand = [i for i, k in enumerate(kinds) if k in ("ang", "shell")]
            if cand:
                ops.append(["set", rng.choice("PW"), rng.choice(cand), tag])
                tag += 1
        elif r < 0.68:
            m = rng.choice(ms)
            ns = rng.choice([1, 2, 2, 3])
            ds = [rng.choice([d for mm, d in pool if mm == m] + [rng.choice(DEG_POOL[m])]) for _ in range(ns)]
            ops.append(["atom", m, ds, rng.choice([0, 0, 7]), rng.random() < 0.3])
            atoms.append(no)
            kinds.append("atom")
        elif r < 0.75:
            if atoms:
                ops.append(["shell", rng.choice(atoms), rng.randrange(3), rng.random() < 0.7])
                kinds.append("shell?")
        elif r < 0.80:
            if atoms:
                ops.append(["mol", [rng.choice(atoms) for _ in range(rng.choice([1, 2]))], rng.random() < 0.5])
                kinds.append("mol")
        elif r < 0.86:
            ops.append(["int", rng.randrange(no)])
        elif r < 0.91:
            if atoms:
                ops.append(["angcoords", rng.choice(atoms)])
        else:
            ops.append(["params", rng.choice(list(ELEMENTS)), rng.choice(["num", "num", "sym", "lower"])])
            kinds.append("params")
    return fix_indices(ops)


def fix_indices(ops):
    """Make object indices refer to objects the harness really creates (a shell of a missing index creates none)."""
    kinds = []
    out = []
    for op in ops:
        op = list(op)
        k = op[0]
        if k == "ang":
            kinds.append(("ang", None))
        elif k == "params":
            kinds.append(("params", None))
        elif k == "atom":
            kinds.append(("atom", len(op[2])))
        elif k == "shell":
            ai = op[1]
            if 0 <= ai < len(kinds) and kinds[ai][0] == "atom" and 0 <= op[2] < kinds[ai][1]:
                kinds.append(("shell", None))
        elif k == "mol":
            if any(0 <= a < len(kinds) and kinds[a][0] == "atom" for a in op[1]):
                kinds.append(("mol", None))
        out.append(op)
    return out


HEADER = """From Coq Require Import List Arith Bool ZArith.
From P Require Import C19_model C19_gen.
Import ListNotations.
"""


def trace_term(trace):
    return "[" + ";\n   ".join(trace) + "]"


# ====================================================================== rendering of histories for humans / keys
def py_of_history(ops):
    """A Python snippet equivalent to the history (for keys, replay files and reports)."""
    lines, n = [], 0
    for op in ops:
        k = op[0]
        if k == "ang":
            arg = f"size=npoints_of_degree_{op[2]}" if len(op) > 4 else f"degree={op[2]}"
            lines.append(f"o{n}=AngularGrid({arg},method='{op[1]}'" + ("" if op[3] else ",cache=False") + ")")
            n += 1
        elif k == "params":
            form = op[2] if len(op) > 2 else "num"
            arg = {"num": str(op[1]), "sym": repr(ELEMENTS[op[1]]), "lower": repr(ELEMENTS[op[1]].lower()), "npint": f"np.int64({op[1]})"}[form]
            lines.append(f"o{n}=load_atomic_gaussian_params({arg})")
            n += 1
        elif k == "mut":
            lines.append(f"o{op[2]}.{KNAME['K' + op[1]]}[...]={fillval(op[3])}")
        elif k == "set":
            lines.append(f"o{op[2]}.{KNAME['K' + op[1]]}=full({fillval(op[3])})")
        elif k == "atom":
            lines.append(f"o{n}=AtomGrid(rgrid{len(op[2])}{'t' if op[4] else ''},degrees={list(op[2])},method='{op[1]}',rotate={op[3]})")
            n += 1
        elif k == "shell":
            lines.append(f"o{n}=o{op[1]}.get_shell_grid({op[2]},r_sq={bool(op[3])})")
            n += 1
        elif k == "mol":
            lines.append(f"o{n}=MolGrid(ones,[{','.join('o%d' % a for a in op[1])}],ones,store={bool(op[2])})")
            n += 1
        elif k == "int":
            lines.append(f"o{op[1]}.integrate(ones)  # skipped for parameter tuples")
        elif k == "angcoords":
            lines.append(f"o{op[1]}.integrate_angular_coordinates(ones)")
    return "; ".join(lines)


def observe_impl(impl: Impl, m, d, k):
    """The property's observation on the implementation: build once more, read; compare with the shipped data."""
    ki = 0 if k == "KP" else 1
    with warnings.catch_warnings():
        warnings.simplefilter("ignore")
        if m == "coulomb":
            arr = impl.C.load_atomic_gaussian_params(d)[ki]
        else:
            g = impl.A.AngularGrid(degree=d, method=m)
            arr = g.points if ki == 0 else g.weights
    ref = impl.inst(m, d)[ki]
    return np.array(arr), bool(np.asarray(arr).shape == ref.shape and np.asarray(arr).tobytes() == ref.tobytes())


def obs_text(m, d, k):
    if m == "coulomb":
        return f"load_atomic_gaussian_params({d})[{0 if k == 'KP' else 1}]"
    return f"AngularGrid(degree={d},method='{m}').{KNAME[k]}"


def model_ops_of(impl, spec_n, ops):
    """Model operations of an implementation history (by running it)."""
    r = Run(impl, spec_n)
    out = []
    for op in ops:
        mops, _ = r.do(op)
        out += mops
    return out


# ====================================================================== witness search (model) and replay (implementation)
def witness_alphabet(m, d):
    if m == "coulomb":
        return [["params", d], ["mut", "P", 0, 0], ["mut", "W", 0, 0], ["mut", "P", 1, 0], ["mut", "W", 1, 0]]
    return [["ang", m, d, True], ["ang", m, d, False], ["mut", "P", 0, 0], ["mut", "W", 0, 0], ["mut", "P", 1, 0], ["mut", "W", 1, 0],
            ["atom", m, [d], 0, False], ["shell", 0, 0, True], ["shell", 1, 0, True]]


def model_op_static(op, impl):
    """Model operation of a witness operation without running the implementation (degrees are already resolved)."""
    k = op[0]
    if k == "ang":
        return f"Construct {COQ_M[op[1]]} {op[2]} {'true' if op[3] else 'false'}"
    if k == "params":
        return f"Construct Coulomb {op[1]} true"
    if k == "mut":
        return f"Mut{op[1]} {op[2]} {op[3]}"
    if k == "atom":
        return f"MkAtom {COQ_M[op[1]]} [{'; '.join(str(x) for x in op[2])}]"
    if k == "shell":
        return f"Shell {op[1]} {op[2]}"
    raise ValueError(op)


def enumerate_histories(alpha, maxlen):
    out = [[]]
    frontier = [[]]
    for _ in range(maxlen):
        frontier = [h + [a] for h in frontier for a in alpha]
        out += frontier
    return out


def witness_search(ctx: Ctx, impl: Impl, spec_n):
    """For every (method, array): the shortest history (<= 3 calls over a small alphabet) after which the MODEL under
    cfg_src returns something else than the shipped data; replayed on the implementation."""
    maxlen = 3
    cases, meta = [], []
    for m in METHODS + ["coulomb"]:
        d = WITNESS_DEG[m]
        hs = enumerate_histories(witness_alphabet(m, d), maxlen)
        for k in KINDS:
            for h in hs:
                # `mut` of an AtomGrid's points is a no-op of the API (the accessor returns a copy): not in the alphabet for atoms
                mops = []
                kinds = []
                ok = True
                for op in h:
                    if op[0] == "mut" and 0 <= op[2] < len(kinds) and kinds[op[2]] == "atom" and op[1] == "P":
                        ok = False
                        break
                    if op[0] == "shell" and not (0 <= op[1] < len(kinds) and kinds[op[1]] == "atom"):
                        ok = False
                        break
                    if op[0] == "mut" and not (0 <= op[2] < len(kinds)):
                        ok = False
                        break
                    mops.append(model_op_static(op, impl))
                    if op[0] in ("ang", "params", "atom", "shell"):
                        kinds.append({"ang": "ang", "params": "params", "atom": "atom", "shell": "shell"}[op[0]])
                if not ok:
                    continue
                cases.append(f"refines_at cfg_src [{'; '.join(mops)}] {COQ_M[m]} {d} {k}")
                meta.append((m, d, k, h))
    bad = bool_cases(ctx, "C19_witness", HEADER, cases, shard=1500)
    first = {}
    for i in bad:
        m, d, k, h = meta[i]
        if (m, k) not in first or len(h) < len(first[(m, k)][1]):
            first[(m, k)] = (d, h)
    ctx.cov["model_witness_search"] = {"histories_evaluated": len(cases), "max_length": maxlen,
                                       "arrays_with_a_violating_history": sorted(f"{m}.{KNAME[k]}" for m, k in first)}
    return first


def replay_witness(impl: Impl, spec_n, m, d, k, h):
    r = Run(impl, spec_n)
    for op in h:
        r.do(op)
    arr, same = observe_impl(impl, m, d, k)
    impl.reset()
    return arr, same


# ====================================================================== transforms
def t_make(impl_mod, cname, rmin, rmax, b):
    return getattr(impl_mod, cname)(rmin, rmax, b=b) if b is not None else getattr(impl_mod, cname)(rmin, rmax)


def t_call(obj, meth, x):
    with warnings.catch_warnings():
        warnings.simplefilter("ignore")
        with np.errstate(all="ignore"):
            try:
                return ("ok", np.asarray(getattr(obj, meth)(np.array(x, dtype=float))))
            except ValueError as e:
                return ("ValueError", str(e)[:80])
            except Exception as e:  # noqa: BLE001
                return (type(e).__name__, str(e)[:80])


def b_as_int(b):
    if b is None:
        return None
    try:
        f = float(b)
    except Exception:
        return "bad"
    return int(f) if f == int(f) else "bad"


def gen_tcase(rng):
    ci = rng.randrange(3)
    b0 = rng.choice([None, None, None, 1, 2, 3, 5, 9])
    n = rng.randint(1, 7)
    calls = []
    for _ in range(n):
        meth = rng.choice(["transform", "transform", "deriv", "deriv2", "deriv3", "inverse", "inverse"])
        ln = rng.randint(1, 4)
        x = [rng.choice([0, 0, 1, 2, 3, 4, 6, 8]) for _ in range(ln)]
        if rng.random() < 0.08:
            x = [0] * ln
        if rng.random() < 0.05:
            x = [-rng.randint(0, 3) for _ in range(ln)]
        calls.append((meth, x))
        if len(calls) >= 2 and rng.random() < 0.3:  # the same call once more, later in the object's life
            calls.append(rng.choice(calls[:-1]))
    return ci, b0, calls


def coq_opt_z(b):
    return "None" if b is None else (f"(Some ({b})%Z)")


def transform_tie(ctx: Ctx, n, rep):
    import grid.rtransform as RT

    cases, meta = [], []
    rmin, rmax = 0.125, 20.0
    callmap = dict(T_CALLS)
    for i in range(n):
        ci, b0, calls = gen_tcase(ctx.rng)
        cname, coq = T_CLASSES[ci]
        obj = t_make(RT, cname, rmin, rmax, b0)
        bs, errs, ok = [], [], True
        seen = {}
        for j, (meth, x) in enumerate(calls):
            bprev = obj.b
            st, val = t_call(obj, meth, x)
            if st == "ok":
                j0, v0 = seen.setdefault((meth, tuple(x)), (j, val))
                if v0.tobytes() != val.tobytes():
                    key = f"{cname}({rmin},{rmax},b={b0}); " + "; ".join(f"{mm}({xx})" for mm, xx in calls[:j + 1])
                    rep.add("same_call_same_result", j + 1, key, [float(v) for v in np.ravel(val)[:4]],
                            f"{key}: call {j} repeats call {j0} ({meth}({x})) on the same object and returns {np.ravel(val)[:4]} instead of {np.ravel(v0)[:4]}: "
                            f"a scale inferred from an earlier grid was used but not kept",
                            {"class": cname, "rmin": rmin, "rmax": rmax, "b": b0, "calls": calls[:j + 1], "repeat": [j0, j], "kind": "transform_repeat"})
            b = b_as_int(obj.b)
            key = f"{cname}({rmin},{rmax},b={b0}); " + "; ".join(f"{mm}({xx})" for mm, xx in calls[:j + 1])
            rp = {"class": cname, "rmin": rmin, "rmax": rmax, "b": b0, "calls": calls[:j + 1], "kind": "transform"}
            if b == "bad" or st not in ("ok", "ValueError"):
                rep.add("corr_b_machine", len(calls[:j + 1]), key, str(st), f"{key}: b={obj.b!r}, outcome {st} {val if st != 'ok' else ''}", rp, found=False)
                ok = False
                break
            bs.append(b)
            errs.append(st != "ok")
            # the property's own oracle: once b is fixed (given, or set by an earlier call) every call returns what a
            # fresh object with that b returns, and b stays; the first inferring call behaves like b = max(argument)
            bref = bprev if bprev is not None else obj.b
            fresh = t_make(RT, cname, rmin, rmax, bref)
            st2, val2 = t_call(fresh, meth, x)
            differs = (st == "ok") and (st2 != "ok" or val2.tobytes() != val.tobytes())
            moved = bprev is not None and not (obj.b == bprev)
            if differs or moved:
                what = (f"the scale was fixed at b={float(bprev):g} before the last call, which leaves b={float(obj.b):g}: the set-once scale is overwritten, "
                        f"later results depend on the calls made before" if moved else
                        f"with b={bprev!r} before the last call it returns {np.ravel(val)[:4]}; a fresh {cname}(b={bref!r}) returns {np.ravel(val2)[:4] if st2 == 'ok' else st2}")
                rep.add("b_fixed_is_order_independent" if bprev is not None else "corr_b_machine", j + 1, key,
                        [float(v) for v in np.ravel(val)[:4]] if st == "ok" else st, f"{key}: {what}", rp, found=bprev is not None)
                ok = False
                break
        ctx.case(("tf", cname, b0 is None, tuple(m for m, _ in calls)))
        ctx.count(f"transform:{cname}:{'inferred' if b0 is None else 'explicit'}")
        if not ok:
            continue
        cs = "[" + "; ".join(f"({callmap[mm]}, [{'; '.join('(%d)%%Z' % v for v in xx)}])" for mm, xx in calls) + "]"
        cases.append(f"tcheck tcfg_src {coq} {coq_opt_z(b0)} {cs} [{'; '.join(coq_opt_z(b) for b in bs)}] [{'; '.join('true' if e else 'false' for e in errs)}]")
        meta.append((cname, b0, calls, bs, errs))
        if i < 2:
            ctx.sample({"transform": cname, "b": b0, "calls": calls, "b_after_each_call": bs, "raised": errs})
    bad = bool_cases(ctx, "C19_tcases", HEADER + "Open Scope Z_scope.\n", cases, shard=2000)
    for i in bad:
        cname, b0, calls, bs, errs = meta[i]
        key = f"{cname}(b={b0}); " + "; ".join(f"{mm}({xx})" for mm, xx in calls)
        rep.add("corr_b_machine", len(calls), key, str(bs), f"{key}: observed b after each call {bs}, raised {errs}; the state machine extracted from the source disagrees",
                {"class": cname, "b": b0, "calls": calls, "observed_b": bs, "raised": errs}, found=False)
    # directed sweep: m1(x); m2(y); m1(x) for every class, every ordered pair of methods, b inferred and explicit, grids with
    # different maxima (integer and non-integer): the first and the third call must agree
    grids = [([0, 1, 2, 3], [0, 2, 4, 6, 8]), ([0.5, 1.25, 2.75], [0.25, 0.75]), (list(range(12)), list(range(30)))]
    for cname, _ in T_CLASSES:
        for m1, _c1 in T_CALLS:
            for m2, _c2 in T_CALLS:
                for b0 in (None, 3):
                    for x, y in grids:
                        calls = [(m1, x), (m2, y), (m1, x)]
                        obj = t_make(RT, cname, rmin, rmax, b0)
                        res = [t_call(obj, mm, xx) for mm, xx in calls]
                        ctx.case(("tfrepeat", cname, m1, m2, b0 is None))
                        if res[0][0] == "ok" and res[2][0] == "ok" and res[0][1].tobytes() != res[2][1].tobytes():
                            key = f"{cname}({rmin},{rmax},b={b0}); " + "; ".join(f"{mm}({xx})" for mm, xx in calls)
                            rep.add("same_call_same_result", 3, key, [float(v) for v in np.ravel(res[2][1])[:4]],
                                    f"{key}: the third call repeats the first on the same object and returns {np.ravel(res[2][1])[:4]} instead of "
                                    f"{np.ravel(res[0][1])[:4]}: the first call used a scale inferred from its grid without keeping it",
                                    {"class": cname, "rmin": rmin, "rmax": rmax, "b": b0, "calls": [list(c) for c in calls], "repeat": [0, 2], "kind": "transform_repeat"})
    # direct order-independence test: same calls, two orders, explicit b
    for i in range(n // 4):
        ci, b0, calls = gen_tcase(ctx.rng)
        if b0 is None:
            b0 = 4
        cname, _ = T_CLASSES[ci]
        o1, o2 = t_make(RT, cname, rmin, rmax, b0), t_make(RT, cname, rmin, rmax, b0)
        perm = list(range(len(calls)))
        ctx.rng.shuffle(perm)
        r1 = {j: t_call(o1, *calls[j]) for j in range(len(calls))}
        r2 = {j: t_call(o2, *calls[j]) for j in perm}
        for j in range(len(calls)):
            a, b = r1[j], r2[j]
            same = a[0] == b[0] and (a[0] != "ok" or a[1].tobytes() == b[1].tobytes())
            if not same:
                key = f"{cname}({rmin},{rmax},b={b0}); calls {calls} in order {perm}"
                rep.add("b_fixed_is_order_independent", len(calls) + 10, key, [float(v) for v in np.ravel(a[1])[:4]] if a[0] == "ok" else a[0],
                        f"{key}: call {j} returns different results in the two orders",
                        {"class": cname, "rmin": rmin, "rmax": rmax, "b": b0, "calls": calls, "perm": perm, "kind": "transform_perm"})
                break
        ctx.case(("tfperm", cname, tuple(perm)))
    return len(cases)


# ====================================================================== direct judgement against the shipped data (no model)
def last_object_clean(run_: "Run"):
    """Is the object created last what the same call returns in a fresh process (= the shipped data)?  Only for objects
    whose content is determined by the call alone: AngularGrid, parameter tuples, AtomGrid, shell grids."""
    o = run_.objs[-1]
    I = run_.impl
    if o["kind"] in ("ang", "params"):
        try:
            ref = I.inst(o["m"], o["d"])
        except Exception:  # noqa: BLE001
            return True, None
        for ki in (0, 1):
            a = np.asarray(o["get"][ki](), dtype=float)
            if a.shape != ref[ki].shape or a.tobytes() != ref[ki].tobytes():
                return False, (KINDS[ki], a)
        return True, None
    if o["kind"] in ("atom", "shell"):
        for ki in (0, 1):
            a = np.asarray(o["get"][ki]())
            if a.shape != o["ref"][ki].shape or a.tobytes() != o["ref"][ki].tobytes():
                return False, (KINDS[ki], a)
    return True, None


def direct_first_failure(impl, spec_n, ops):
    """Run the history; the first call that returns an object differing from the shipped data -> (index, kind, array)."""
    r = Run(impl, spec_n)
    try:
        for i, op in enumerate(ops):
            n0 = len(r.objs)
            r.do(op)
            if len(r.objs) > n0 and r.objs[-1]["kind"] != "mol":
                ok, why = last_object_clean(r)
                if not ok:
                    return i, why[0], why[1]
        return None
    except Exception as e:  # noqa: BLE001
        return None
    finally:
        impl.reset()


def direct_candidate(impl, spec_n, ops, area):
    """-> candidate tuple (key, observed, text, replay) for the shortest sub-history whose last call returns wrong data."""
    hit = direct_first_failure(impl, spec_n, ops)
    if hit is None:
        return None
    cur = [list(o) for o in ops[:hit[0] + 1]]
    changed = True
    while changed and len(cur) > 1:
        changed = False
        for i in range(len(cur) - 1):
            cand = remove_op(cur, i)
            h2 = direct_first_failure(impl, spec_n, cand)
            if h2 is not None and h2[0] == len(cand) - 1:
                cur, changed = cand, True
                break
    hit = direct_first_failure(impl, spec_n, cur)
    if hit is None or hit[0] != len(cur) - 1:
        return None
    k, arr = hit[1], hit[2]
    n = sum(1 for c in created_objects(cur) if c is not None) - 1
    key = py_of_history(cur) + f"; o{n}.{KNAME[k] if cur[-1][0] != 'params' else ('[0]' if k == 'KP' else '[1]')}"
    text = (f"`{py_of_history(cur)}`: the object returned by the last call differs from what the same call returns in a fresh process "
            f"(the shipped data): its {KNAME[k] if cur[-1][0] != 'params' else ('coeffs_s' if k == 'KP' else 'alphas_s')} array has "
            f"{np.asarray(arr).shape[0]} rows, sum {fingerprint(arr)[0]:.6g}")
    return (key, fingerprint(arr), text, {"history": cur, "kind": "history", "check": "last_object", "python": key, "area": area,
                                          "expected": "bit for bit what the same call returns in a fresh process (the shipped data)"})


def common_degrees(impl, m1, m2, limit=2, maxsize=300):
    out = []
    for d in range(1, 60):
        try:
            r1, r2 = impl.resolve(m1, d), impl.resolve(m2, d)
        except Exception:  # noqa: BLE001
            continue
        if r1[0] == d and r2[0] == d and r1[1] <= maxsize and r2[1] <= maxsize:
            out.append(d)
            if len(out) >= limit:
                break
    return out


def directed_histories(impl):
    """All ordered pairs of methods at common degrees, with and without in-place edits of every returned array and with the
    cache flag of either call off; the Coulomb loader by number / symbol / lower-case symbol after edits."""
    hs = []
    for m1 in METHODS:
        for m2 in METHODS:
            for d in common_degrees(impl, m1, m2):
                hs.append((("angular"), [["ang", m1, d, True], ["ang", m2, d, True]]))
                hs.append((("angular"), [["ang", m1, d, True], ["mut", "P", 0, 0], ["mut", "W", 0, 1], ["ang", m2, d, True]]))
                hs.append((("angular"), [["ang", m1, d, True], ["ang", m2, d, False]]))
                if m1 == m2:
                    hs.append((("angular"), [["ang", m1, d, True], ["ang", m1, d, True], ["mut", "P", 1, 0], ["mut", "W", 1, 1], ["ang", m1, d, True]]))
                    hs.append((("angular"), [["ang", m1, d, False], ["mut", "P", 0, 0], ["mut", "W", 0, 1], ["ang", m1, d, True]]))
                    hs.append((("angular"), [["ang", m1, d, True], ["mut", "P", 0, 0], ["mut", "W", 0, 1], ["atom", m1, [d, d], 0, False]]))
                    hs.append((("angular"), [["atom", m1, [d], 0, False], ["shell", 0, 0, True], ["mut", "P", 1, 0], ["mut", "W", 1, 1], ["mut", "W", 0, 2],
                                             ["shell", 0, 0, True], ["ang", m1, d, True]]))
                else:
                    hs.append((("angular"), [["atom", m1, [d], 0, False], ["atom", m2, [d], 0, False]]))
    for z in ELEMENTS:
        for f1 in ("num", "sym"):
            for f2 in ("num", "sym", "lower"):
                hs.append(("coulomb", [["params", z, f1], ["mut", "P", 0, 0], ["mut", "W", 0, 1], ["params", z, f2]]))
        hs.append(("coulomb", [["params", z, "num"], ["params", z, "sym"], ["mut", "P", 1, 0], ["mut", "W", 1, 1], ["params", z, "lower"]]))
    return hs


def reload_grid():
    """Reload every loaded grid.* module in dependency order (classes imported across modules stay consistent); resets
    all module-level state of the library, also state this harness does not know about."""
    import sys

    mods = {n: m for n, m in sys.modules.items() if n.startswith("grid.") and ".tests" not in n and ".data" not in n
            and m is not None and getattr(m, "__file__", None) and m.__file__.endswith(".py")}
    deps = {}
    for n, m in mods.items():
        try:
            tree = ast.parse(open(m.__file__).read())
        except Exception:  # noqa: BLE001
            tree = ast.parse("")
        d = set()
        for node in ast.walk(tree):
            if isinstance(node, ast.ImportFrom) and node.module and node.module.startswith("grid."):
                d.add(node.module)
            elif isinstance(node, ast.ImportFrom) and node.module == "grid":
                d.update("grid." + a.name for a in node.names)
            elif isinstance(node, ast.Import):
                d.update(a.name for a in node.names if a.name.startswith("grid."))
        deps[n] = {x for x in d if x in mods and x != n}
    done, order = set(), []

    def visit(n, stack=()):
        if n in done or n in stack:
            return
        for x in sorted(deps[n]):
            visit(x, stack + (n,))
        done.add(n)
        order.append(n)

    for n in sorted(mods):
        visit(n)
    for n in order:
        importlib.reload(mods[n])


# ====================================================================== edits of every array reachable from a returned object
SKIP_ATTRS = {"basis", "kdtree"}


def reachable_arrays(obj, depth=2, prefix=""):
    """(path, ndarray) for every NumPy array reachable through public attributes / properties of a returned object
    (grids inside it, lists and tuples included), e.g. points, weights, center, indices, rgrid.points, atgrids[0].center."""
    out = []
    if isinstance(obj, np.ndarray):
        return [(prefix or "self", obj)]
    if isinstance(obj, (list, tuple)):
        for i, x in enumerate(obj[:4]):
            if isinstance(x, np.ndarray) or (depth > 0 and hasattr(x, "__dict__")) or isinstance(x, (list, tuple)):
                out += reachable_arrays(x, depth - 1 if not isinstance(x, np.ndarray) else depth, f"{prefix}[{i}]")
        return out
    if depth < 0 or not hasattr(obj, "__dict__"):
        return out
    for name in sorted(n for n in dir(type(obj)) if not n.startswith("_")):
        if name in SKIP_ATTRS:
            continue
        attr = getattr(type(obj), name, None)
        if not isinstance(attr, property):
            continue
        try:
            with warnings.catch_warnings():
                warnings.simplefilter("ignore")
                v = getattr(obj, name)
        except Exception:  # noqa: BLE001
            continue
        path = f"{prefix}.{name}" if prefix else name
        if isinstance(v, np.ndarray):
            out.append((path, v))
        elif isinstance(v, (list, tuple)) or (hasattr(v, "__dict__") and type(v).__module__.startswith("grid")):
            out += reachable_arrays(v, depth - 1, path)
    return out


def resolve_path(obj, path):
    cur = obj
    for tok in path.replace("]", "").replace("[", ".[").split("."):
        if not tok:
            continue
        cur = cur[int(tok[1:])] if tok.startswith("[") else getattr(cur, tok)
    return cur


def factories(impl):
    """Constructions whose result is determined by the call alone (every input is created afresh inside)."""
    I = impl
    co = lambda: np.array([[0.0, 0.0, 0.0], [0.0, 0.0, 1.4]])
    nums = lambda: np.array([1, 1])
    fs = []
    for m in METHODS:
        fs.append((f"AngularGrid(degree={WITNESS_DEG[m]},method='{m}')", lambda m=m: I.A.AngularGrid(degree=WITNESS_DEG[m], method=m)))
    fs += [
        ("AtomGrid(rgrid3,degrees=[3,5,3])", lambda: I.AT.AtomGrid(I.rgrid(3, False), degrees=[3, 5, 3])),
        ("AtomGrid(rgrid2,degrees=[5,5],method='maxdet',rotate=7)", lambda: I.AT.AtomGrid(I.rgrid(2, False), degrees=[5, 5], method="maxdet", rotate=7)),
        ("AtomGrid.from_preset(1,'coarse')", lambda: I.AT.AtomGrid.from_preset(1, "coarse")),
        ("AtomGrid.from_preset(atnum=8,preset='coarse',method='lebedev')", lambda: I.AT.AtomGrid.from_preset(atnum=8, preset="coarse", method="lebedev")),
        ("AtomGrid.from_pruned(rgrid3,1.0,r_sectors=[0.6,1.2],d_sectors=[3,5,3])",
         lambda: I.AT.AtomGrid.from_pruned(I.rgrid(3, False), 1.0, r_sectors=[0.6, 1.2], d_sectors=[3, 5, 3])),
        ("AtomGrid(rgrid3,degrees=[3,5,3]).get_shell_grid(1)", lambda: I.AT.AtomGrid(I.rgrid(3, False), degrees=[3, 5, 3]).get_shell_grid(1)),
        ("AtomGrid.from_preset(1,'coarse').get_shell_grid(0)", lambda: I.AT.AtomGrid.from_preset(1, "coarse").get_shell_grid(0)),
        ("MolGrid.from_size([1,1],coords,6,rgrid3,store=True)", lambda: I.M.MolGrid.from_size(nums(), co(), 6, rgrid=I.rgrid(3, False), store=True)),
        ("MolGrid.from_preset([1,1],coords,'coarse',store=True)", lambda: I.M.MolGrid.from_preset(nums(), co(), "coarse", store=True)),
        ("MolGrid.from_preset([1,1],coords,'coarse')", lambda: I.M.MolGrid.from_preset(nums(), co(), "coarse")),
        ("MolGrid.from_pruned([1,1],coords,1.0,[[0.6,1.2]]*2,d_sectors=[[3,5,3]]*2,rgrid3,store=True)",
         lambda: I.M.MolGrid.from_pruned(nums(), co(), 1.0, [[0.6, 1.2], [0.6, 1.2]], d_sectors=[[3, 5, 3], [3, 5, 3]], rgrid=I.rgrid(3, False), store=True)),
        ("load_atomic_gaussian_params('O')", lambda: I.C.load_atomic_gaussian_params("O")),
    ]
    return fs


def judged(obj):
    """What the property speaks about: points and weights (the two arrays of a parameter tuple)."""
    if isinstance(obj, tuple):
        return {"[0]": np.array(obj[0]), "[1]": np.array(obj[1])}
    return {"points": np.array(obj.points), "weights": np.array(obj.weights)}


def edit_value(a, j):
    return (1000.0 + j) if a.dtype.kind == "f" else (1 if a.dtype.kind in "iu" else None)


def reachable_sweep(ctx: Ctx, impl, reload_all):
    """For every construction A: build it, overwrite in place every array reachable from the returned object, then build
    every construction B again: points and weights of B must be bit for bit what B returns in a fresh process.  Modules
    are reloaded between the A's (module-level state the harness does not know about is reset that way)."""
    out = []
    reload_all()
    fs = factories(impl)
    refs = {}
    with warnings.catch_warnings():
        warnings.simplefilter("ignore")
        for name, f in fs:
            try:
                refs[name] = judged(f())
            except Exception as e:  # noqa: BLE001 - the construction does not exist in this version: not part of the sweep
                ctx.notes.append(f"reachable sweep: {name} raised {type(e).__name__} in a fresh process; left out")
        reload_all()

        def differs(b):
            try:
                got = judged(dict(fs)[b]())
            except Exception as e:  # noqa: BLE001 - an exception of the implementation is a failure with the concrete call
                return "raises", f"{type(e).__name__}: {str(e)[:80]}"
            for k, r in refs[b].items():
                if got[k].shape != r.shape or got[k].tobytes() != r.tobytes():
                    return k, fingerprint(got[k])
            return None

        for a, fa in fs:
            if a not in refs:
                continue
            ctx.case(("reach", a))
            try:
                oa = fa()
                arrays = [(p, arr) for p, arr in reachable_arrays(oa) if arr.flags.writeable and edit_value(arr, 0) is not None]
            except Exception:  # noqa: BLE001
                reload_all()
                continue
            for j, (pth, arr) in enumerate(arrays):
                arr[...] = edit_value(arr, j)
            bad = [(b, differs(b)) for b in refs]
            bad = [(b, d) for b, d in bad if d is not None]
            reload_all()
            for b, _d in bad[:2]:
                # which single edit is responsible?  (fresh process state for every attempt)
                found = None
                for j, (pth, _arr) in enumerate(arrays):
                    try:
                        o2 = fa()
                        arr2 = resolve_path(o2, pth)
                        arr2[...] = edit_value(arr2, j)
                        d = differs(b)
                    except Exception:  # noqa: BLE001
                        d = None
                    reload_all()
                    if d is not None:
                        found = (pth, j, d)
                        break
                if found is None:
                    try:
                        fa()
                        d = differs(b)
                    except Exception:  # noqa: BLE001
                        d = None
                    reload_all()
                    if d is not None:
                        found = (None, None, d)
                if found is None:
                    continue
                pth, j, (what, obs) = found
                edit = f"o0.{pth}[...]={edit_value(resolve_path(oa, pth), j)}; " if pth else ""
                edit = edit.replace("o0.[", "o0[")
                key = f"o0={a}; {edit}o1={b}; o1.{what}".replace("o1.[", "o1[").replace("o1.raises", "o1")
                text = (f"`o0={a}; {edit}o1={b}`: " + (f"the second construction raises {obs}" if what == "raises" else
                        f"o1.{what} differs from what the same call returns in a fresh process (sum {obs[0]:.6g})") +
                        (f": the array o0.{pth} handed out by the first object is shared with library state that later constructions read"
                         if pth else ": the second construction depends on the first"))
                out.append((key, obs if what != "raises" else "raises", text,
                            {"kind": "reachable", "first": a, "path": pth, "edit_index": j, "second": b, "judged": what, "python": key}))
    reload_all()
    return out


# ====================================================================== disagreement -> concrete failing input
def eval_traces(ctx: Ctx, impl, spec_n, name, histories):
    """Run the histories on the implementation and the model; -> list of bool (True = traces agree)."""
    cases = []
    for h in histories:
        try:
            tr = Run(impl, spec_n).run(h)
            cases.append("check_trace cfg_src init " + trace_term(tr))
        except Exception as e:  # noqa: BLE001 - the implementation crashed on this history: counts as a disagreement
            cases.append("false")
    impl.reset()
    bad = set(bool_cases(ctx, name, HEADER, cases, shard=400))
    return [i not in bad for i in range(len(histories))]


def created_objects(ops):
    """For each operation, the index of the object it creates (None if it creates none)."""
    kinds, out = [], []
    for op in ops:
        k = op[0]
        made = False
        if k in ("ang", "params"):
            kinds.append((k, None))
            made = True
        elif k == "atom":
            kinds.append(("atom", len(op[2])))
            made = True
        elif k == "shell":
            ai = op[1]
            if 0 <= ai < len(kinds) and kinds[ai][0] == "atom" and 0 <= op[2] < kinds[ai][1]:
                kinds.append(("shell", None))
                made = True
        elif k == "mol":
            if any(0 <= a < len(kinds) and kinds[a][0] == "atom" for a in op[1]):
                kinds.append(("mol", None))
                made = True
        out.append(len(kinds) - 1 if made else None)
    return out


def remove_op(ops, i):
    """The history without operation i; if it created an object, later references are dropped / renumbered."""
    gone = created_objects(ops)[i]
    new = []
    for j, op in enumerate(ops):
        if j == i:
            continue
        op = list(op)
        if gone is not None:
            k = op[0]
            pos = {"mut": 2, "set": 2, "shell": 1, "int": 1, "angcoords": 1}.get(k)
            if pos is not None:
                if op[pos] == gone:
                    continue
                if op[pos] > gone:
                    op[pos] -= 1
            elif k == "mol":
                refs = [a - 1 if a > gone else a for a in op[1] if a != gone]
                if not refs:
                    continue
                op[1] = refs
        new.append(op)
    return new


def minimise(ctx: Ctx, impl, spec_n, h, tagname):
    """One-at-a-time reduction of a history on which implementation and model disagree."""
    cur = list(h)
    rounds = 0
    while rounds < 14:
        rounds += 1
        cands = [remove_op(cur, i) for i in range(len(cur))]
        if not cands:
            break
        agree = eval_traces(ctx, impl, spec_n, f"C19_min_{tagname}_{rounds}", cands)
        nxt = next((c for c, a in zip(cands, agree) if not a), None)
        if nxt is None:
            break
        cur = nxt
    return cur


def probe_violation(ctx: Ctx, impl, spec_n, h, tagname):
    """Look for an observation (after h, possibly after one more in-place edit) that differs from the shipped data on the
    implementation although the model under cfg_src says it equals the shipped data."""
    r = Run(impl, spec_n)
    for op in h:
        r.do(op)
    nobj = len(r.objs)
    pairs = sorted({(o["m"], o["d"]) for o in r.objs if o["kind"] in ("ang", "params")}
                   | {(o["m"], d) for o in r.objs if o["kind"] == "atom" for d in o["ds"]})
    # the same degree under the other methods (a cache shared between methods shows there)
    extra = set()
    for m, d in pairs:
        if m == "coulomb":
            continue
        for m2 in METHODS:
            try:
                if m2 != m and impl.resolve(m2, d)[0] == d:
                    extra.add((m2, d))
            except Exception:  # noqa: BLE001
                pass
    pairs = sorted(set(pairs) | extra)
    impl.reset()
    tag0 = 500
    exts = [[]] + [[["mut", kk, oi, tag0]] for oi in range(nobj) for kk in "PW"]
    probes = []
    for e in exts:
        for m, d in pairs:
            for k in KINDS:
                probes.append((e, m, d, k))
    results, cases = [], []
    for e, m, d, k in probes:
        try:
            rr = Run(impl, spec_n)
            mops = []
            for op in h + e:
                mo, _ = rr.do(op)
                mops += mo
            arr, same = observe_impl(impl, m, d, k)
        except Exception as ex:  # noqa: BLE001
            arr, same, mops = None, True, []
        results.append((arr, same))
        cases.append(f"refines_at cfg_src [{'; '.join(mops)}] {COQ_M[m]} {d} {k}")
    impl.reset()
    if not cases:
        return None
    bad = set(bool_cases(ctx, f"C19_probe_{tagname}", HEADER, cases, shard=400))
    best = None
    for i, ((e, m, d, k), (arr, same)) in enumerate(zip(probes, results)):
        if not same and i not in bad:  # implementation violates, the model (hence every theorem about cfg_src) says it cannot
            if best is None or len(e) < len(best[0]):
                best = (e, m, d, k, arr)
    return best


def fingerprint(arr):
    a = np.ravel(np.asarray(arr, dtype=float))
    return [float(np.sum(a)), float(a[0]) if a.size else 0.0]


MAXREP = 3


def bool_cases(ctx: Ctx, name, header, cases, shard=400):
    """ctx.coq_bool_cases with one retry (a coqc killed under memory pressure must not look like a disagreement)."""
    try:
        return ctx.coq_bool_cases(name, header, cases, shard=shard)
    except RuntimeError:
        return ctx.coq_bool_cases(name + "_retry", header, cases, shard=shard)


class Reports:
    """Collects failures; at most MAXREP per obligation are passed on (concrete inputs first, smallest first)."""

    def __init__(self):
        self.items = []

    def add(self, obligation, size, key, observed, text, replay, found=True):
        if any(it[0] == obligation and it[4] == key for it in self.items):
            return
        self.items.append((obligation, not found, size, len(key), key, observed, text, replay, found))

    def flush(self, ctx: Ctx):
        """Concrete failures are reported (capped); ties that broke without a concrete input are handed back
        (obligation -> first text) for Ctx.broken_tie."""
        per, unfound = {}, {}
        for ob, nf, size, _, key, observed, text, replay, found in sorted(self.items, key=lambda t: t[:5]):
            if not found:
                unfound.setdefault(ob, text)
                continue
            if ctx.is_known(key, observed):  # a listed finding never uses up the cap (it must not mask a new failing class)
                ctx.fail(ob, key, observed, text, replay, found_input=True)
                continue
            per[ob] = per.get(ob, 0) + 1
            if per[ob] <= MAXREP:
                ctx.fail(ob, key, observed, text, replay, found_input=True)
        if any(v > MAXREP for v in per.values()):
            ctx.notes.append(f"failures found per obligation (at most {MAXREP} reported each): " + json.dumps(per))
        return unfound

    def concrete(self, obligations):
        return [(key, observed, text, replay) for ob, nf, size, _, key, observed, text, replay, found in sorted(self.items, key=lambda t: t[:5])
                if found and ob in obligations]


# ====================================================================== run
def run(ctx: Ctx):
    import grid.angular as A
    import grid.atomgrid as AT
    import grid.basegrid as B
    import grid.coulomb as C
    import grid.molgrid as M
    import grid.rtransform as RT

    reload_grid()

    # ---------------------------------------------------------------- gen
    gen_problems = []
    units = []
    cfg = {}
    names = {"lebedev": "LEBEDEV_CACHE", "spherical": "SPHERICAL_CACHE", "maxdet": "MAX_DET_CACHE", "ahrens_beylkin": "AHRENS_BEYLKIN_CACHE"}
    # when a unit is outside the extractor's subset, that part of the model is the specification itself (every array
    # copied at the cache boundary): the model-based comparisons then judge the implementation against the spec
    def pinned_row(m, k):
        n = 1 if (m in ("lebedev", "spherical") and k == "KW") else 0
        return {"store": "XRef", "missc": f"(IOf (XFresh {n}))", "missn": f"(XFresh {n})", "hit": f"(XFresh {n})"}
    try:
        cfg_a, u, names = extract_angular(ctx)
        cfg.update(cfg_a)
        units += u
    except Unsupported as e:
        gen_problems.append(("gen_angular", f"AngularGrid.__init__ is outside the supported subset: {e}"))
        cfg.update({(m, k): pinned_row(m, k) for m in METHODS for k in KINDS})
    try:
        cfg_c, u = extract_coulomb(ctx)
        cfg.update(cfg_c)
        units += u
    except Unsupported as e:
        gen_problems.append(("gen_coulomb", f"load_atomic_gaussian_params is outside the supported subset: {e}"))
        cfg.update({("coulomb", k): {"store": "XRef", "missc": "(IOf (XFresh 0))", "missn": "(XFresh 0)", "hit": "(XFresh 0)"} for k in KINDS})
    libcache = True
    def row_iso(r):
        return r["hit"] != "XRef" and r["missc"] != "IAliasCache" and not (r["missc"] == "(IOf XRef)" and r["store"] == "XRef")

    try:
        libcache, u = check_atomgrid(ctx)
        units += u
    except NeedsPrivate as e:
        if not any(ob == "gen_angular" for ob, _ in gen_problems) and all(row_iso(cfg[(m, k)]) for m in METHODS for k in KINDS):
            ctx.notes.append(f"atomgrid.py: {e} -- accepted: every AngularGrid owns private copies of its arrays (cfg_src isolating everywhere)")
        else:
            gen_problems.append(("gen_atomgrid", f"atomgrid.py: {e}"))
    except Unsupported as e:
        gen_problems.append(("gen_atomgrid", f"atomgrid.py: {e}"))
    try:
        sets, guard, u, uses = extract_transforms(ctx)
        units += u
    except Unsupported as e:
        gen_problems.append(("gen_transforms", f"rtransform.py: {e}"))
        sets = {(t, c): not (t == "TLinearInf" and c in ("CDeriv2", "CDeriv3")) for _, t in T_CLASSES for _, c in T_CALLS}
        uses = dict(sets)
        guard = {t: True for _, t in T_CLASSES}
    ctx.gen("C19_gen.v", coq_gen_text(cfg, libcache, sets, guard, uses), units)
    for ob, text in gen_problems:
        # reported after the dynamic search below had a chance to find a concrete failing input
        ctx.notes.append(f"{ob}: {text}; the specification itself (copy at the cache boundary) is used for this part of the model")

    # ---------------------------------------------------------------- prove
    ctx.copy_coq("C19")
    status = ctx.coq_build()
    if not all(status.values()) and any(not status[n] and not ctx.logs.get(n, "").strip() for n in status):
        status = ctx.coq_build()  # a coqc that died without any message (memory pressure): compile once more
    ctx.register_props(status)
    if not status.get("C19_model.v", False) or not status.get("C19_gen.v", False):
        raise RuntimeError("C19 model / generated configuration does not compile: " + (ctx.logs.get("C19_gen.v", "") + ctx.logs.get("C19_model.v", ""))[-600:])

    impl = Impl(names)
    spec_n = {(m, k): (1 if (m in ("lebedev", "spherical") and k == "KW") else 0) for m in METHODS + ["coulomb"] for k in KINDS}
    rep = Reports()
    broken = []  # (what, error text, area): parts of the tie that no longer check
    cands = {"angular": [], "coulomb": [], "transform": []}  # property failures found on the implementation, model-independent

    def add_cand(area, c):
        if c is not None and all(c[0] != x[0] for x in cands[area]):
            cands[area].append(c)

    for ob, text in gen_problems:
        broken.append((ob, text, {"gen_transforms": "transform", "gen_coulomb": "coulomb"}.get(ob, "angular")))
    for name, ob in ctx.obligations.items():
        if ob["status"] != "discharged":
            area = "transform" if "srcB" in ob["file"] else ("coulomb" if "srcA3" in ob["file"] else "angular")
            log = ctx.logs.get(ob["file"], "")
            err = next((l.strip() for l in log.splitlines() if l.strip().startswith("Error")), "") or log.strip()[-160:]
            broken.append((name, f"theorem {name} ({ob['file']}) no longer checks: {err[:200]}", area))

    # ---------------------------------------------------------------- the shipped data is what a fresh process returns
    for m in METHODS:
        for dreq in DEG_POOL[m]:
            d, _ = impl.resolve(m, dreq)
            rp, rw = impl.raw(m, d)
            ip, iw = impl.inst(m, d)
            okp = ip.shape == rp.shape and ip.tobytes() == rp.tobytes()
            exp = rw * (4 * np.pi) ** spec_n[(m, "KW")]
            okw = iw.shape == rw.shape and np.allclose(iw, exp, rtol=1e-14, atol=0)
            ctx.case(("shipped", m, d))
            if not (okp and okw):
                ctx.fail("shipped_data", f"AngularGrid(degree={d},method='{m}',cache=False) in a fresh process", fingerprint(iw),
                         f"AngularGrid(degree={d}, method='{m}') in a fresh process does not return the data of the shipped file "
                         f"({'points differ' if not okp else 'weights differ from file weights' + (' * 4 pi' if spec_n[(m, 'KW')] else '')})",
                         {"method": m, "degree": d, "kind": "shipped"})
    for z in ELEMENTS:
        rc, ra = impl.raw("coulomb", z)
        ic, ia = impl.inst("coulomb", z)
        ctx.case(("shipped", "coulomb", z))
        if ic.tobytes() != rc.tobytes() or ia.tobytes() != ra.tobytes():
            ctx.fail("shipped_data", f"load_atomic_gaussian_params({z}) in a fresh process", fingerprint(ic),
                     f"load_atomic_gaussian_params({z}) in a fresh process differs from the JSON table", {"element": z, "kind": "shipped"})
    impl.reset()

    # ---------------------------------------------------------------- search in the model, replay on the implementation
    first = witness_search(ctx, impl, spec_n)
    for (m, k), (d, h) in sorted(first.items()):
        arr, same = replay_witness(impl, spec_n, m, d, k, h)
        key = py_of_history(h) + "; " + obs_text(m, d, k)
        ctx.case(("witness", m, k))
        rp = {"history": h, "observe": [m, d, k], "kind": "history", "python": key,
              "expected": "the shipped data (bit for bit what the same call returns in a fresh process)"}
        edited = any(op[0] == "mut" for op in h)
        if same:
            broken.append(("corr_witness", f"the model extracted from the source predicts that `{key}` differs from the shipped data; the implementation "
                           f"returns the shipped data", "coulomb" if m == "coulomb" else "angular"))
        else:
            why = ((f"AngularGrid hands out the cached {KNAME[k]} array of method '{m}' by reference, so an in-place edit of a returned grid changes every later "
                    f"grid (and every AtomGrid/MolGrid built from it)" if m != "coulomb" else "the loader hands out the cached array by reference") if edited
                   else "what a later call returns depends on the calls made before (cache hit and cache miss deliver different values)")
            text = f"{key} no longer holds the shipped data (sum {fingerprint(arr)[0]:.6g}): {why}"
            # one record per aliased array: not capped (each is a distinct finding keyed on its own shortest history)
            ctx.fail("observation_refines_spec", key, fingerprint(arr), text, rp)
            add_cand("coulomb" if m == "coulomb" else "angular", (key, fingerprint(arr), text, rp))
    # arrays for which the model has no short counterexample must be protected on the implementation as well: directed check
    for m in METHODS + ["coulomb"]:
        for k in KINDS:
            if (m, k) in first:
                continue
            d = WITNESS_DEG[m]
            for h in ([["ang", m, d, True], ["mut", k[1], 0, 0]] if m != "coulomb" else [["params", d], ["mut", k[1], 0, 0]],
                      ([["ang", m, d, True], ["ang", m, d, True], ["mut", k[1], 1, 0]] if m != "coulomb" else [["params", d], ["params", d], ["mut", k[1], 1, 0]])):
                arr, same = replay_witness(impl, spec_n, m, d, k, h)
                ctx.case(("directed", m, k, len(h)))
                if not same:
                    key = py_of_history(h) + "; " + obs_text(m, d, k)
                    text = f"{key} no longer holds the shipped data although the model extracted from the source says it must"
                    rpd = {"history": h, "observe": [m, d, k], "kind": "history", "python": key}
                    rep.add("src_safe_arrays_refine_spec", len(h), key, fingerprint(arr), text, rpd)
                    add_cand("coulomb" if m == "coulomb" else "angular", (key, fingerprint(arr), text, rpd))

    # ---------------------------------------------------------------- directed sweep judged against the shipped data only (no model)
    dh = directed_histories(impl)
    for area, h in dh:
        ctx.case(("sweep", area, tuple(op[0] + str(op[1]) for op in h)))
        if direct_first_failure(impl, spec_n, h) is not None:
            add_cand(area, direct_candidate(impl, spec_n, h, area))
    ctx.cov["directed_sweep_histories"] = len(dh)

    # ---------------------------------------------------------------- history correspondence
    nh = 200 if ctx.quick else 5000
    hs = [gen_history(ctx.rng, 12) for _ in range(nh)]
    cases, crashed, direct_bad = [], {}, []
    for i, h in enumerate(hs):
        try:
            r_ = Run(impl, spec_n)
            tr = r_.run(h)
            cases.append("check_trace cfg_src init " + trace_term(tr))
            if r_.direct_fail is not None:
                direct_bad.append(i)
        except Exception as e:  # noqa: BLE001
            crashed[i] = f"{type(e).__name__}: {e}"
            cases.append("false")
        ctx.case(tuple(op[0] + (str(op[1]) if op[0] in ("ang", "atom") else "") for op in h), traces=len(h))
        for op in h:
            ctx.count("op:" + op[0])
        if i < 3:
            ctx.sample({"history": py_of_history(h)})
    impl.reset()
    for i in sorted(direct_bad, key=lambda i: len(hs[i]))[:3]:
        area = "coulomb" if hs[i][direct_first_failure(impl, spec_n, hs[i])[0]][0] == "params" else "angular"
        add_cand(area, direct_candidate(impl, spec_n, hs[i], area))
    ctx.cov["histories_with_a_call_returning_other_than_shipped_data"] = len(direct_bad)
    bad = bool_cases(ctx, "C19_hist", HEADER, cases, shard=400)
    ctx.cov["histories"] = nh
    ctx.cov["history_disagreements"] = len(bad)
    for i in sorted(bad, key=lambda i: len(hs[i]))[:2]:
        h = hs[i]
        hmin = minimise(ctx, impl, spec_n, h, f"h{i}")
        best = probe_violation(ctx, impl, spec_n, hmin, f"h{i}")
        if best is not None:
            e, m, d, k, arr = best
            key = py_of_history(hmin + e) + "; " + obs_text(m, d, k)
            text = (f"{key} no longer holds the shipped data (sum {fingerprint(arr)[0]:.6g}); the model extracted from the source "
                    f"(and the theorems about it) say it must")
            rph = {"history": hmin + e, "observe": [m, d, k], "kind": "history", "python": key, "original_history": h}
            rep.add("history_refines_spec", len(hmin + e), key, fingerprint(arr), text, rph)
            add_cand("coulomb" if m == "coulomb" else "angular", (key, fingerprint(arr), text, rph))
        else:
            broken.append(("corr_history", f"implementation and model disagree on the observable trace (array contents / memory sharing / cache keys) of "
                           f"`{py_of_history(hmin)}`" + (f" (implementation raised {crashed[i]})" if i in crashed else ""), "angular"))

    # ---------------------------------------------------------------- transforms
    nt = transform_tie(ctx, 300 if ctx.quick else 4000, rep)
    for c in rep.concrete({"same_call_same_result", "b_fixed_is_order_independent"}):
        add_cand("transform", c)
    for ob, text in rep.flush(ctx).items():
        broken.append((ob, text, "transform" if ob == "corr_b_machine" else "angular"))

    # ---------------------------------------------------------------- in-place edits of every array reachable from a returned object
    reload_all = reload_grid

    n_new, seen_cls = 0, set()
    for key, observed, text, rpc in reachable_sweep(ctx, impl, reload_all):
        add_cand("coulomb" if "load_atomic" in rpc["first"] else "angular", (key, observed, text, rpc))
        cls_ = (rpc["first"].split("(")[0], rpc["path"])  # one report per (kind of first object, edited array)
        if ctx.is_known(key, observed):
            ctx.fail("reachable_edit_refines_spec", key, observed, text, rpc)
        elif cls_ not in seen_cls and n_new < 2 * MAXREP:
            seen_cls.add(cls_)
            n_new += 1
            ctx.fail("reachable_edit_refines_spec", key, observed, text, rpc)

    # ---------------------------------------------------------------- the model says the property holds everywhere, the implementation does not
    if not first and not broken:
        for area in ("angular", "coulomb"):
            n = 0
            for key, observed, text, rpc in cands[area]:
                if any(f.key == key for f in ctx.failures) or rpc.get("kind") == "reachable":
                    continue
                if ctx.is_known(key, observed):
                    ctx.fail("direct_refines_spec", key, observed, text, rpc)
                elif n < MAXREP:
                    ctx.fail("direct_refines_spec", key, observed, text, rpc)
                    n += 1

    # ---------------------------------------------------------------- broken ties: the first failing history that is not a known finding is the replay
    seen_what = set()
    for what, err, area in broken:
        if what in seen_what:
            continue
        seen_what.add(what)
        order = cands[area] + [c for a2 in ("angular", "coulomb", "transform") if a2 != area for c in cands[a2]]
        ctx.broken_tie(what, err, order)

    # restore pristine module state for whoever imports grid after us
    impl.reset()
    reload_grid()

    ctx.cov["rule"] = ("random API histories of 2..12 calls over 1-3 methods and 1-2 (requested) degrees each: AngularGrid(cache on/off), in-place fill of "
                       "points/weights of any returned object, attribute reassignment, AtomGrid (1-3 shells, rotate 0/7, optional shell at r=1e-9), get_shell_grid, "
                       "MolGrid(store on/off), integrate, integrate_angular_coordinates, load_atomic_gaussian_params; module caches cleared before each history; "
                       "after every call: every array of every returned object and cache entry classified bit-for-bit + np.shares_memory structure + cache keys, "
                       "compared with the Coq model under the extracted cfg_src by vm_compute; distinct = sequence of (call kind, method); "
                       "transform objects: 1-7 random calls (transform/deriv/deriv2/deriv3/inverse, integer arrays incl. all-zero and negative) with b inferred or explicit, "
                       "b after every call and raised errors compared with the extracted state machine in Coq, every result compared with a fresh object of that b")
    ctx.cov["cfg_src"] = {f"{m}.{KNAME[k]}": v for (m, k), v in cfg.items()}
    ctx.cov["tcfg_src"] = {"sets_b": {f"{t}.{c}": v for (t, c), v in sets.items()}, "uses_b": {f"{t}.{c}": v for (t, c), v in uses.items()}, "guard": guard}
    ctx.cov["transform_cases"] = nt
    ctx.trusted += [
        "hand model coq/C19/C19_model.v (heap of symbolic arrays, caches, objects; state machine of b), tied by exact history correspondence on every run",
        "ast abstract interpreter of AngularGrid.__init__ (tools/props/c19.py: InitInterp): array identity and 4*pi bookkeeping per scenario (method x hit/miss x cache flag); fail closed",
        "NumPy facts used by the interpreter: x.copy(), np.array(x), np.copy(x), x * c allocate new arrays; np.asarray(ndarray) returns its argument; np.asarray(list) allocates",
        "Grid.__init__ stores the arrays it receives without copying (anchored by the history correspondence: np.shares_memory between instance and cache arrays)",
        "np.load returns a new array on every call (first construction with cache=False never shares memory with anything: observed in every history)",
        "pattern check of load_atomic_gaussian_params, _generate_atomic_grid, get_shell_grid, set_maximum_parameter_b (fail closed)",
        "the reference for 'shipped data' is read from the data files by the harness (np.load / json) and cross-checked against a first construction in a state with empty caches",
    ]
    ctx.assumptions += ["single process, single thread; caller edits are whole-array in-place fills or attribute reassignments",
                        "transform arguments in the correspondence are integer-valued float arrays (b is compared exactly); results are compared bit-for-bit with a fresh object"]


# ====================================================================== replay
def replay(rp):
    print(json.dumps({k: v for k, v in rp.items() if k not in ("traceback", "coq_log_tail")}, indent=1, default=str)[:3000])
    kind = rp.get("kind")
    if kind == "history" and rp.get("check") == "last_object":
        _, _, names = extract_angular_safe()
        impl = Impl(names)
        spec_n = {(m, k): (1 if (m in ("lebedev", "spherical") and k == "KW") else 0) for m in METHODS + ["coulomb"] for k in KINDS}
        hit = direct_first_failure(impl, spec_n, rp["history"])
        print("python:", rp.get("python"))
        if hit is not None:
            print(f"call {hit[0]} returns an object whose {KNAME[hit[1]]} differ from the shipped data: rows {np.asarray(hit[2]).shape[0]}, [sum, first] = {fingerprint(hit[2])}")
            return 1
        print("every call returned the shipped data")
        return 0
    if kind == "history" and "observe" in rp:
        _, _, names = extract_angular_safe()
        impl = Impl(names)
        spec_n = {(m, k): (1 if (m in ("lebedev", "spherical") and k == "KW") else 0) for m in METHODS + ["coulomb"] for k in KINDS}
        m, d, k = rp["observe"]
        arr, same = replay_witness(impl, spec_n, m, d, k, rp["history"])
        print("python:", rp.get("python"))
        print("observed fingerprint [sum, first]:", fingerprint(arr), "| equals the shipped data:", same)
        return 0 if same else 1
    if kind == "reachable":
        _, _, names = extract_angular_safe()
        impl = Impl(names)
        fs = dict(factories(impl))
        with warnings.catch_warnings():
            warnings.simplefilter("ignore")
            ref = judged(fs[rp["second"]]())
            reload_grid()
            o0 = fs[rp["first"]]()
            if rp.get("path"):
                arr = resolve_path(o0, rp["path"])
                arr[...] = edit_value(arr, rp["edit_index"])
            try:
                got = judged(fs[rp["second"]]())
            except Exception as e:  # noqa: BLE001
                print("python:", rp.get("python"), "-> raises", type(e).__name__, e)
                return 1
        print("python:", rp.get("python"))
        bad = [k for k in ref if got[k].shape != ref[k].shape or got[k].tobytes() != ref[k].tobytes()]
        print("arrays of the second object differing from a fresh process:", bad, [fingerprint(got[k]) for k in bad])
        return 1 if bad else 0
    if kind == "transform_repeat":
        import grid.rtransform as RT

        obj = t_make(RT, rp["class"], rp["rmin"], rp["rmax"], rp["b"])
        res = [t_call(obj, meth, x) for meth, x in rp["calls"]]
        i, j = rp["repeat"]
        print(f"call {i}: {rp['calls'][i]} -> {res[i][1] if res[i][0] == 'ok' else res[i][0]}")
        print(f"call {j}: {rp['calls'][j]} -> {res[j][1] if res[j][0] == 'ok' else res[j][0]}")
        same = res[i][0] == res[j][0] and (res[i][0] != "ok" or res[i][1].tobytes() == res[j][1].tobytes())
        return 0 if same else 1
    if kind == "transform":
        import grid.rtransform as RT

        obj = t_make(RT, rp["class"], rp["rmin"], rp["rmax"], rp["b"])
        last = None
        for meth, x in rp["calls"]:
            bprev = obj.b
            last = (bprev, meth, x, t_call(obj, meth, x))
        bprev, meth, x, (st, val) = last
        fresh = t_make(RT, rp["class"], rp["rmin"], rp["rmax"], bprev if bprev is not None else obj.b)
        st2, val2 = t_call(fresh, meth, x)
        print("last call:", meth, x, "->", val if st == "ok" else st, "; b before/after:", bprev, obj.b)
        print("fresh object with that b  ->", val2 if st2 == "ok" else st2)
        same = st == st2 and (st != "ok" or val.tobytes() == val2.tobytes()) and (bprev is None or obj.b == bprev)
        return 0 if same else 1
    print("reproduce:", rp.get("text", "(see text)"))
    return 0


def extract_angular_safe():
    try:
        return extract_angular(None)
    except Unsupported:
        return None, None, {"lebedev": "LEBEDEV_CACHE", "spherical": "SPHERICAL_CACHE", "maxdet": "MAX_DET_CACHE", "ahrens_beylkin": "AHRENS_BEYLKIN_CACHE"}
