"""C20 — Python mirror of the Coq checker of coq/C20/C20_ir.v (astep / aexec / check_fun).

Only used to *find* the summaries (greatest consistent assignment, by iteration from the optimistic one);
the summaries are then checked by the Coq checker itself with vm_compute, which is the authority.
"""
from __future__ import annotations


def cls(A, x):
    return A[x] if x < len(A) else 0


def merge(A, c, d):
    if c == d:
        return A
    if c == 0:
        return [0 if k == d else k for k in A]
    if d == 0:
        return [0 if k == c else k for k in A]
    return [c if k == d else k for k in A]


def mrep(c, d):
    if c == d:
        return c
    if c == 0 or d == 0:
        return 0
    return c


def fresh_id(A):
    return 1 + max(A, default=0)


def setnth(A, x, c):
    B = list(A)
    if x < len(B):
        B[x] = c
    return B


def mergevars(A, ys):
    if not ys:
        return A, fresh_id(A)
    c = cls(A, ys[0])
    for y in ys[1:]:
        d = cls(A, y)
        A, c = merge(A, c, d), mrep(c, d)
    return A, c


def refinesb(A, B):
    if len(A) != len(B):
        return False
    img = {}
    for a, b in zip(A, B):
        if a == 0 and b != 0:
            return False
        if img.setdefault(a, b) != b:
            return False
    return True


def join(A, B):
    J = list(A)
    first = {}
    for x, b in enumerate(B):
        first.setdefault(b, x)
    for x in range(len(A)):
        if cls(B, x) == 0:
            J = merge(J, cls(J, x), 0)
        J = merge(J, cls(J, x), cls(J, first[cls(B, x)]))
    return J


def ojoin(a, b):
    if a is None:
        return b
    if b is None:
        return a
    return join(a, b)


class Bad(Exception):
    def __init__(self, site, why):
        self.site, self.why = site, why


def astep(Sg, s, A):
    n = len(A)
    k = s[0]

    def rng(xs):
        if not all(x < n for x in xs):
            raise Bad(0, 4)

    if k == "alias":
        rng([s[1]] + s[2])
        A1, c = mergevars(A, s[2])
        return setnth(A1, s[1], c)
    if k == "write":
        rng([s[1]])
        if cls(A, s[1]) == 0:
            raise Bad(s[2], 1)
        return A
    if k == "store":
        rng([s[1]] + s[2])
        if cls(A, s[1]) == 0:
            raise Bad(s[3], 2)
        return mergevars(A, [s[1]] + s[2])[0]
    if k == "setattr":
        rng([s[1]] + s[2])
        return mergevars(A, [s[1]] + s[2])[0]
    if k == "calluser":
        rng([s[1]] + s[2])
        A1, c = mergevars(A, s[2])
        return setnth(merge(A1, 0, c), s[1], 0)
    if k == "calllib":
        rng([s[1]] + s[3])
        sm = Sg[s[2]]
        if not sm["ok"]:
            raise Bad(s[4], 3)
        A1, c = mergevars(A, s[3])
        if sm["user"]:
            A2, c2 = merge(A1, 0, c), 0
        else:
            A2, c2 = A1, c
        return setnth(A2, s[1], fresh_id(A2) if sm["fresh"] else c2)
    raise ValueError(k)


def aexec_block(Sg, stmts, A):
    """returns (nrm, brk, ret) abstract states (None = unreachable)"""
    brk = ret = None
    cur = A
    for s in stmts:
        if cur is None:
            break
        n, b, r = aexec(Sg, s, cur)
        brk, ret = ojoin(brk, b), ojoin(ret, r)
        cur = n
    return cur, brk, ret


def aexec(Sg, s, A):
    k = s[0]
    if k == "branch":
        n1, b1, r1 = aexec_block(Sg, s[1], A)
        n2, b2, r2 = aexec_block(Sg, s[2], A)
        return ojoin(n1, n2), ojoin(b1, b2), ojoin(r1, r2)
    if k == "loop":
        I = A
        for _ in range(len(A) + 2):
            n, b, r = aexec_block(Sg, s[1], I)
            if (n is None or refinesb(n, I)) and (b is None or refinesb(b, I)):
                return I, None, r
            I = ojoin(I, ojoin(n, b))
        raise Bad(0, 5)
    if k == "brk":
        return None, A, None
    if k == "ret":
        return None, None, A
    if k == "skip":
        return A, None, None
    return astep(Sg, s, A), None, None


def no_user(Sg, stmts):
    for s in stmts:
        k = s[0]
        if k == "calluser":
            return False
        if k == "calllib" and Sg[s[2]]["user"]:
            return False
        if k == "branch" and not (no_user(Sg, s[1]) and no_user(Sg, s[2])):
            return False
        if k == "loop" and not no_user(Sg, s[1]):
            return False
    return True


def verdict(Sg, fn):
    """fn = dict(nparams, nvars, body).  Returns ('ok', ret_state) or ('bad', site, why)"""
    if not fn["nparams"] < fn["nvars"]:
        return ("bad", 0, 4)
    try:
        init = [0] * (fn["nparams"] + 1) + list(range(1, fn["nvars"] - fn["nparams"]))
        n, b, r = aexec_block(Sg, fn["body"], init)
    except Bad as e:
        return ("bad", e.site, e.why)
    return ("ok", r)


def solve_summaries(funs):
    """greatest consistent summaries, starting from (ok, no user code, fresh result)"""
    Sg = [{"ok": True, "user": False, "fresh": True} for _ in funs]
    verd = [None] * len(funs)
    for _round in range(200):
        changed = False
        for i, fn in enumerate(funs):
            if not Sg[i]["ok"]:
                continue
            v = verdict(Sg, fn)
            verd[i] = v
            if v[0] == "bad":
                new = {"ok": False, "user": True, "fresh": False}
            else:
                r = v[1]
                new = {"ok": True, "user": Sg[i]["user"] or not no_user(Sg, fn["body"]),
                       "fresh": Sg[i]["fresh"] and (r is None or cls(r, 0) != 0)}
            if new != Sg[i]:
                Sg[i] = new
                changed = True
        if not changed:
            break
    else:
        raise RuntimeError("summaries did not stabilise")
    # final verdict of the functions that are not ok, under the final summaries (for the report)
    for i, fn in enumerate(funs):
        verd[i] = verdict(Sg, fn)
    return Sg, verd


def all_bad_sites(Sg, fn):
    """every failing site of a function (the Coq checker stops at the first): the analysis continues after a
    failure as if the write had been allowed / the callee were an opaque function running user code"""
    found = []
    Sg2 = [dict(s) for s in Sg]

    class Cont(list):
        pass

    def step(s, A):
        try:
            return astep(Sg2, s, A)
        except Bad as e:
            found.append((e.site, e.why))
            if e.why == 1:
                return A
            if e.why == 2:
                return mergevars(A, [s[1]] + s[2])[0]
            if e.why == 3:
                A1, c = mergevars(A, s[3])
                return setnth(merge(A1, 0, c), s[1], 0)
            raise

    def block(stmts, A):
        brk = ret = None
        cur = A
        for s in stmts:
            if cur is None:
                break
            n, b, r = ex(s, cur)
            brk, ret = ojoin(brk, b), ojoin(ret, r)
            cur = n
        return cur, brk, ret

    def ex(s, A):
        k = s[0]
        if k == "branch":
            n1, b1, r1 = block(s[1], A)
            n2, b2, r2 = block(s[2], A)
            return ojoin(n1, n2), ojoin(b1, b2), ojoin(r1, r2)
        if k == "loop":
            I = A
            for _ in range(len(A) + 2):
                n, b, r = block(s[1], I)
                if (n is None or refinesb(n, I)) and (b is None or refinesb(b, I)):
                    return I, None, r
                I = ojoin(I, ojoin(n, b))
            raise Bad(0, 5)
        if k == "brk":
            return None, A, None
        if k == "ret":
            return None, None, A
        if k == "skip":
            return A, None, None
        return step(s, A), None, None

    if not fn["nparams"] < fn["nvars"]:
        return [(0, 4)]
    init = [0] * (fn["nparams"] + 1) + list(range(1, fn["nvars"] - fn["nparams"]))
    try:
        block(fn["body"], init)
    except Bad as e:
        found.append((e.site, e.why))
    out = []
    for x in found:
        if x not in out:
            out.append(x)
    return out
