"""C16 — Poisson solvers reproduce Coulomb potentials of Gaussian charges and are linear.

gen:   poisson.py / robust_poisson.py are re-translated on every run (Python ast, fail closed):
         * _solve_poisson_bvp_atomgrid / _solve_poisson_ivp_atomgrid: the (l_deg, m_ord) loop iterables, the i_spline counter,
           the nested closures f_x / coeff_0 / coeff_1, the coefficient list handed to the ODE solver, the boundary / initial
           tuples, the `boundary` expression and the radial factor of the returned interpolation closure;
         * interpolate_laplacian: the `degrees` list and the per-row radial operator (symbolic execution of the einsum statements);
         * solve_poisson_robust: residual update, accumulation of the core potential, the final sum; _build_core_density.
prove: coq/C16/*.v on the generated terms (radial Laplacian identity, far field, (l,m) enumeration, Laplacian expansion,
       linearity as a composition of linear maps with the ODE solver / splines / harmonics as Section oracles, robust recombination).
tie:   the ODE solvers are replaced inside the check process by recorders: the coefficient callables, f_x, the boundary tuples,
       the mesh and the solver options that the code really passes are evaluated on dyadic radii and enclosed by `interval`
       against the generated terms; marker solutions returned by the recorder check the pairing spline row <-> harmonic row.
search: seeded sweeps of the real solvers against analytic erf / multipole potentials (oracle validation, labelled partial).
"""
from __future__ import annotations

import ast
import math
import warnings
from fractions import Fraction

import numpy as np

from vlib import py2coq_real as P
from vlib.core import SRC, Ctx, r_lit, src_sha

U = P.Unsupported


# ============================================================================================ translator
def zexpr(e: ast.expr, lvar: str | None = None) -> str:
    """integer expression -> Coq Z term.  `<grid>.l_max // 2` is the parameter v_L."""
    if isinstance(e, ast.Constant) and isinstance(e.value, int) and not isinstance(e.value, bool):
        return f"({e.value})" if e.value < 0 else f"{e.value}"
    if isinstance(e, ast.Name):
        return "v_" + e.id
    if isinstance(e, ast.UnaryOp) and isinstance(e.op, ast.USub):
        return f"(- {zexpr(e.operand)})"
    if isinstance(e, ast.BinOp):
        if isinstance(e.op, ast.FloorDiv) and ast.unparse(e) in ("atomgrid.l_max // 2", "atom_grid.l_max // 2"):
            return "v_L"
        op = {ast.Add: "+", ast.Sub: "-", ast.Mult: "*"}.get(type(e.op))
        if op is None:
            raise U(f"integer operator in {ast.unparse(e)}")
        return f"({zexpr(e.left)} {op} {zexpr(e.right)})"
    raise U(f"integer expression {ast.unparse(e)}")


def zlist(e: ast.expr) -> str:
    """list-of-int expression -> Coq `list Z` term (range, comprehension, +, [x]*n, np.arange, np.hstack)."""
    if isinstance(e, ast.Call) and not e.keywords:
        fn = ast.unparse(e.func)
        if fn in ("range", "np.arange") and len(e.args) == 2:
            return f"(zrange ({zexpr(e.args[0])})%Z ({zexpr(e.args[1])})%Z)"
        if fn == "np.hstack" and len(e.args) == 1 and isinstance(e.args[0], ast.ListComp):
            lc = e.args[0]
            g = single_gen(lc)
            return f"(concat (map (fun v_{g.target.id} : Z => {zlist(lc.elt)}) {zlist(g.iter)}))"
        raise U(f"list call {ast.unparse(e)[:60]}")
    if isinstance(e, ast.ListComp):
        g = single_gen(e)
        return f"(map (fun v_{g.target.id} : Z => ({zexpr(e.elt)})%Z) {zlist(g.iter)})"
    if isinstance(e, ast.BinOp) and isinstance(e.op, ast.Add):
        return f"({zlist(e.left)} ++ {zlist(e.right)})"
    if isinstance(e, ast.BinOp) and isinstance(e.op, ast.Mult) and isinstance(e.left, ast.List) and len(e.left.elts) == 1:
        return f"(repeat ({zexpr(e.left.elts[0])})%Z (Z.to_nat ({zexpr(e.right)})%Z))"
    raise U(f"list expression {ast.unparse(e)[:60]}")


def single_gen(lc: ast.ListComp) -> ast.comprehension:
    if len(lc.generators) != 1:
        raise U("nested comprehension")
    g = lc.generators[0]
    if g.ifs or g.is_async or not isinstance(g.target, ast.Name):
        raise U("comprehension with filter")
    return g


def zbool(e: ast.expr) -> str:
    if isinstance(e, ast.BoolOp) and isinstance(e.op, ast.And):
        return "(" + " && ".join(zbool(v) for v in e.values) + ")"
    if isinstance(e, ast.Compare) and len(e.ops) == 1 and isinstance(e.ops[0], ast.Eq):
        return f"({zexpr(e.left)} =? {zexpr(e.comparators[0])})"
    raise U(f"condition {ast.unparse(e)}")


class Tr16(P.Tr):
    """real expressions of poisson.py: `x ** 2.0` is a square, plus a table of source snippets -> Coq terms."""

    def __init__(self, table: dict[str, str] | None = None):
        super().__init__(P.Env({}, {}, {}))
        self.table = table or {}

    def expr(self, e):
        key = ast.unparse(e)
        if key in self.table:
            return self.table[key]
        return super().expr(e)

    def power(self, base, ex):
        if isinstance(ex, ast.Constant) and isinstance(ex.value, float) and ex.value == int(ex.value) and 0 <= ex.value <= 8:
            return f"({self.expr(base)} ^ {int(ex.value)})"   # numpy: x ** 2.0 == x * x for every real x
        return super().power(base, ex)


def strip_doc(body):
    return [b for b in body if not (isinstance(b, ast.Expr) and isinstance(b.value, ast.Constant) and isinstance(b.value.value, str))]


def closure_sig(fn: ast.FunctionDef, captured: list[str]):
    """def f(r, cap=cap): positional r, every default is the loop variable of the same name."""
    a = fn.args
    names = [x.arg for x in a.args]
    if a.vararg or a.kwarg or a.kwonlyargs or a.posonlyargs or not names or names[0] != "r":
        raise U(f"{fn.name}: signature")
    defaults = a.defaults
    dnames = names[len(names) - len(defaults):]
    if names[1:] != dnames:
        raise U(f"{fn.name}: parameters without default")
    for n, d in zip(dnames, defaults):
        if not (isinstance(d, ast.Name) and d.id == n):
            raise U(f"{fn.name}: default of {n} is {ast.unparse(d)}")
    if dnames != captured:
        raise U(f"{fn.name}: captures {dnames}, expected {captured}")


def tr_fx(fn: ast.FunctionDef, prefix: str):
    closure_sig(fn, ["i_spline"])
    body = strip_doc(fn.body)
    if len(body) != 1 or not isinstance(body[0], ast.Return):
        raise U("f_x body")
    # radial_components[<index>](r)
    idx = [n for n in ast.walk(body[0].value) if isinstance(n, ast.Call) and isinstance(n.func, ast.Subscript)]
    if len(idx) != 1 or ast.unparse(idx[0].func.value) != "radial_components" or len(idx[0].args) != 1 or ast.unparse(idx[0].args[0]) != "r" \
            or idx[0].keywords:
        raise U(f"f_x: {ast.unparse(body[0].value)}")
    index_term = zexpr(idx[0].func.slice)
    t = Tr16({ast.unparse(idx[0]): f"(v_rho ({prefix}_fx_index v_i_spline) v_r)"})
    term = t.expr(body[0].value)
    return [f"Definition {prefix}_fx_index (v_i_spline : Z) : Z := ({index_term})%Z.",
            f"Definition {prefix}_fx (v_rho : Z -> R -> R) (v_i_spline : Z) (v_r : R) : R :=\n  {term}."]


def tr_coeff0(fn: ast.FunctionDef, prefix: str):
    closure_sig(fn, ["l_deg"])
    body = strip_doc(fn.body)
    flat = []
    for s in body:
        if isinstance(s, ast.With):
            if [ast.unparse(i.context_expr).split("(")[0] for i in s.items] != ["np.errstate"]:
                raise U("coeff_0: with")
            flat += s.body
        else:
            flat.append(s)
    masked = [s for s in flat if isinstance(s, ast.Assign) and isinstance(s.targets[0], ast.Subscript)]
    rest = [s for s in flat if s not in masked]
    out = [f"Definition {prefix}_coeff_0 (v_l_deg v_r : R) : R :=\n  {Tr16().body(rest, False)}."]
    if masked:
        if len(masked) != 1 or len(masked[0].targets) != 1:
            raise U("coeff_0: masked assignments")
        tgt = masked[0].targets[0]
        ret = rest[-1]
        if not (isinstance(ret, ast.Return) and isinstance(ret.value, ast.Name) and ast.unparse(tgt.value) == ret.value.id
                and ast.unparse(tgt.slice) == "np.abs(r) == 0.0" and flat.index(masked[0]) == len(flat) - 2):
            raise U(f"coeff_0: {ast.unparse(masked[0])}")
        if any(isinstance(n, ast.Name) and n.id == "r" for n in ast.walk(masked[0].value)):
            raise U("coeff_0: value at r = 0 depends on r")
        out.append(f"Definition {prefix}_coeff_0_at0 (v_l_deg : R) : R :=\n  {Tr16().expr(masked[0].value)}.")
    return out, bool(masked)


def tr_coeff1(fn: ast.FunctionDef, prefix: str):
    closure_sig(fn, [])
    return [f"Definition {prefix}_coeff_1 (v_l_deg v_r : R) : R :=\n  {Tr16().body(strip_doc(fn.body), False)}."]


def find_fn(tree, name):
    for n in tree.body:
        if isinstance(n, ast.FunctionDef) and n.name == name:
            return n
    raise U(f"function {name} not found")


def tr_boundary(fn: ast.FunctionDef, prefix: str):
    """boundary = atomgrid.integrate(func_vals) / sph_o_l[0, 0]  with sph_o_l = generate_real_spherical_harmonics(0, ..)"""
    sph = [s for s in ast.walk(fn) if isinstance(s, ast.Assign) and ast.unparse(s.targets[0]) == "sph_o_l"]
    bnd = [s for s in ast.walk(fn) if isinstance(s, ast.Assign) and ast.unparse(s.targets[0]) == "boundary"]
    if len(sph) > 1 or len(bnd) != 1:
        raise U(f"{fn.name}: boundary statements")
    table = {"atomgrid.integrate(func_vals)": "v_Q"}
    if sph:
        if ast.unparse(sph[0].value) != "generate_real_spherical_harmonics(0, np.array([0.1]), np.array([0.1]))":
            raise U(f"{fn.name}: sph_o_l = {ast.unparse(sph[0].value)}")
        table["sph_o_l[0, 0]"] = "v_Y00"
    t = Tr16(table)
    return [f"Definition {prefix}_boundary (v_Q v_Y00 : R) : R :=\n  {t.expr(bnd[0].value)}."], bnd[0]


def tr_interpolate(fn: ast.FunctionDef, prefix: str, allowed: set[str]):
    inner = [s for s in fn.body if isinstance(s, ast.FunctionDef) and s.name == "interpolate"]
    if len(inner) != 1 or not (isinstance(fn.body[-1], ast.Return) and ast.unparse(fn.body[-1].value) == "interpolate"):
        raise U(f"{fn.name}: interpolate closure")
    it = inner[0]
    if [a.arg for a in it.args.args] != ["points"]:
        raise U("interpolate signature")
    flat = []
    for s in strip_doc(it.body):
        flat += s.body if isinstance(s, ast.With) else [s]
    rv = None
    for s in flat:
        src = ast.unparse(s)
        if isinstance(s, ast.Assign) and ast.unparse(s.targets[0]) == "r_values":
            v = s.value
            if not (isinstance(v, ast.Call) and ast.unparse(v.func) == "np.array" and len(v.args) == 1 and isinstance(v.args[0], ast.ListComp)):
                raise U(src)
            g = single_gen(v.args[0])
            if g.target.id != "spline" or ast.unparse(g.iter) != "splines":
                raise U(src)
            rv = Tr16({"spline(r_pts)": "(v_u v_r)", "r_pts": "v_r"}).expr(v.args[0].elt)
        elif src not in allowed:
            raise U(f"{fn.name}.interpolate: unexpected statement `{src}`")
    if rv is None or [ast.unparse(s) for s in flat if ast.unparse(s) in allowed] != [a for a in ALLOWED_ORDER if a in allowed]:
        raise U(f"{fn.name}.interpolate: statements changed")
    return [f"Definition {prefix}_radial_value (v_u : R -> R) (v_r : R) : R :=\n  {rv}."]


ALLOWED_ORDER = ["r_pts, theta, phi = atomgrid.convert_cartesian_to_spherical(points).T",
                 "r_values[:, np.abs(r_pts) < 1e-300] = 0.0",
                 "r_sph_harm = generate_real_spherical_harmonics(atomgrid.l_max // 2, theta, phi)",
                 "return np.einsum('ij, ij -> j', r_values, r_sph_harm)"]


def tr_solver(src: str, tree, name: str, prefix: str, kind: str):
    fn = find_fn(tree, name)
    out = [f"(* ---- {name} ---- *)"]
    # the loop nest
    loops = [s for s in fn.body if isinstance(s, ast.For)]
    if len(loops) != 1:
        raise U(f"{name}: loop nest")
    lo = loops[0]
    pos = fn.body.index(lo)
    pre = [ast.unparse(s) for s in fn.body[pos - 2:pos]]
    if not (pre[0] == "splines = []" and isinstance(fn.body[pos - 1], ast.Assign) and ast.unparse(fn.body[pos - 1].targets[0]) == "i_spline"):
        raise U(f"{name}: counter initialisation {pre}")
    out.append(f"Definition {prefix}_counter_init : Z := ({zexpr(fn.body[pos - 1].value)})%Z.")
    if not (isinstance(lo.target, ast.Name) and lo.target.id == "l_deg" and not lo.orelse and len(lo.body) == 1 and isinstance(lo.body[0], ast.For)):
        raise U(f"{name}: outer loop")
    li = lo.body[0]
    if not (isinstance(li.target, ast.Name) and li.target.id == "m_ord" and not li.orelse):
        raise U(f"{name}: inner loop")
    out.append(f"Definition {prefix}_l_range (v_L : Z) : list Z := {zlist(lo.iter)}.")
    out.append(f"Definition {prefix}_m_list (v_l_deg : Z) : list Z := {zlist(li.iter)}.")
    # inner body, fixed statement order
    body = strip_doc(li.body)
    want = ["f_x", "coeff_0"] + (["coeff_1"] if kind == "ivp" else [])
    defs = body[:len(want)]
    if [getattr(d, "name", None) for d in defs] != want or not all(isinstance(d, ast.FunctionDef) for d in defs):
        raise U(f"{name}: nested closures {[getattr(d, 'name', type(d).__name__) for d in defs]}")
    out += tr_fx(defs[0], prefix)
    c0, has_at0 = tr_coeff0(defs[1], prefix)
    out += c0
    if kind == "ivp":
        out += tr_coeff1(defs[2], prefix)
    rest = body[len(want):]
    if len(rest) != 5:
        raise U(f"{name}: loop body has {len(rest)} trailing statements")
    s_coeffs, s_if, s_solve, s_inc, s_app = rest
    # coefficient list
    if not (isinstance(s_coeffs, ast.Assign) and ast.unparse(s_coeffs.targets[0]) == "coeffs" and isinstance(s_coeffs.value, ast.List)):
        raise U(f"{name}: coeffs")
    items = []
    for el in s_coeffs.value.elts:
        if isinstance(el, ast.Name) and el.id in want[1:]:
            items.append(f"{prefix}_{el.id}")
        elif isinstance(el, ast.Constant) and isinstance(el.value, (int, float)) and not isinstance(el.value, bool):
            items.append(f"(fun _ _ : R => {P.lit(el.value)})")
        else:
            raise U(f"{name}: coefficient {ast.unparse(el)}")
    out.append(f"Definition {prefix}_coeffs : list (R -> R -> R) := [{'; '.join(items)}].")
    # boundary / initial data
    cname = "bd_cond" if kind == "bvp" else "ivp"
    if not (isinstance(s_if, ast.If) and len(s_if.body) == 1 and len(s_if.orelse) == 1):
        raise U(f"{name}: condition statement")
    out.append(f"Definition {prefix}_is_monopole (v_l_deg v_m_ord : Z) : bool := {zbool(s_if.test)}%Z.")
    branches = []
    tb = Tr16({"r_max": "v_r_max"})
    for br in (s_if.body[0], s_if.orelse[0]):
        if not (isinstance(br, ast.Assign) and ast.unparse(br.targets[0]) == cname and isinstance(br.value, ast.List)):
            raise U(f"{name}: {ast.unparse(br)}")
        els = []
        for el in br.value.elts:
            if kind == "bvp":
                if not (isinstance(el, ast.Tuple) and len(el.elts) == 3):
                    raise U(f"{name}: boundary tuple {ast.unparse(el)}")
                els.append(f"(({zexpr(el.elts[0])})%Z, ({zexpr(el.elts[1])})%Z, {tb.expr(el.elts[2])})")
            else:
                els.append(tb.expr(el))
        branches.append("[" + "; ".join(els) + "]")
    if kind == "bvp":
        out.append(f"Definition {prefix}_cond (v_l_deg v_m_ord : Z) (v_boundary : R) : list (Z * Z * R) :=\n"
                   f"  if {prefix}_is_monopole v_l_deg v_m_ord then {branches[0]} else {branches[1]}.")
    else:
        rm = [s for s in fn.body if isinstance(s, ast.Assign) and ast.unparse(s.targets[0]) == "r_max"]
        if len(rm) != 1 or ast.unparse(rm[0].value) != "r_interval[0]":
            raise U(f"{name}: r_max")
        out.append(f"Definition {prefix}_cond (v_l_deg v_m_ord : Z) (v_boundary v_r_max : R) : list R :=\n"
                   f"  if {prefix}_is_monopole v_l_deg v_m_ord then {branches[0]} else {branches[1]}.")
    # the solver call, the counter, the result list
    call = {"bvp": "u_lm = solve_ode_bvp(rad_points, f_x, coeffs, bd_cond, transform, **ode_params)",
            "ivp": "u_lm = solve_ode_ivp(r_interval, f_x, coeffs, ivp, transform, no_derivatives=True, **ode_params)"}[kind]
    if ast.unparse(s_solve) != call:
        raise U(f"{name}: solver call `{ast.unparse(s_solve)}`")
    if not (isinstance(s_inc, ast.AugAssign) and isinstance(s_inc.op, ast.Add) and ast.unparse(s_inc.target) == "i_spline"):
        raise U(f"{name}: counter update")
    out.append(f"Definition {prefix}_counter_step : Z := ({zexpr(s_inc.value)})%Z.")
    if ast.unparse(s_app) != "splines.append(u_lm)":
        raise U(f"{name}: result list")
    b, _ = tr_boundary(fn, prefix)
    out += b
    allowed = set(ALLOWED_ORDER) if kind == "bvp" else set(ALLOWED_ORDER) - {ALLOWED_ORDER[1]}
    out += tr_interpolate(fn, prefix, allowed)
    # spline source
    if "radial_components = atomgrid.radial_component_splines(func_vals)" not in [ast.unparse(s) for s in fn.body]:
        raise U(f"{name}: radial_components")
    unit = {"unit": name, "file": "src/grid/poisson.py", "lines": [fn.lineno, fn.end_lineno], "sha": src_sha(ast.get_source_segment(src, fn)),
            "coeff_0_at0": has_at0}
    return out, unit


def tr_laplacian(src: str, tree):
    fn = find_fn(tree, "interpolate_laplacian")
    inner = [n for n in ast.walk(fn) if isinstance(n, ast.FunctionDef) and n.name == "interpolate_laplacian_atom_grid"]
    if len(inner) != 1:
        raise U("interpolate_laplacian_atom_grid")
    body = strip_doc(inner[0].body)
    flat = []
    for s in body:
        flat += s.body if isinstance(s, ast.With) else [s]
    rows: dict[str, str] = {}      # array name (rows x points) -> per-row Coq term
    comps: dict[str, str] = {}     # contracted (points,) arrays -> per-row term (the contraction with Y is linear)
    out = []
    tr = Tr16({"r_pts": "v_r"})
    ret = None
    fixed = {"radial_comps_f = atom_grid.radial_component_splines(func_vals_atom[start_index:final_index])",
             "r_pts, theta, phi = atom_grid.convert_cartesian_to_spherical(points).T",
             "r_sph_harm = generate_real_spherical_harmonics(atom_grid.l_max // 2, theta, phi)"}
    seen_fixed = set()
    cutoff_rule = False
    for s in flat:
        u = ast.unparse(s)
        if u in fixed:
            seen_fixed.add(u)
            continue
        if isinstance(s, ast.If) and ast.unparse(s.test) == "np.any(r_pts < cutoff)" and [ast.unparse(b) for b in s.body] == ["r_pts[r_pts < cutoff] = cutoff"] \
                and not s.orelse:
            cutoff_rule = True
            continue
        if isinstance(s, ast.Assign) and isinstance(s.targets[0], ast.Name):
            name, v = s.targets[0].id, s.value
            if isinstance(v, ast.Call) and ast.unparse(v.func) == "np.array" and len(v.args) == 1 and isinstance(v.args[0], ast.ListComp):
                g = single_gen(v.args[0])
                elt = v.args[0].elt
                if g.target.id != "spline" or ast.unparse(g.iter) != "radial_comps_f" or not isinstance(elt, ast.Call) or ast.unparse(elt.func) != "spline" \
                        or elt.keywords or ast.unparse(elt.args[0]) != "r_pts":
                    raise U(u)
                order = 0 if len(elt.args) == 1 else elt.args[1].value if (len(elt.args) == 2 and isinstance(elt.args[1], ast.Constant)) else None
                if order not in (0, 1, 2):
                    raise U(u)
                rows[name] = f"v_f{order}"
                continue
            if name == "degrees":
                out.append(f"Definition lap_degrees (v_L : Z) : list Z := {zlist(v)}.")
                rows["degrees"] = "v_deg"
                continue
            if isinstance(v, ast.Call) and ast.unparse(v.func) == "np.einsum" and not v.keywords and isinstance(v.args[0], ast.Constant):
                spec = v.args[0].value.replace(" ", "")
                ops = [ast.unparse(a) for a in v.args[1:]]
                if spec == "ln,ln->n" and len(ops) == 2 and ops[1] == "r_sph_harm" and ops[0] in rows:
                    comps[name] = rows[ops[0]]
                    continue
                if spec == "ln,l,ln->n" and len(ops) == 3 and ops[2] == "r_sph_harm" and ops[0] in rows and ops[1] == "degrees" and "degrees" in rows:
                    comps[name] = f"({rows[ops[0]]} * {rows['degrees']})"
                    continue
            raise U(f"interpolate_laplacian: {u[:80]}")
        if isinstance(s, ast.AugAssign) and isinstance(s.target, ast.Name) and s.target.id in comps:
            op = {ast.Mult: "*", ast.Div: "/"}.get(type(s.op))
            if op is None:
                raise U(u)
            comps[s.target.id] = f"({comps[s.target.id]} {op} {tr.expr(s.value)})"
            continue
        if isinstance(s, ast.Return):
            ret = Tr16(dict(comps)).expr(s.value)
            continue
        raise U(f"interpolate_laplacian: {u[:80]}")
    if ret is None or seen_fixed != fixed or not cutoff_rule or not out or "lap_degrees" not in out[0]:
        raise U("interpolate_laplacian: statements changed")
    out.append(f"Definition lap_row (v_f0 v_f1 v_f2 v_deg v_r : R) : R :=\n  {ret}.")
    # which atom's function object / grid does the closure appended for atom i use when it is finally called?
    # (a name that is free in the lambda is looked up after the loop has finished: it then denotes the LAST atom's object)
    fa = inner[0].args
    dflt = dict(zip([a.arg for a in fa.args][len(fa.args) - len(fa.defaults):], fa.defaults))
    for nme in ("start_index", "final_index"):
        if not (nme in dflt and isinstance(dflt[nme], ast.Name) and dflt[nme].id == nme):
            raise U(f"interpolate_laplacian: {nme} is not bound at definition time")
    app = [n for n in ast.walk(fn) if isinstance(n, ast.Call) and ast.unparse(n.func) == "interpolate_funcs.append"]
    if len(app) != 1 or len(app[0].args) != 1 or not isinstance(app[0].args[0], ast.Lambda):
        raise U("interpolate_laplacian: interpolate_funcs.append(lambda ...)")
    lam = app[0].args[0]
    la = lam.args
    lnames = [a.arg for a in la.args]
    ldef = dict(zip(lnames[len(lnames) - len(la.defaults):], la.defaults))
    call = lam.body
    if not (isinstance(call, ast.Call) and isinstance(call.func, ast.Name) and len(call.args) == 3 and not call.keywords
            and [ast.unparse(a) for a in call.args[::2]] == ["points", "cut_off"] and lnames[:2] == ["points", "cut_off"]
            and isinstance(call.args[1], ast.Name)):
        raise U(f"interpolate_laplacian: closure body {ast.unparse(lam)}")

    def binding(name, target):
        if name in ldef:
            if isinstance(ldef[name], ast.Name) and ldef[name].id == target:
                return "v_i"        # bound when atom i is processed
            raise U(f"interpolate_laplacian: default {name}={ast.unparse(ldef[name])}")
        if name == target and name not in lnames:
            return "v_last"         # free variable: resolved when the closure runs, after the loop
        raise U(f"interpolate_laplacian: closure refers to {name}")
    b_fun = binding(call.func.id, "interpolate_laplacian_atom_grid")
    b_grid = binding(call.args[1].id, "atom_grid")
    out.append(f"Definition lap_slice_of (v_i v_last : nat) : nat := {b_fun}.   (* whose func_vals slice *)")
    out.append(f"Definition lap_grid_of (v_i v_last : nat) : nat := {b_grid}.    (* whose atomic grid *)")
    unit = {"unit": "interpolate_laplacian", "file": "src/grid/poisson.py", "lines": [fn.lineno, fn.end_lineno],
            "sha": src_sha(ast.get_source_segment(src, fn)), "closure_binding": {"function": b_fun, "grid": b_grid}}
    return ["(* ---- interpolate_laplacian ---- *)"] + out, unit


def tr_robust(src: str, tree):
    fn = find_fn(tree, "solve_poisson_robust")
    out = ["(* ---- solve_poisson_robust ---- *)"]
    stm = {ast.unparse(s): s for s in ast.walk(fn) if isinstance(s, ast.stmt)}
    # split 1
    s1 = [s for s in ast.walk(fn) if isinstance(s, ast.AugAssign) and ast.unparse(s.target) == "residual"]
    if len(s1) != 1 or ast.unparse(s1[0].value) != "_build_core_density(molgrid.points, center, coeffs_s, alphas_s)":
        raise U("robust: split 1 statement")
    op = {ast.Add: "+", ast.Sub: "-"}.get(type(s1[0].op))
    if op is None:
        raise U("robust: split 1 operator")
    out.append(f"Definition robust_split1 (v_residual v_core : R) : R := (v_residual {op} v_core).")
    for need in ("residual = np.array(density_vals, dtype=float)",
                 "phi_residual_interp = solve_poisson_bvp(molgrid, residual, transform, **bvp_kwargs)",
                 "v_residual = phi_residual_interp(points)", "v_core = np.zeros(points.shape[0])", "v_bonding = np.zeros(points.shape[0])",
                 "fit_coeffs, fit_alphas, fit_centers, residual = _fit_residual_gaussians(molgrid.points, residual, atcoords, alphas_basis)",
                 "v_bonding = coulomb_potential(points, centers_s=fit_centers, coeffs_s=fit_coeffs, alphas_s=fit_alphas, normalized=True)",
                 "return total_potential"):
        if need not in stm:
            raise U(f"robust: statement `{need}` not found")
    acc = [s for s in ast.walk(fn) if isinstance(s, ast.AugAssign) and ast.unparse(s.target) == "v_core"]
    want = "coulomb_potential(points, centers_s=centers_rep, coeffs_s=coeffs_s, alphas_s=alphas_s, normalized=True)"
    if len(acc) != 1 or ast.unparse(acc[0].value) != want or "centers_rep = np.tile(center, (len(coeffs_s), 1))" not in stm:
        raise U("robust: core potential accumulation")
    op = {ast.Add: "+", ast.Sub: "-"}.get(type(acc[0].op))
    if op is None:
        raise U("robust: accumulation operator")
    out.append(f"Definition robust_core_acc (v_core v_term : R) : R := (v_core {op} v_term).")
    tot = [s for s in ast.walk(fn) if isinstance(s, ast.FunctionDef) and s.name == "total_potential"]
    if len(tot) != 1 or not isinstance(tot[0].body[-1], ast.Return):
        raise U("robust: total_potential")
    out.append(f"Definition robust_total (v_v_core v_v_bonding v_v_residual : R) : R :=\n  {Tr16().expr(tot[0].body[-1].value)}.")
    # the second split: residual -= A[:, mask] @ c_pos
    fit = find_fn(tree, "_fit_residual_gaussians")
    s2 = [s for s in ast.walk(fit) if isinstance(s, ast.AugAssign) and ast.unparse(s.target) == "residual"]
    if len(s2) != 1 or ast.unparse(s2[0].value) != "A[:, mask] @ c_pos":
        raise U("robust: split 2 statement")
    op = {ast.Add: "+", ast.Sub: "-"}.get(type(s2[0].op))
    if op is None:
        raise U("robust: split 2 operator")
    out.append(f"Definition robust_split2 (v_residual v_fit : R) : R := (v_residual {op} v_fit).")
    # core density of one primitive
    bcd = find_fn(tree, "_build_core_density")
    pre = [s for s in ast.walk(bcd) if isinstance(s, ast.Assign) and ast.unparse(s.targets[0]) == "prefactor"]
    add = [s for s in ast.walk(bcd) if isinstance(s, ast.AugAssign) and ast.unparse(s.target) == "rho"]
    if len(pre) != 1 or len(add) != 1 or not isinstance(add[0].op, ast.Add) or "r_sq = np.sum((points - center) ** 2, axis=1)" not in \
            [ast.unparse(s) for s in bcd.body] or "rho = np.zeros(len(points))" not in [ast.unparse(s) for s in bcd.body]:
        raise U("robust: _build_core_density")
    t = Tr16()
    out.append(f"Definition core_density_term (v_c v_alpha v_r_sq : R) : R :=\n  (let v_prefactor := {t.expr(pre[0].value)} in\n   {t.expr(add[0].value)}).")
    units = [{"unit": f.name, "file": "src/grid/robust_poisson.py", "lines": [f.lineno, f.end_lineno], "sha": src_sha(ast.get_source_segment(src, f))}
             for f in (fn, fit, bcd)]
    return out, units


def tr_molhelper(src: str, tree):
    """_interpolate_molgrid_helper is hand-modelled; the statements the model mirrors are pinned here (fail closed)."""
    fn = find_fn(tree, "_interpolate_molgrid_helper")
    have = [ast.unparse(s) for s in ast.walk(fn) if isinstance(s, ast.stmt)]
    for need in ("func_vals_atom = func_vals * molgrid.aim_weights", "start_index = molgrid.indices[i]", "final_index = molgrid.indices[i + 1]",
                 "atom_grid = molgrid[i]", "interpolate_funcs.append(interpolate_callable(atom_grid, func_vals_atom[start_index:final_index]))",
                 "output = interpolate_funcs[0](points)", "output += interpolate(points)", "return output", "return sum_of_interpolation_functions"):
        if need not in have:
            raise U(f"_interpolate_molgrid_helper: statement `{need}` not found")
    return {"unit": fn.name, "file": "src/grid/poisson.py", "lines": [fn.lineno, fn.end_lineno], "sha": src_sha(ast.get_source_segment(src, fn)),
            "note": "hand model; statement shapes pinned"}


GEN_HEADER = """From Coq Require Import Reals ZArith List Bool.
From Coquelicot Require Import Coquelicot.
From P Require Import C16_base.
Import ListNotations.
Open Scope R_scope.
(* generated from src/grid/poisson.py and src/grid/robust_poisson.py on every run; do not edit *)
"""


def gen(ctx: Ctx):
    src = (SRC / "poisson.py").read_text()
    tree = ast.parse(src)
    out, units = [GEN_HEADER], []
    for name, prefix, kind in (("_solve_poisson_bvp_atomgrid", "bvp", "bvp"), ("_solve_poisson_ivp_atomgrid", "ivp", "ivp")):
        o, u = tr_solver(src, tree, name, prefix, kind)
        out += o
        units.append(u)
    o, u = tr_laplacian(src, tree)
    out += o
    units.append(u)
    units.append(tr_molhelper(src, tree))
    rsrc = (SRC / "robust_poisson.py").read_text()
    o, us = tr_robust(rsrc, ast.parse(rsrc))
    out += o
    units += us
    ctx.gen("C16_gen.v", "\n".join(out) + "\n", units)
    return {u["unit"]: u for u in units}


# ============================================================================================ implementation side
import contextlib  # noqa: E402

import grid.poisson as GP  # noqa: E402
import grid.robust_poisson as GR  # noqa: E402
from grid.atomgrid import AtomGrid  # noqa: E402
from grid.becke import BeckeWeights  # noqa: E402
from grid.molgrid import MolGrid  # noqa: E402
from grid.onedgrid import GaussLaguerre, GaussLegendre, OneDGrid, Trapezoidal  # noqa: E402
from grid.rtransform import BeckeRTransform, IdentityRTransform, InverseRTransform, LinearFiniteRTransform  # noqa: E402
from grid.utils import generate_real_spherical_harmonics  # noqa: E402
from scipy.integrate import quad  # noqa: E402
from scipy.special import erf  # noqa: E402

S3, S5, S15 = math.sqrt(3 / (4 * math.pi)), math.sqrt(5 / math.pi), math.sqrt(15 / math.pi)


def real_harmonics_l2(xyz: np.ndarray) -> np.ndarray:
    """Independent oracle: the nine real spherical harmonics of degree <= 2 from their Cartesian formulas, in Horton-2 row
    order (l ascending; m = 0, 1, -1, 2, -2), without Condon-Shortley phase."""
    x, y, z = xyz.T
    r = np.sqrt(x * x + y * y + z * z)
    with np.errstate(all="ignore"):
        out = np.array([
            np.full_like(r, 0.5 / math.sqrt(math.pi)),
            S3 * z / r, S3 * x / r, S3 * y / r,
            0.25 * S5 * (3 * z * z - r * r) / r ** 2, 0.5 * S15 * x * z / r ** 2, 0.5 * S15 * y * z / r ** 2,
            0.25 * S15 * (x * x - y * y) / r ** 2, 0.5 * S15 * x * y / r ** 2])
    out[1:, r == 0] = 0.0     # direction undefined at the centre; every use multiplies by a radial factor that vanishes there
    return out


@contextlib.contextmanager
def patched(mod, name, repl):
    old = getattr(mod, name)
    setattr(mod, name, repl)
    try:
        yield
    finally:
        setattr(mod, name, old)


class Recorder:
    """Stands in for grid.ode.solve_ode_bvp / solve_ode_ivp inside grid.poisson: records what the code hands over and
    returns marker solutions  r |-> c_k * r^p  (p = 2 for the BVP whose closure divides by r, 1 for the IVP)."""

    def __init__(self, power):
        self.calls = []
        self.power = power

    def mark(self, k):
        return 1.0 + 0.37 * k + 0.011 * k * k

    def __call__(self, x, fx, coeffs, cond, transform=None, **kw):
        k = len(self.calls)
        self.calls.append(dict(x=x, fx=fx, coeffs=coeffs, cond=cond, transform=transform, kw=dict(kw)))
        c, p = self.mark(k), self.power
        return lambda r, c=c, p=p: c * np.asarray(r, dtype=float) ** p


def dyadic_radial_grid(rng, n):
    """radial points on a dyadic lattice (exact in binary64 and as Coq rationals), increasing, positive."""
    pts = sorted({rng.randint(1, 64 * 12) / 64 for _ in range(3 * n)})[:n]
    return OneDGrid(np.array(pts, dtype=float), np.ones(len(pts)), (0, np.inf))


def ev(c, r):
    """a coefficient as grid.ode evaluates it: callables on an array, numbers as they are"""
    if callable(c):
        with np.errstate(all="ignore"):
            return float(np.asarray(c(np.array([r], dtype=float)), dtype=float).ravel()[0])
    return float(c)


HDR = ("From Coq Require Import Reals ZArith List Bool Lra.\nFrom Coquelicot Require Import Coquelicot.\nFrom Interval Require Import Tactic.\n"
       "From P Require Import C16_base C16_gen C16_model.\nImport ListNotations.\nOpen Scope R_scope.\n")


def zl(xs):
    return "[" + "; ".join(f"({int(x)})%Z" for x in xs) + "]"


def tolq(y, rel=1e-11):
    return r_lit(Fraction(rel) * (1 + abs(Fraction(y))))


def independent_projection(ag, center, vals):
    """rho_k(r_i) = sum over the points p of shell i of  w_ang(p) f(p) Y_k(direction of p)  for the rows k of degree <= 2, from the grid's
    actual points (so any rotation of the shells is taken from the grid itself); rows a pruned shell cannot integrate are zero
    (documented in radial_component_splines).  Returns cubic splines (scipy default end conditions, as the library)."""
    from scipy.interpolate import CubicSpline
    nrow = min(9, (ag.l_max // 2 + 1) ** 2)
    rows = np.zeros((nrow, ag.rgrid.size))
    for i in range(ag.rgrid.size):
        sl = slice(ag.indices[i], ag.indices[i + 1])
        rel = ag.points[sl] - center
        w = ag.weights[sl] / (ag.rgrid.points[i] ** 2 * ag.rgrid.weights[i])
        rows[:, i] = real_harmonics_l2(rel)[:nrow] @ (w * vals[sl])
        if ag.degrees[i] != ag.l_max:
            rows[(ag.degrees[i] // 2 + 1) ** 2:, i] = 0.0
    return [CubicSpline(ag.rgrid.points, row) for row in rows]


class Cases:
    """Coq tactic cases collected by all tie functions and compiled together (parallel shards)."""

    def __init__(self):
        self.cases, self.meta = [], []

    def add(self, goal, tac, obligation, key, what, obs=None):
        self.cases.append((goal, tac))
        self.meta.append(dict(obligation=obligation, key=key, what=what, obs=obs, goal=goal))


def capture_solver(ctx: Ctx, kind: str, it: int, C: Cases):
    """one recorded run of solve_poisson_{bvp,ivp} on a small atomic grid -> Coq cases + python-level checks"""
    rng = ctx.rng
    deg = rng.choice([3, 5, 5] if ctx.quick else [3, 5, 5, 7])
    rgrid = dyadic_radial_grid(rng, rng.randint(5, 9))
    center = np.array([rng.randint(-4, 4) / 4 for _ in range(3)])
    # every other capture: randomly rotated shells (what the MolGrid constructors do by default), sometimes pruned inner shells
    rot = 0 if it % 2 == 0 else rng.choice([11, 37, rng.randint(1, 10 ** 6)])
    degs = [deg] * rgrid.size
    if it % 4 == 1 and deg > 3:
        degs[0] = degs[1] = 3
    ag = AtomGrid(rgrid, degrees=degs, center=center, rotate=rot)
    L = ag.l_max // 2
    nrow = (L + 1) ** 2
    nprng = np.random.default_rng(rng.randint(0, 2 ** 31))
    vals = nprng.normal(size=ag.size)
    tf = IdentityRTransform()
    rec = Recorder(2 if kind == "bvp" else 1)
    user = {"tol": 1e-3} if (kind == "bvp" and it % 2) else ({"rtol": 1e-5} if it % 2 else {})
    include_origin, remove = bool(it % 3 != 1), (None if it % 4 == 3 else float(rng.choice([4.0, 8.0, 1e6])))
    r_interval = (float(rgrid.points[-1]), float(rgrid.points[0]))
    if kind == "bvp":
        with patched(GP, "solve_ode_bvp", rec):
            pot = GP.solve_poisson_bvp(ag, vals.copy(), tf, include_origin=include_origin, remove_large_pts=remove, ode_params=dict(user))
    else:
        with patched(GP, "solve_ode_ivp", rec):
            pot = GP.solve_poisson_ivp(ag, vals.copy(), tf, r_interval=r_interval, ode_params=dict(user))
    key = f"{kind}:seed={ctx.seed}:it={it}:deg={deg}:n={rgrid.size}:rotate={rot}"
    P_ = kind

    def add(goal, tac, what, obs=None):
        C.add(goal, tac, f"corr_{kind}_" + what.split("[")[0].split("(")[0].split(" ")[0], key, what, obs)

    # ---- python-level: number of solves, mesh, forwarded options
    # what the code must have used (AtomGrid wrapper: weights are 1): rows of degree <= 2 are projected INDEPENDENTLY from the
    # grid's actual points (Cartesian harmonics, angular weights = weights / (r^2 w_r)); higher rows from the library
    splines = list(ag.radial_component_splines(vals))
    ind = independent_projection(ag, center, vals)
    lib = np.array([sp(rgrid.points) for sp in splines[:len(ind)]])
    ind_vals = np.array([sp(rgrid.points) for sp in ind])
    if not np.allclose(lib, ind_vals, rtol=0, atol=1e-9 * (1 + float(np.max(np.abs(ind_vals))))):
        problems_pre = [("projection", float(np.max(np.abs(lib - ind_vals))),
                         f"radial_component_splines differs from the projection of the values onto the harmonics at the grid's own points (rotate={rot})")]
    else:
        problems_pre = []
    splines[:len(ind)] = ind
    Q = float(ag.integrate(vals))
    Y00 = float(generate_real_spherical_harmonics(0, np.array([0.1]), np.array([0.1]))[0, 0])
    problems = list(problems_pre)
    if len(rec.calls) != nrow:
        problems.append(("count", len(rec.calls), f"{len(rec.calls)} solver calls, the harmonics have {nrow} rows"))
    if kind == "bvp":
        exp_x = rgrid.points.copy()
        if include_origin and np.all(exp_x > 0):
            exp_x = np.hstack(([0.0], exp_x))
        if remove is not None:
            exp_x = exp_x[~(exp_x > remove)]
        for c in rec.calls:
            if not (np.asarray(c["x"]).shape == exp_x.shape and np.array_equal(c["x"], exp_x)):
                problems.append(("mesh", float(np.asarray(c["x"]).size), "mesh handed to the solver is not the radial grid (+origin, -large points)"))
                break
    else:
        for c in rec.calls:
            if tuple(c["x"]) != r_interval:
                problems.append(("interval", None, "r_interval not forwarded"))
                break
    for c in rec.calls:
        if c["transform"] is not tf or any(c["kw"].get(k) != v for k, v in user.items()) or c["kw"].get("no_derivatives") is not True:
            problems.append(("options", None, "transform / ode_params / no_derivatives not forwarded to the ODE solver"))
            break
    # ---- the enumeration: (counter, monopole flag) per call vs the generated loop nest; the degree of each call is checked
    #      through the coefficient values below (l is taken from the generated loop inside Coq)
    trip, cvals = [], []
    for k, c in enumerate(rec.calls):
        vc = [float(t[2]) for t in c["cond"]] if kind == "bvp" else [float(v) for v in c["cond"]]
        cvals.append(vc)
        trip.append((k, any(v != 0.0 for v in vc)))
    if Q == 0.0:
        return problems, key
    exp_list = "[" + "; ".join(f"(({k})%Z, {'true' if b else 'false'})" for k, b in trip) + "]"
    add(f"map (fun it : Z * (Z * Z) => (fst it, {P_}_is_monopole (fst (snd it)) (snd (snd it)))) ({P_}_iters {L}%Z) = {exp_list}",
        "vm_compute; reflexivity", "enumeration", [[int(k), int(b)] for k, b in trip])
    ncoef = len(rec.calls[0]["coeffs"]) if rec.calls else 0
    add(f"map {P_}_fx_index (zrange 0 {nrow}%Z) = zrange 0 {nrow}%Z /\\ length {P_}_coeffs = {ncoef}%nat", "split; vm_compute; reflexivity", "fx_index")
    # ---- conditions of every call: structure by conversion with symbolic boundary, numbers by interval
    mono = [k for k, b in trip if b]
    if kind == "bvp":
        items = []
        for k, c in enumerate(rec.calls):
            ent = []
            for (i, j, v) in c["cond"]:
                v = float(v)
                sym = "0" if v == 0.0 else "B" if (mono and v == cvals[mono[0]][-1]) else None
                if sym is None:
                    problems.append(("cond", v, f"call {k}: boundary value {v} is neither 0 nor the monopole value"))
                    sym = "0"
                ent.append(f"(({int(i)})%Z, ({int(j)})%Z, {sym})")
            items.append("[" + "; ".join(ent) + "]")
        add(f"forall B : R, map (fun it : Z * (Z * Z) => bvp_cond (fst (snd it)) (snd (snd it)) B) (bvp_iters {L}%Z) = [" + "; ".join(items) + "]",
            "intros B; vm_compute; reflexivity", "conditions", cvals)
        if mono:
            y = cvals[mono[0]][-1]
            add(f"Rabs (bvp_boundary {r_lit(Q)} {r_lit(Y00)} - {r_lit(y)}) <= {tolq(y)}", "unfold bvp_boundary; interval with (i_prec 80)", "boundary", y)
    else:
        items = ["ivp_cond 0 0 B Rm" if b else "[0; 0]" for _, b in trip]
        if any(len(v) != 2 for v in cvals):
            problems.append(("cond", None, "initial value vector is not of length 2"))
        add(f"forall B Rm : R, map (fun it : Z * (Z * Z) => ivp_cond (fst (snd it)) (snd (snd it)) B Rm) (ivp_iters {L}%Z) = [" + "; ".join(items) + "]",
            "intros B Rm; vm_compute; reflexivity", "conditions", cvals)
        if mono:
            for j, y in enumerate(cvals[mono[0]][:2]):
                add(f"Rabs (nth {j} (ivp_cond 0 0 (ivp_boundary {r_lit(Q)} {r_lit(Y00)}) {r_lit(r_interval[0])}) 0 - {r_lit(y)}) <= {tolq(y)}",
                    "unfold ivp_cond, ivp_boundary; change (ivp_is_monopole 0 0) with true; cbv iota; cbn [nth]; interval with (i_prec 80)", f"initial[{j}]", y)
    # ---- coefficients and right-hand side of every call on dyadic radii; l of call k = degree of iteration k of the generated loop
    radii = [rng.randint(1, 4096) / 256, 2.0 ** -rng.randint(8, 30)]
    bind = lambda k: f"forall l m : Z, (l, m) = snd (nth {k} ({P_}_iters {L}%Z) (0, (0, 0))%Z) -> "      # noqa: E731
    intro = "intros l m E; vm_compute in E; injection E as -> ->; "
    unf = f"cbv [nth {P_}_coeffs {P_}_coeff_0 {'ivp_coeff_1' if kind == 'ivp' else ''}]; "
    for k, c in enumerate(rec.calls):
        if len(c["coeffs"]) != 3:
            problems.append(("coeffs", k, f"call {k}: coefficient list of length {len(c['coeffs'])}"))
            continue
        r = radii[k % 2]
        for j in ((0, 1, 2) if k in (0, nrow - 1) else (0,)):
            y = ev(c["coeffs"][j], r)
            add(f"{bind(k)}Rabs (nth {j} {P_}_coeffs (fun _ _ => 0) (IZR l) {r_lit(r)} - {r_lit(y)}) <= {tolq(y)}",
                intro + unf + "interval with (i_prec 80)", f"coeff[{j}](call {k}, r={r})", y)
        if kind == "bvp" and k in (0, 1, 4, nrow - 1):
            y = ev(c["coeffs"][0], 0.0)
            add(f"{bind(k)}Rabs (bvp_coeff_0_at0 (IZR l) - {r_lit(y)}) <= {tolq(y, 1e-9)}", intro + "unfold bvp_coeff_0_at0; interval with (i_prec 80)",
                f"coeff_0(call {k}, r=0)", y)
        r = radii[k % 2] if k % 2 == 0 else rng.randint(1, 2048) / 256
        rho_k = float(splines[k](r))
        y = ev(c["fx"], r)
        add(f"Rabs ({P_}_fx (fun _ _ => {r_lit(rho_k)}) {k}%Z {r_lit(r)} - {r_lit(y)}) <= {tolq(y)}",
            f"unfold {P_}_fx; interval with (i_prec 80)", f"f_x[{k}](r={r})", y)
        ctx.case((kind, deg, rgrid.size, k, r))
    # ---- the returned closure: pairing of solution k with harmonic row k, radial factor
    if L <= 2 and len(rec.calls) == nrow:
        pts = center + nprng.uniform(-3, 3, size=(6, 3))
        got = pot(pts.copy())
        rel = pts - center
        rr = np.linalg.norm(rel, axis=1)
        Yi = real_harmonics_l2(rel)[:nrow]
        exp = sum(rec.mark(k) * rr * Yi[k] for k in range(nrow))     # c_k r^2 / r (BVP)  or  c_k r (IVP)
        if not np.allclose(got, exp, rtol=1e-10, atol=1e-12):
            problems.append(("pairing", float(np.max(np.abs(got - exp))),
                             "returned closure is not sum_k radial_value(solution_k)(r) * Y_k(theta, phi) with Horton rows"))
        u_val = rec.mark(1) * rr[0] ** rec.power
        yk = u_val / rr[0] if kind == "bvp" else u_val
        add(f"Rabs ({P_}_radial_value (fun _ => {r_lit(u_val)}) {r_lit(float(rr[0]))} - {r_lit(yk)}) <= {tolq(yk)}",
            f"unfold {P_}_radial_value; interval with (i_prec 80)", "radial factor", yk)
    if kind == "bvp":   # documented: the potential is set to zero at the centre itself
        at0 = pot(center.reshape(1, 3).copy())
        if not (at0.shape == (1,) and at0[0] == 0.0):
            problems.append(("origin", float(at0[0]), "value at the expansion centre is not 0 (documented convention of the BVP solver)"))
    ctx.count(f"capture_{kind}_L{L}")
    return problems, key


def tie_solvers(ctx: Ctx, C: Cases):
    n = 2 if ctx.quick else 8
    for kind in ("bvp", "ivp"):
        for it in range(n):
            problems, key = capture_solver(ctx, kind, it, C)
            for what, obs, text in problems:
                ctx.fail(f"corr_{kind}_{what}", f"{key}:{what}", obs, f"{kind} solver, {text}", {"case": key}, found_input=False)


def run_tie_cases(ctx: Ctx, C: Cases):
    bad = ctx.coq_tactic_cases("C16_corr", HDR, C.cases, shard=max(20, len(C.cases) // 8 + 1), timeout=900)
    seen = set()
    for i in bad:
        m = C.meta[i]
        if m["obligation"] in seen:
            continue
        seen.add(m["obligation"])
        ctx.fail(m["obligation"], f"{m['key']}:{m['what']}", m["obs"] if isinstance(m["obs"], (int, float)) else None,
                 f"generated model does not match the implementation: {m['what']} ({m['key']})", {"goal": m["goal"][:700]}, found_input=False)
    for i in (0, len(C.meta) // 2, len(C.meta) - 1):
        if C.meta:
            m = C.meta[i]
            ctx.sample({"case": m["key"], "what": m["what"], "impl": m["obs"] if not isinstance(m["obs"], list) else "(sequence)"})
    ctx.cov["correspondence_cases"] = len(C.cases)
    return len(bad)


def tie_laplacian(ctx: Ctx, binding: dict, C: Cases):
    """interpolate_laplacian on densities g(r) * Y_k: the result is Y_k(p) * lap_row(f_k, f_k', f_k'', degrees[k], r)."""
    rng = ctx.rng
    for it in range(1 if ctx.quick else 4):
        deg = 5 if it % 2 == 0 else 3
        rgrid = dyadic_radial_grid(rng, rng.randint(6, 9))
        center = np.array([rng.randint(-4, 4) / 4 for _ in range(3)])
        ag = AtomGrid(rgrid, degrees=[deg], center=center)
        L = ag.l_max // 2
        nrow = (L + 1) ** 2
        nprng = np.random.default_rng(rng.randint(0, 2 ** 31))
        Ygrid = real_harmonics_l2(ag.points - center)
        rg = np.linalg.norm(ag.points - center, axis=1)
        for k in range(nrow):
            a = rng.randint(2, 12) / 8
            vals = (1.0 + rg) * np.exp(-a * rg) * Ygrid[k]
            lap = GP.interpolate_laplacian(ag, vals.copy())
            spl = ag.radial_component_splines(vals)
            pts = center + nprng.uniform(-2.5, 2.5, size=(1 if ctx.quick else 2, 3))
            got = lap(pts.copy())
            rel = pts - center
            rr = np.linalg.norm(rel, axis=1)
            Yp = real_harmonics_l2(rel)
            key = f"laplacian:seed={ctx.seed}:it={it}:deg={deg}:row={k}"
            for j in range(len(pts)):
                f0, f1, f2 = (float(spl[k](rr[j], nu)) for nu in (0, 1, 2))
                y = float(got[j])
                tol = r_lit(Fraction(1e-8) * (1 + abs(Fraction(y)) + abs(Fraction(f0)) / Fraction(float(rr[j])) ** 2))
                C.add(f"Rabs ({r_lit(float(Yp[k][j]))} * lap_row {r_lit(f0)} {r_lit(f1)} {r_lit(f2)} (IZR (nth {k} (lap_degrees {L}%Z) 0%Z)) {r_lit(float(rr[j]))} - {r_lit(y)}) <= {tol}",
                      f"let d := eval vm_compute in (nth {k} (lap_degrees {L}%Z) 0%Z) in change (nth {k} (lap_degrees {L}%Z) 0%Z) with d; unfold lap_row; interval with (i_prec 80)",
                      "corr_laplacian_row", key, f"point {pts[j].tolist()}", y)
                ctx.case(("laplacian", deg, k, j, it))
        # degrees list as a whole, and the cut-off rule on a spherical function
        C.add(f"lap_degrees {L}%Z = {zl([l * (l + 1) for l in range(L + 1) for _ in range(2 * l + 1)])}", "vm_compute; reflexivity",
              "corr_laplacian_degrees", f"laplacian:degrees:L={L}", "degrees")
        vals = np.exp(-rg)
        lap = GP.interpolate_laplacian(ag, vals.copy())
        u = np.array([0.6, 0.0, 0.8])
        a0, a1 = lap(center.reshape(1, 3).copy(), 0.25), lap((center + 0.25 * u).reshape(1, 3), 0.25)
        a2 = lap((center + 0.125 * u).reshape(1, 3), 0.25)
        if not (np.allclose(a0, a1, rtol=1e-9, atol=1e-12) and np.allclose(a2, a1, rtol=1e-9, atol=1e-12)):
            ctx.fail("corr_laplacian_cutoff", f"laplacian:cutoff:seed={ctx.seed}:it={it}", float(a0[0]),
                     "radii below the cut-off are not replaced by the cut-off (spherical function)", {"center": center.tolist()}, found_input=False)
    # molecular grid: closure i evaluates the atomic Laplacian on the grid / with the slice that the generated binding says
    mg, _ = small_molgrid(ctx, 2, dyadic=True)
    nprng = np.random.default_rng(rng.randint(0, 2 ** 31))
    vals = nprng.normal(size=mg.size)
    pts = nprng.uniform(-2, 2, size=(5, 3)) + mg.atcoords[0]
    got = GP.interpolate_laplacian(mg, vals.copy())(pts.copy())
    exp = np.zeros(len(pts))
    last = len(mg.atcoords) - 1
    for i in range(len(mg.atcoords)):
        gi = i if binding.get("grid") == "v_i" else last
        si = i if binding.get("function") == "v_i" else last
        s, e = mg.indices[si], mg.indices[si + 1]
        exp += GP.interpolate_laplacian(mg[gi], (vals * mg.aim_weights)[s:e])(pts.copy())
    ctx.case(("laplacian", "mol"))
    if not np.allclose(got, exp, rtol=1e-10, atol=1e-10):
        ctx.fail("corr_laplacian_mol", f"laplacian:mol:seed={ctx.seed}", float(np.max(np.abs(got - exp))),
                 f"interpolate_laplacian on a MolGrid does not follow the generated closure binding {binding}", {}, found_input=False)


def small_molgrid(ctx: Ctx, natom: int, dyadic=False, n_rad=40, deg=9, sep=None):
    rng = ctx.rng
    if natom == 1:
        coords = np.zeros((1, 3))
    else:
        d = sep if sep is not None else rng.choice([1.5, 2.0, 3.0])
        coords = np.array([[0.0, 0.0, 0.0], [d, 0.0, 0.0], [0.0, d, 0.0]][:natom])
    tf = BeckeRTransform(1e-4, R=1.5)
    ats = []
    for c in coords:
        rgrid = dyadic_radial_grid(rng, 6) if dyadic else tf.transform_1d_grid(GaussLegendre(n_rad))
        ats.append(AtomGrid(rgrid, degrees=[3 if dyadic else deg], center=c))
    mg = MolGrid(atnums=np.array([1] * natom), atgrids=ats, aim_weights=BeckeWeights(order=3), store=True)
    return mg, tf


def tie_molhelper(ctx: Ctx):
    """_interpolate_molgrid_helper: atom i gets (func_vals * aim_weights)[indices[i]:indices[i+1]] and molgrid[i]; result is the sum."""
    nprng = np.random.default_rng(ctx.rng.randint(0, 2 ** 31))
    for natom in (1, 2, 3):
        mg, _ = small_molgrid(ctx, natom, dyadic=True)
        for as_atomgrid in ((True, False) if natom == 1 else (False,)):
            grid = mg[0] if as_atomgrid else mg
            vals = nprng.integers(-9, 10, size=grid.size).astype(float)
            w = np.ones(grid.size) if as_atomgrid else mg.aim_weights
            seen = []

            def cb(atom_grid, fv, seen=seen):
                i = len(seen)
                seen.append((atom_grid, np.array(fv)))
                return lambda p, i=i: (i + 1.0) * np.ones(len(p)) + 0.5 * p[:, 0]
            pot = GP._interpolate_molgrid_helper(grid, vals.copy(), cb)
            pts = nprng.normal(size=(4, 3))
            got = pot(pts.copy())
            exp = sum((i + 1.0) + 0.5 * pts[:, 0] for i in range(natom))
            ok = len(seen) == natom and np.array_equal(got, exp)
            for i, (g, fv) in enumerate(seen):
                s, e = (0, grid.size) if as_atomgrid else (mg.indices[i], mg.indices[i + 1])
                ok = ok and np.array_equal(fv, (vals * w)[s:e]) and np.array_equal(g.points, (grid if as_atomgrid else mg[i]).points)
            ctx.case(("molhelper", natom, as_atomgrid))
            if not ok:
                ctx.fail("corr_molhelper", f"molhelper:natom={natom}:atomgrid={as_atomgrid}:seed={ctx.seed}", None,
                         "_interpolate_molgrid_helper does not hand (func_vals * aim_weights)[slice of atom i] to atom i and sum the results",
                         {}, found_input=False)


def s_density(points, center, coeffs, alphas):
    r2 = np.sum((points - center) ** 2, axis=1)
    return sum(c * (a / np.pi) ** 1.5 * np.exp(-a * r2) for c, a in zip(coeffs, alphas))


def s_potential(points, center, coeffs, alphas):
    r = np.linalg.norm(points - center, axis=1)
    out = np.zeros(len(points))
    for c, a in zip(coeffs, alphas):
        with np.errstate(all="ignore"):
            v = erf(math.sqrt(a) * r) / r
        v[r < 1e-12] = 2 * math.sqrt(a / math.pi)
        out += c * v
    return out


def tie_robust(ctx: Ctx, C: Cases):
    """solve_poisson_robust with the BVP solve replaced by a recorder: residual handed over and recombination."""
    from grid.coulomb import load_atomic_gaussian_params
    rng = ctx.rng
    nprng = np.random.default_rng(rng.randint(0, 2 ** 31))
    for natom, atnums in ((1, [rng.choice([1, 6, 8])]), (2, [1, rng.choice([6, 7, 17])])):
        mg, tf = small_molgrid(ctx, natom, dyadic=True)
        dens = np.abs(nprng.normal(size=mg.size)) + s_density(mg.points, mg.atcoords[0], [0.7], [0.9])
        for split2 in (False, True):
            cap = {}

            def fake_bvp(molgrid, residual, transform, **kw):
                cap.update(grid=molgrid, residual=np.array(residual), tf=transform, kw=kw)
                return lambda p: 0.25 + p[:, 1] - 2.0 * p[:, 2]
            fits = {}
            orig_fit = GR._fit_residual_gaussians

            def rec_fit(grid_pts, residual, atcoords, alphas_basis):
                out = orig_fit(grid_pts, residual, atcoords, alphas_basis)
                fits.update(inp=np.array(residual), out=out)
                return out
            with patched(GR, "solve_poisson_bvp", fake_bvp), patched(GR, "_fit_residual_gaussians", rec_fit):
                pot = GR.solve_poisson_robust(mg, dens.copy(), InverseRTransform(tf), np.array(atnums), mg.atcoords.copy(), split2=split2,
                                              remove_large_pts=7.0)
            pts = np.vstack([nprng.uniform(-3, 3, size=(5, 3)), mg.atcoords[:1]])
            got = pot(pts.copy())
            key = f"robust:natom={natom}:atnums={atnums}:split2={split2}:seed={ctx.seed}"
            params = [load_atomic_gaussian_params(int(z)) for z in atnums]
            res1 = dens - sum(s_density(mg.points, c, *p) for c, p in zip(mg.atcoords, params))
            vcore = sum(s_potential(pts, c, *p) for c, p in zip(mg.atcoords, params))
            marker = 0.25 + pts[:, 1] - 2.0 * pts[:, 2]
            scale = 1 + float(np.max(np.abs(dens)))
            ok_opts = cap.get("grid") is mg and cap.get("kw") == {"remove_large_pts": 7.0} and isinstance(cap.get("tf"), InverseRTransform)
            if split2:
                fc, fa, fcen, rout = fits["out"]
                fit_rho = sum((c * (a / np.pi) ** 1.5 * np.exp(-a * np.sum((mg.points - ce) ** 2, axis=1)) for c, a, ce in zip(fc, fa, fcen)), np.zeros(mg.size))
                vfit = sum((s_potential(pts, ce, [c], [a]) for c, a, ce in zip(fc, fa, fcen)), np.zeros(len(pts)))
                ok_res = np.allclose(fits["inp"], res1, rtol=0, atol=1e-11 * scale) and np.allclose(cap["residual"], res1 - fit_rho, rtol=0, atol=1e-10 * scale) \
                    and np.all(np.asarray(fc) >= 0)
                exp = vcore + vfit + marker
            else:
                ok_res = (not fits) and np.allclose(cap["residual"], res1, rtol=0, atol=1e-11 * scale)
                exp = vcore + marker
            ctx.case(("robust", natom, tuple(atnums), split2))
            ctx.count("robust_capture")
            if not (ok_opts and ok_res and np.allclose(got, exp, rtol=1e-10, atol=1e-10)):
                what = "options" if not ok_opts else "residual" if not ok_res else "recombination"
                ctx.fail(f"corr_robust_{what}", f"{key}:{what}", float(np.max(np.abs(got - exp))),
                         f"solve_poisson_robust ({what}): the residual handed to solve_poisson_bvp / the sum returned is not "
                         "density - core model (- fit), analytic core potential (+ fit potential) + numerical potential", {"case": key}, found_input=False)
            # generated arithmetic on a few grid points / evaluation points
            i = int(nprng.integers(0, mg.size))
            core_i = float(sum(GR._build_core_density(mg.points[i:i + 1], c, *p)[0] for c, p in zip(mg.atcoords, params)))
            if natom == 1 and not split2:
                C.add(f"Rabs (robust_split1 {r_lit(float(dens[i]))} {r_lit(core_i)} - {r_lit(float(cap['residual'][i]))}) <= {tolq(float(dens[i]), 1e-10)}",
                              "unfold robust_split1; interval with (i_prec 80)", "corr_robust_" + "robust_split1", key, "robust_split1")
            if split2:
                fi = float(fits["inp"][i] - fits["out"][3][i])
                C.add(f"Rabs (robust_split2 {r_lit(float(fits['inp'][i]))} {r_lit(fi)} - {r_lit(float(fits['out'][3][i]))}) <= {tolq(float(dens[i]), 1e-10)}",
                              "unfold robust_split2; interval with (i_prec 80)", "corr_robust_" + "robust_split2", key, "robust_split2")
            j = 0
            vb = float(exp[j] - vcore[j] - marker[j])
            C.add(f"Rabs (robust_total {r_lit(float(vcore[j]))} {r_lit(vb)} {r_lit(float(marker[j]))} - {r_lit(float(got[j]))}) <= {tolq(float(got[j]), 1e-10)}",
                          "unfold robust_total; interval with (i_prec 80)", "corr_robust_" + "robust_total", key, "robust_total")
    # core density of one primitive, and accumulation over two primitives
    for _ in range(3):
        c, a, r2 = rng.randint(1, 64) / 16, rng.randint(1, 4096) / 64, rng.randint(1, 256) / 128
        p = np.array([[math.sqrt(r2), 0.0, 0.0]])
        y = float(GR._build_core_density(p, np.zeros(3), np.array([c]), np.array([a]))[0])
        r2f = float(np.sum(p ** 2))
        C.add(f"Rabs (core_density_term {r_lit(c)} {r_lit(a)} {r_lit(r2f)} - {r_lit(y)}) <= {tolq(y, 1e-10)}",
                      "unfold core_density_term; interval with (i_prec 80)", "corr_robust_" + "core_density_term", f"core_density:c={c}:alpha={a}:r2={r2f}", "core_density_term")
        y2 = float(GR._build_core_density(p, np.zeros(3), np.array([c, 2 * c]), np.array([a, a / 4]))[0])
        C.add(f"Rabs (core_density_term {r_lit(c)} {r_lit(a)} {r_lit(r2f)} + core_density_term {r_lit(2 * c)} {r_lit(a / 4)} {r_lit(r2f)} - {r_lit(y2)}) <= {tolq(y2, 1e-10)}",
                      "unfold core_density_term; interval with (i_prec 80)", "corr_robust_" + "core_density_term", f"core_density_sum:c={c}:alpha={a}:r2={r2f}", "core_density_term")
        ctx.case(("core_density", c, a, r2))


# ============================================================================================ oracle validation + search (sweeps)
TOL = 1e-2          # absolute accuracy per unit of total |charge|: the tolerance of the existing tests (test_poisson.py: atol=1e-2)
LIN_TOL = 2e-4      # linearity defect allowed per unit of |a| V1 + |b| V2 scale (solver tolerance 1e-6, mesh adaptation)


def radial_grid(spec):
    name = spec[0]
    if name == "becke_gl":          # BeckeRTransform(rmin, R) on GaussLegendre(n)
        _, n, rmin, R = spec
        tf = BeckeRTransform(rmin, R=R)
        return tf.transform_1d_grid(GaussLegendre(n)), tf
    if name == "becke_trap":        # BeckeRTransform(rmin, R, trim_inf=True) on Trapezoidal(n)  (test_poisson.py)
        _, n, rmin, R = spec
        tf = BeckeRTransform(rmin, R, trim_inf=True)
        return tf.transform_1d_grid(Trapezoidal(n)), tf
    if name == "identity_laguerre":
        tf = IdentityRTransform()
        return tf.transform_1d_grid(GaussLaguerre(spec[1])), tf
    if name == "linear_trap":       # LinearFiniteRTransform(rmin, rmax) on Trapezoidal(n)  (IVP test)
        _, n, rmin, rmax = spec
        tf = LinearFiniteRTransform(rmin, rmax)
        return tf.transform_1d_grid(Trapezoidal(n)), tf
    raise KeyError(name)


def build_grid(case):
    rad, tf = radial_grid(case["radial"])
    coords = np.array(case["atoms"], dtype=float)
    ctor = case.get("molctor")
    if ctor:    # the class-method constructors rotate every shell by default (rotate=37) and use Becke weights
        atn = np.array([1] * len(coords))
        if ctor == "from_size":
            mg = MolGrid.from_size(atn, coords, case["size"], rgrid=rad, store=True)
        elif ctor == "from_pruned":
            mg = MolGrid.from_pruned(atn, coords, 1.0, r_sectors=[case["r_sectors"]] * len(coords), d_sectors=[case["d_sectors"]] * len(coords),
                                     rgrid=rad, store=True)
        elif ctor == "from_preset":
            mg = MolGrid.from_preset(atn, coords, case["preset"], rgrid=rad, store=True)
        else:
            raise KeyError(ctor)
        return mg, tf, coords
    ats = [AtomGrid(rad, degrees=[case["degree"]], center=c, rotate=case.get("rotate", 0)) for c in coords]
    if len(ats) == 1 and not case.get("as_molgrid"):
        return ats[0], tf, coords
    mg = MolGrid(atnums=np.array([1] * len(ats)), atgrids=ats, aim_weights=BeckeWeights(order=3), store=True)
    return mg, tf, coords


def lm_radial(l, alpha, power):
    return lambda s: s ** power * np.exp(-alpha * s * s)


def density_and_potential(case, coords):
    """returns rho(points), V(points), total absolute charge scale"""
    prims = case["density"]

    def rho(p):
        out = np.zeros(len(p))
        for pr in prims:
            if pr[0] == "s":
                _, cen, c, a = pr
                out += c * s_density(p, np.asarray(cen, float), [1.0], [a])
            else:
                _, l, row, c, a, power = pr
                rel = p - coords[0]
                r = np.linalg.norm(rel, axis=1)
                y = real_harmonics_l2(rel)[l * l + row]
                out += c * lm_radial(l, a, power)(r) * y
        return out

    def pot(p):
        out = np.zeros(len(p))
        for pr in prims:
            if pr[0] == "s":
                _, cen, c, a = pr
                out += c * s_potential(p, np.asarray(cen, float), [1.0], [a])
            else:
                _, l, row, c, a, power = pr
                g = lm_radial(l, a, power)
                rel = p - coords[0]
                r = np.linalg.norm(rel, axis=1)
                y = real_harmonics_l2(rel)[l * l + row]
                rad = np.array([4 * np.pi / (2 * l + 1) * (quad(lambda s: s ** (l + 2) * g(s), 0, ri, epsabs=1e-12)[0] / ri ** (l + 1)
                                                            + ri ** l * quad(lambda s: s ** (1 - l) * g(s), ri, np.inf, epsabs=1e-12)[0]) for ri in r])
                out += c * rad * y
        return out
    scale = 0.0
    for pr in prims:
        if pr[0] == "s":
            scale += abs(pr[2])
        else:   # size of the potential of this component
            _, l, row, c, a, power = pr
            scale += abs(c) * 4 * np.pi / (2 * l + 1) * quad(lambda s: s ** (l + 2) * lm_radial(l, a, power)(s), 0, np.inf)[0]
    return rho, pot, max(1.0, scale)


def eval_points(case, coords, nprng, n):
    """random points around the atoms, none closer than 1e-3 to a centre (the BVP closure returns 0 at the centre itself)"""
    box = case.get("box", 3.0)
    dmin = case.get("min_dist", 1e-3)
    pts = []
    while len(pts) < n:
        p = coords[nprng.integers(0, len(coords))] + nprng.uniform(-box, box, size=3)
        if min(np.linalg.norm(p - c) for c in coords) > dmin:
            pts.append(p)
    return np.array(pts)


def solve_case(case, grid, tf, values):
    np.random.seed(case.get("np_seed", 0))      # solve_ode_bvp draws its initial guess from np.random
    kind = case["solver"]
    if kind == "bvp":
        kw = dict(case.get("bvp", {}))
        return GP.solve_poisson_bvp(grid, values, InverseRTransform(tf), ode_params={}, **kw)
    if kind == "ivp":
        rad = grid.rgrid if isinstance(grid, AtomGrid) else grid[0].rgrid
        iv = case.get("r_interval") or (float(np.max(rad.points)), float(np.min(rad.points)))
        if case.get("r_factor"):      # start beyond / inside the outermost shell, stop above the innermost one
            iv = (case["r_factor"][0] * float(np.max(rad.points)), case["r_factor"][1] * float(np.min(rad.points)))
        return GP.solve_poisson_ivp(grid, values, InverseRTransform(tf), r_interval=iv, ode_params={})
    if kind == "robust":
        return GR.solve_poisson_robust(grid, values, InverseRTransform(tf), np.array(case["atnums"]), np.array(case["atoms"], float),
                                       split2=case["split2"], ode_params={}, **case.get("bvp", {}))
    raise KeyError(kind)


def run_case(ctx: Ctx, case, results):
    """Solve, compare with the analytic potential at random points.  Returns (max error / scale, potential callable, grid)."""
    nprng = np.random.default_rng([ctx.seed, case["id"]])
    grid, tf, coords = build_grid(case)
    rho, pot, scale = density_and_potential(case, coords)
    pts = eval_points(case, coords, nprng, case.get("npts", 40))
    try:
        V = solve_case(case, grid, tf, rho(grid.points))
    except ValueError as e:
        if "didn't converge" in str(e):
            ctx.count("sweep_not_converged")      # the ODE solver's documented failure mode: no potential is returned
            ctx.notes.append(f"ODE solver did not converge (no potential returned): {case_text(case)}")
            # atom-centred spherical Gaussians on the tests' grids are inside the envelope: no answer there is a failure;
            # anisotropic / off-centre components with the origin in the mesh are known to be fragile: counted only
            results.append((case, None if case["cat"] in ("bvp_lm", "bvp_near", "bvp_rot") else float("inf"),
                            dict(point=None, got="ValueError: " + str(e), expected="a potential", scale=1.0)))
            return None
        raise
    got = V(pts.copy())
    exp = pot(pts)
    err = np.abs(got - exp) / scale
    j = int(np.argmax(np.where(np.isfinite(err), err, np.inf)))
    results.append((case, float(err[j]), dict(point=pts[j].tolist(), got=float(got[j]), expected=float(exp[j]), scale=scale)))
    ctx.case(("sweep", case["id"]))
    ctx.count("sweep_" + case["solver"])
    return V, grid, tf, coords, pts, rho


def case_text(case):
    return {k: v for k, v in case.items() if k not in ("id",)}


def sweep_cases(ctx: Ctx):
    rng = ctx.rng
    q = ctx.quick
    cases = []

    def alpha():
        return round(10 ** rng.uniform(-0.5, 0.7), 3)

    def add(**kw):
        kw["id"] = len(cases)
        cases.append(kw)
    O = [0.0, 0.0, 0.0]
    gl = ("becke_gl", 70, 1e-5, 1.5)
    # --- BVP, atom-centred s-type Gaussians: one and several exponents, the radial set-ups of the existing tests, options
    add(solver="bvp", radial=gl, degree=rng.choice([5, 9]), atoms=[O], density=[("s", O, 1.0, alpha())], bvp=dict(remove_large_pts=10.0), cat="bvp")
    add(solver="bvp", radial=gl, degree=7, atoms=[[0.5, -0.25, 1.0]],
        density=[("s", [0.5, -0.25, 1.0], rng.choice([0.5, 1.5, -1.0]), alpha()), ("s", [0.5, -0.25, 1.0], 2.0, alpha()), ("s", [0.5, -0.25, 1.0], -0.75, alpha())],
        bvp=dict(remove_large_pts=10.0), cat="bvp")
    add(solver="bvp", radial=("becke_trap", 200, rng.choice([0.0, 1e-6]), 1.5), degree=5, atoms=[O], density=[("s", O, 1.0, alpha())],
        bvp=dict(remove_large_pts=1e6, include_origin=True), cat="bvp")
    add(solver="bvp", radial=("identity_laguerre", 100), degree=5, atoms=[O], density=[("s", O, 1.0, round(rng.uniform(0.1, 0.6), 3))],
        bvp=dict(remove_large_pts=None), box=6.0, cat="bvp")
    # without the origin the inner condition u(r_min) = 0 costs about V(0) r_min / r: small r_min, points not closer than 0.5
    add(solver="bvp", radial=("becke_gl", 70, 1e-5, 1.5), degree=5, atoms=[O], density=[("s", O, 1.0, alpha())],
        bvp=dict(remove_large_pts=10.0, include_origin=False), min_dist=0.5, cat="bvp")
    # --- anisotropic components rho = r^l exp(-a r^2) Y_lm against the analytic multipole potential
    add(solver="bvp", radial=("becke_gl", 70, 1e-3, 1.5), degree=5, atoms=[O], density=[("lm", 1, rng.choice([0, 1, 2]), 1.0, alpha(), 1)],
        bvp=dict(remove_large_pts=40.0, include_origin=False), box=2.0, npts=16, cat="bvp_lm")
    add(solver="bvp", radial=gl, degree=5, atoms=[O], density=[("lm", 2, rng.choice([0, 1, 2, 3, 4]), 1.0, alpha(), 2)],
        bvp=dict(remove_large_pts=40.0, include_origin=False), box=2.0, npts=16, cat="bvp_lm")
    add(solver="bvp", radial=("becke_gl", 70, 1e-3, 1.5), degree=5, atoms=[O],
        density=[("s", O, 1.0, alpha()), ("lm", 1, rng.choice([0, 1, 2]), 0.8, alpha(), 1), ("lm", 2, rng.choice([0, 1, 2, 3, 4]), -0.6, alpha(), 2)],
        bvp=dict(remove_large_pts=40.0, include_origin=False), box=2.0, npts=16, cat="bvp_lm")
    # --- ROTATED angular shells (rotate != 0; the default of the MolGrid constructors): anisotropic and off-centre densities
    rot = lambda: rng.choice([11, 37, rng.randint(1, 10 ** 6)])      # noqa: E731
    nogin = dict(remove_large_pts=40.0, include_origin=False)
    add(solver="bvp", radial=("becke_gl", 60, 1e-3, 1.5), degree=5, rotate=rot(), atoms=[O], density=[("lm", 1, rng.choice([0, 1, 2]), 1.0, alpha(), 1)],
        bvp=nogin, box=2.0, npts=16, cat="bvp_rot")
    add(solver="bvp", radial=("becke_gl", 60, 1e-3, 1.5), degree=rng.choice([5, 7]), rotate=rot(), atoms=[[0.25, -0.5, 1.0]],
        density=[("s", [0.25, -0.5, 1.0], 0.5, alpha()), ("lm", 2, rng.choice([0, 1, 2, 3, 4]), 1.0, alpha(), 2)], bvp=nogin, box=2.0, npts=16, cat="bvp_rot")
    d_ = [round(rng.uniform(-0.09, 0.09), 3) for _ in range(3)]
    add(solver="bvp", radial=("becke_gl", 60, 1e-3, 1.5), degree=9, rotate=rot(), atoms=[O], density=[("s", d_, 1.0, round(rng.uniform(0.6, 1.0), 3))],
        bvp=nogin, box=2.5, npts=30, cat="bvp_rot")
    add(solver="bvp", radial=("becke_gl", 60, 1e-3, 1.5), degree=0, molctor="from_size", size=50, atoms=[O, [10.0, 0.0, 0.0]],
        density=[("lm", 1, rng.choice([0, 1, 2]), 1.0, alpha(), 1), ("s", [10.0, 0.0, 0.0], 1.0, alpha())], bvp=nogin, box=2.0, npts=16, cat="bvp_rot")
    # --- molecular grids (Becke weights), Gaussians on the atoms
    add(solver="bvp", radial=("becke_gl", 60, 1e-5, 1.5), degree=9, atoms=[O, [10.0, 0.0, 0.0]],
        density=[("s", O, 1.0, alpha()), ("s", [10.0, 0.0, 0.0], rng.choice([1.0, 0.5]), alpha())], bvp=dict(remove_large_pts=10.0), cat="bvp_mol")
    add(solver="bvp", radial=gl, degree=5, atoms=[O], as_molgrid=True, density=[("s", O, 1.0, alpha())], bvp=dict(remove_large_pts=10.0), cat="bvp_mol")
    # --- IVP, spherically symmetric densities
    add(solver="ivp", radial=("becke_gl", 120, 0.01, 1.5), degree=5, atoms=[O], density=[("s", O, 1.0, alpha())], cat="ivp")
    add(solver="ivp", radial=("linear_trap", 4000, 1e-3, 200.0), degree=3, atoms=[[1.0, 0.0, 0.0]],
        density=[("s", [1.0, 0.0, 0.0], 1.0, round(rng.uniform(0.08, 0.5), 3)), ("s", [1.0, 0.0, 0.0], 0.5, round(rng.uniform(0.08, 0.5), 3))],
        r_interval=(200.0, 1e-3), box=8.0, cat="ivp")
    # the integration may start beyond the outermost radial shell (the docstring recommends a large b) or inside it
    add(solver="ivp", radial=("becke_gl", rng.choice([80, 100, 120]), 1e-3, 1.5), degree=3, atoms=[O],
        density=[("s", O, 1.0, alpha()), ("s", O, 0.5, alpha())], r_factor=(round(rng.uniform(1.2, 1.9), 3), 2.0), cat="ivp")
    add(solver="ivp", radial=("becke_gl", rng.choice([80, 100, 120]), 1e-3, 1.5), degree=3, atoms=[[0.5, 0.25, -1.0]],
        density=[("s", [0.5, 0.25, -1.0], 1.0, alpha())], r_factor=(round(rng.uniform(0.3, 0.8), 3), 1.0), cat="ivp")
    if not q:
        for _ in range(6):
            add(solver="ivp", radial=("becke_gl", rng.choice([80, 100, 120]), rng.choice([1e-3, 0.01]), rng.choice([1.0, 1.5])), degree=rng.choice([3, 5]),
                atoms=[O], density=[("s", O, round(rng.uniform(0.3, 2), 2), alpha()) for _ in range(rng.randint(1, 3))],
                r_factor=(round(rng.choice([rng.uniform(1.05, 1.9), rng.uniform(0.2, 0.95)]), 3), rng.choice([1.0, 2.0, 5.0])), cat="ivp")
        for _ in range(24):
            c = [round(rng.uniform(-1, 1), 2) for _ in range(3)]
            add(solver="bvp", radial=("becke_gl", rng.choice([60, 90, 120]), rng.choice([1e-5, 1e-4, 1e-3]), rng.choice([1.0, 1.5, 2.5])),
                degree=rng.choice([5, 9, 13]), atoms=[c], density=[("s", c, round(rng.uniform(-2, 2), 2) or 1.0, alpha()) for _ in range(rng.randint(1, 4))],
                bvp=dict(remove_large_pts=rng.choice([10.0, 30.0])), cat="bvp")
        for l in (1, 2):
            for row in range(2 * l + 1):
                add(solver="bvp", radial=("becke_gl", 80, 1e-3, 1.5), degree=rng.choice([5, 7]), atoms=[O], density=[("lm", l, row, 1.0, alpha(), l)],
                    bvp=dict(remove_large_pts=40.0, include_origin=(l == 2)), box=2.0, npts=16, cat="bvp_lm")
        add(solver="bvp", radial=("becke_trap", 250, 0.0, 1.5), degree=5, atoms=[O], density=[("lm", 1, 1, 1.0, 1.0, 1)],
            bvp=dict(remove_large_pts=1e6, include_origin=True), box=2.0, npts=16, cat="bvp_lm")
        # Gaussians NEAR (not on) the atom: all degrees of the expansion contribute
        for d in (0.1, 0.2):
            cen = [d, 0.0, 0.0] if rng.random() < 0.5 else [0.0, d * 0.6, -d * 0.8]
            add(solver="bvp", radial=("becke_gl", 80, 1e-3, 1.5), degree=17, atoms=[O], density=[("s", cen, 1.0, round(rng.uniform(0.5, 1.2), 3))],
                bvp=dict(remove_large_pts=40.0, include_origin=False), box=2.5, rotate=(0 if d < 0.15 else rot()), cat="bvp_near")
        # rotated shells: more seeds, both solvers' constructors
        for _ in range(6):
            l = rng.choice([1, 2])
            add(solver="bvp", radial=("becke_gl", rng.choice([60, 80]), 1e-3, 1.5), degree=rng.choice([5, 7, 9]), rotate=rot(), atoms=[O],
                density=[("lm", l, rng.randint(0, 2 * l), 1.0, alpha(), l)], bvp=nogin, box=2.0, npts=16, cat="bvp_rot")
        for _ in range(3):
            d_ = [round(rng.uniform(-0.09, 0.09), 3) for _ in range(3)]
            add(solver="bvp", radial=("becke_gl", 60, 1e-3, 1.5), degree=rng.choice([9, 11]), rotate=rot(), atoms=[O],
                density=[("s", d_, 1.0, round(rng.uniform(0.6, 1.0), 3))], bvp=nogin, box=2.5, npts=30, cat="bvp_rot")
        add(solver="bvp", radial=("becke_gl", 60, 1e-3, 1.5), degree=0, molctor="from_pruned", r_sectors=[0.5, 2.5], d_sectors=[5, 9, 7],
            atoms=[O, [10.0, 0.0, 0.0]], density=[("lm", 1, rng.choice([0, 1, 2]), 1.0, alpha(), 1), ("s", [10.0, 0.0, 0.0], 1.0, alpha())],
            bvp=nogin, box=2.0, npts=16, cat="bvp_rot")
        add(solver="bvp", radial=("becke_gl", 60, 1e-3, 1.5), degree=0, molctor="from_size", size=110, atoms=[O, [9.0, 0.0, 0.0], [0.0, 9.0, 0.0]],
            density=[("s", [0.08, -0.05, 0.06], 1.0, 0.8), ("s", [9.0, 0.0, 0.0], 0.5, alpha()), ("lm", 2, rng.randint(0, 4), 0.7, alpha(), 2)],
            bvp=nogin, box=2.0, npts=20, cat="bvp_rot")
        # molecules: 2 and 3 atoms
        add(solver="bvp", radial=("becke_gl", 100, 1e-5, 1.5), degree=29, atoms=[O, [10.0, 0.0, 0.0]],
            density=[("s", O, 1.0, 0.1), ("s", [10.0, 0.0, 0.0], 1.0, 0.1)], bvp=dict(remove_large_pts=10.0, include_origin=True), box=4.0, cat="bvp_mol")
        add(solver="bvp", radial=("becke_gl", 60, 1e-4, 1.5), degree=9, atoms=[O, [9.0, 0.0, 0.0], [0.0, 9.0, 0.0]],
            density=[("s", O, 1.0, alpha()), ("s", [9.0, 0.0, 0.0], -0.5, alpha()), ("s", [0.0, 9.0, 0.0], 0.7, alpha())],
            bvp=dict(remove_large_pts=10.0), cat="bvp_mol")
        for _ in range(8):
            c = [round(rng.uniform(-1, 1), 2) for _ in range(3)]
            add(solver="ivp", radial=("becke_gl", rng.choice([120, 200]), 0.01, 1.5), degree=rng.choice([3, 5, 11]), atoms=[c],
                density=[("s", c, round(rng.uniform(0.3, 2), 2), alpha()) for _ in range(rng.randint(1, 3))], cat="ivp")
        add(solver="ivp", radial=("linear_trap", 10000, 1e-3, 1000.0), degree=11, atoms=[O], density=[("s", O, 1.0, 0.1)],
            r_interval=(1000.0, 1e-3), box=50.0, cat="ivp")
    return cases


def sweep_homogeneity(ctx: Ctx, out, deep: bool = False, only=None):
    """V[c rho] = c V[rho] over many orders of magnitude of the amplitude c (linearity clause; what counts as "small" must be relative to
    the density, not absolute).  The BVP solves get a zero initial guess (a documented solve_ode_bvp option): with the default random
    O(1) guess the round-off of the first Newton step (about 1e-11 absolute) would drown densities of amplitude 1e-9."""
    rng = ctx.rng
    O = [0.0, 0.0, 0.0]
    confs = [("bvp", [("lm", 1, rng.randint(0, 2), 1.0, round(rng.uniform(0.6, 1.5), 3), 1)], 5),
             ("bvp", [("s", [round(rng.uniform(-0.09, 0.09), 3) for _ in range(3)], 1.0, round(rng.uniform(0.6, 1.0), 3))], 9),
             ("ivp", [("s", O, 1.0, round(rng.uniform(0.5, 2.0), 3))], 3)]
    if deep:
        confs += [("bvp", [("s", O, 1.0, round(rng.uniform(0.6, 1.5), 3)), ("lm", 2, rng.randint(0, 4), 0.5, round(rng.uniform(0.6, 1.5), 3), 2)], 5),
                  ("bvp", [("lm", 2, rng.randint(0, 4), 1.0, round(rng.uniform(0.6, 1.5), 3), 2)], 7)]
    scales = {"bvp": [1e-9, 1e4] + ([1e-12, 1e-6, 1e-3, 1e6] if deep else []), "ivp": [1e3] + ([1e6] if deep else [])}
    if only is not None:
        confs, scales = [(only["solver"], [tuple(d) for d in only["density"]], only["degree"])], {only["solver"]: [only["c"]]}
    for ci, (solver, dens, deg) in enumerate(confs):
        rot = (only or {}).get("rotate", rng.choice([0, 11, 37]))
        tf = BeckeRTransform(1e-3, R=1.5)
        rad = tf.transform_1d_grid(GaussLegendre(60 if solver == "bvp" else 100))
        ag = AtomGrid(rad, degrees=[deg], rotate=rot)
        coords = np.zeros((1, 3))
        case = dict(density=dens, box=2.0)
        rho, pot, scale = density_and_potential(case, coords)
        pts = eval_points(case, coords, np.random.default_rng([ctx.seed, 6000 + ci]), 30) if only is None else np.array([only["point"]], float)
        base = rho(ag.points)
        nx = int(np.sum(rad.points <= 40.0))

        def solve(vals):
            if solver == "bvp":
                return GP.solve_poisson_bvp(ag, vals, InverseRTransform(tf), remove_large_pts=40.0, include_origin=False,
                                            ode_params={"initial_guess_y": np.zeros((2, nx))})
            return GP.solve_poisson_ivp(ag, vals, InverseRTransform(tf), r_interval=(float(rad.points[-1]), float(rad.points[0])), ode_params={})
        v1 = solve(base.copy())(pts.copy())
        for c in scales[solver]:
            try:
                vc = solve(c * base)(pts.copy()) / c
            except ValueError as e:
                if "didn't converge" in str(e) and c > 1e4:     # huge amplitudes exhaust the mesh budget of scipy's solve_bvp: not resolved
                    ctx.count("sweep_not_converged")
                    ctx.notes.append(f"homogeneity: ODE solver did not converge for amplitude {c:g} ({solver}, {dens})")
                    continue
                raise
            dev = np.abs(vc - v1) / scale
            j = int(np.argmax(dev))
            ctx.case(("homogeneity", solver, ci, c))
            ctx.count("sweep_homogeneity")
            out.append(dict(cat="lin", err=float(dev[j]), tol=LIN_TOL, key=f"homogeneity:{solver}:conf={ci}:c={c:g}:seed={ctx.seed}",
                            text=f"solve_poisson_{solver}: V[{c:g} * rho] / {c:g} = {float(vc[j])} but V[rho] = {float(v1[j])} (analytic {float(pot(pts[j:j + 1])[0])}) at "
                                 f"{pts[j].tolist()}; rho = {dens} on AtomGrid(Becke(1e-3,1.5) o GaussLegendre, degrees=[{deg}], rotate={rot})",
                            replay=dict(solver=solver, density=[list(d) for d in dens], degree=deg, rotate=rot, c=c, point=pts[j].tolist(),
                                        got=float(vc[j]), expected=float(v1[j]))))


def sweep_linearity(ctx: Ctx, out):
    """V[a rho1 + b rho2] = a V[rho1] + b V[rho2] on the real solvers (validates the oracle hypothesis `solver_linear`
    together with the linearity of splines and quadrature)."""
    rng = ctx.rng
    confs = [("bvp", ("becke_gl", 70, 1e-5, 1.5), 5, [[0.0, 0.0, 0.0]], dict(remove_large_pts=10.0)),
             ("ivp", ("becke_gl", 120, 0.01, 1.5), 3, [[0.0, 0.0, 0.0]], {}),
             ("bvp", ("becke_gl", 50, 1e-5, 1.5), 5, [[0.0, 0.0, 0.0], [10.0, 0.0, 0.0]], dict(remove_large_pts=10.0))]
    if not ctx.quick:
        confs += [("bvp", ("becke_gl", 90, 1e-3, 1.5), 9, [[0.3, 0.1, 0.0]], dict(remove_large_pts=30.0, include_origin=False)),
                  ("bvp", ("becke_trap", 200, 0.0, 1.5), 5, [[0.0, 0.0, 0.0]], dict(remove_large_pts=1e6)),
                  ("ivp", ("becke_gl", 150, 0.01, 1.5), 5, [[0.0, 0.0, 1.0]], {})]
    for ci, (solver, radial, deg, atoms, kw) in enumerate(confs):
        a, b = round(rng.uniform(-3, 3), 2), round(rng.uniform(-3, 3), 2)
        case = dict(id=1000 + ci, solver=solver, radial=radial, degree=deg, atoms=atoms, bvp=kw, density=[])
        grid, tf, coords = build_grid(case)
        nprng = np.random.default_rng([ctx.seed, 1000 + ci])
        a1, a2 = round(10 ** rng.uniform(-0.4, 0.6), 3), round(10 ** rng.uniform(-0.4, 0.6), 3)
        rho1 = s_density(grid.points, coords[0], [1.0], [a1])
        rho2 = s_density(grid.points, coords[-1], [0.6, 0.4], [a2, 2 * a2])
        if solver == "bvp" and len(atoms) == 1:   # an anisotropic part as well (quadrupole)
            rel = grid.points - coords[0]
            rho2 = rho2 + 0.3 * np.sum(rel ** 2, axis=1) * np.exp(-a1 * np.sum(rel ** 2, axis=1)) * real_harmonics_l2(rel)[4 + ci % 5]
        pts = eval_points(dict(box=3.0), coords, nprng, 40)
        try:
            Vs = [solve_case(case, grid, tf, r.copy())(pts.copy()) for r in (rho1, rho2, a * rho1 + b * rho2)]
        except ValueError as e:
            if "didn't converge" in str(e):
                ctx.count("sweep_not_converged")
                continue
            raise
        comb = a * Vs[0] + b * Vs[1]
        scale = max(1.0, float(np.max(np.abs(a * Vs[0]) + np.abs(b * Vs[1]))))
        dev = np.abs(Vs[2] - comb) / scale
        j = int(np.argmax(dev))
        ctx.case(("linearity", ci))
        ctx.count("sweep_linearity")
        out.append(dict(cat="lin", err=float(dev[j]), tol=LIN_TOL, key=f"linearity:{solver}:conf={ci}:seed={ctx.seed}",
                        text=f"V[{a} rho1 + {b} rho2] differs from {a} V[rho1] + {b} V[rho2] by {float(dev[j]):.3e} (relative to the terms) at {pts[j].tolist()}",
                        replay=dict(solver=solver, radial=radial, degree=deg, atoms=atoms, options=kw, a=a, b=b, alpha1=a1, alpha2=a2, point=pts[j].tolist(),
                                    got=float(Vs[2][j]), expected=float(comb[j]))))


def sweep_robust(ctx: Ctx, out):
    from grid.coulomb import load_atomic_gaussian_params
    rng = ctx.rng
    confs = [([1], [[0.0, 0.0, 0.0]], 60, 5), ([rng.choice([6, 8]), 1], [[0.0, 0.0, 0.0], [10.0, 0.0, 0.0]], 50, 5)]
    if not ctx.quick:
        confs += [([1, 1], [[0.0, 0.0, 0.0], [10.0, 0.0, 0.0]], 60, 9), ([7], [[0.2, 0.0, -0.4]], 100, 9), ([17], [[0.0, 0.0, 0.0]], 100, 5),
                  ([6], [[0.0, 0.0, 0.0]], 70, 5)]
    for ci, (atnums, atoms, nrad, deg) in enumerate(confs):
        case = dict(id=2000 + ci, solver="robust", radial=("becke_gl", nrad, 1e-5, 1.5), degree=deg, atoms=atoms, atnums=atnums,
                    bvp=dict(remove_large_pts=10.0))
        grid, tf, coords = build_grid(case)
        nprng = np.random.default_rng([ctx.seed, 2000 + ci])
        pts = np.vstack([eval_points(dict(box=3.0), coords, nprng, 30), coords[:1]])
        params = [load_atomic_gaussian_params(int(z)) for z in atnums]
        core_v = sum(s_potential(pts, c, *p) for c, p in zip(coords, params))
        core_scale = max(1.0, float(sum(np.sum(np.abs(p[0])) for p in params)))
        for split2 in (False, True):
            case["split2"] = split2
            # (1) exact cancellation: the density IS the core model (built by the library's own routine: the residual is exactly 0)
            dens = sum(GR._build_core_density(grid.points, c, *p) for c, p in zip(coords, params))
            got = solve_case(case, grid, tf, dens.copy())(pts.copy())
            err = np.abs(got - core_v) / core_scale
            j = int(np.argmax(err))
            ctx.case(("robust_exact", ci, split2))
            ctx.count("sweep_robust")
            out.append(dict(cat="robust", err=float(err[j]), tol=1e-9, key=f"robust_exact:atnums={atnums}:split2={split2}:conf={ci}:seed={ctx.seed}",
                            text=f"density = fitted core model of Z={atnums}: solve_poisson_robust(split2={split2}) differs from the analytic core potential by "
                                 f"{float(err[j]):.3e} (per unit core charge) at {pts[j].tolist()}",
                            replay=dict(case=case_text(case), point=pts[j].tolist(), got=float(got[j]), expected=float(core_v[j]))))
        # (2) smooth density: agreement with the analytic potential and with the plain solver
        a = round(10 ** rng.uniform(-0.3, 0.4), 3)
        dens = sum(s_density(grid.points, c, [1.0], [a]) for c in coords)
        exact = sum(s_potential(pts[:-1], c, [1.0], [a]) for c in coords)
        plain_case = dict(case, solver="bvp")
        plain = solve_case(plain_case, grid, tf, dens.copy())(pts[:-1].copy())
        for split2 in (False, True):
            case["split2"] = split2
            got = solve_case(case, grid, tf, dens.copy())(pts[:-1].copy())
            scale = float(len(coords)) + core_scale       # the numerical part solves for rho - core model
            err = np.maximum(np.abs(got - exact), np.abs(got - plain)) / scale
            j = int(np.argmax(err))
            ctx.case(("robust_smooth", ci, split2))
            ctx.count("sweep_robust")
            out.append(dict(cat="robust", err=float(err[j]), tol=TOL, key=f"robust_smooth:atnums={atnums}:alpha={a}:split2={split2}:conf={ci}:seed={ctx.seed}",
                            text=f"Gaussian density alpha={a} on Z={atnums}: solve_poisson_robust(split2={split2}) = {float(got[j])}, analytic {float(exact[j])}, "
                                 f"plain solver {float(plain[j])} at {pts[j].tolist()}",
                            replay=dict(case=case_text(case), alpha=a, point=pts[j].tolist(), got=float(got[j]), expected=float(exact[j]), plain=float(plain[j]))))


def sweep(ctx: Ctx):
    """returns list of dict(cat, err, tol, key, text, replay) for every comparison made"""
    out = []
    results = []
    for case in sweep_cases(ctx):
        run_case(ctx, case, results)
    for case, err, info in results:
        if err is None:
            continue
        if info["point"] is None:
            text = f"solve_poisson_{case['solver']} returned no potential ({info['got']}) for a density inside the envelope; case {case_text(case)}"
        else:
            text = (f"solve_poisson_{case['solver']} = {info['got']} but the analytic potential is {info['expected']} at {info['point']} "
                    f"(error {err:.3e} per unit charge, allowed {TOL}); case {case_text(case)}")
        out.append(dict(cat=case["cat"], err=(err if err != float("inf") else 1e9), tol=TOL, key=f"{case['solver']}:case={case['id']}:tier={ctx.tier}:seed={ctx.seed}",
                        text=text, replay=dict(case=case_text(case), **info)))
    for part, cat in ((sweep_linearity, "lin"), (sweep_homogeneity, "lin"), (sweep_robust, "robust")):
        try:
            part(ctx, out) if part is not sweep_homogeneity else part(ctx, out, not ctx.quick)
        except Exception as e:  # noqa: BLE001  -- the solvers raised on an input inside the envelope
            out.append(dict(cat=cat, err=1e9, tol=1.0, key=f"{part.__name__}:raised:{type(e).__name__}:tier={ctx.tier}:seed={ctx.seed}",
                            text=f"{part.__name__}: the solver raised {type(e).__name__}: {e} on a spherical atom-centred Gaussian density",
                            replay=dict(exception=repr(e))))
    return out


# which sweep categories can exhibit a concrete failing input for a broken obligation
OBLIGATION_CATS = {
    "bvp_ode_is_radial_poisson": ["bvp_lm", "bvp_rot", "bvp", "bvp_mol"], "bvp_ode_explicit_form": ["bvp_lm", "bvp"], "radial_laplacian": ["bvp"],
    "bvp_coeff_at_origin": ["bvp_lm", "bvp"], "ivp_ode_is_radial_poisson": ["ivp"], "far_field": ["bvp", "bvp_mol"],
    "far_field_other_components": ["bvp_lm"], "far_field_ivp": ["ivp"], "far_field_ivp_other_components": ["ivp"],
    "lm_enumeration": ["bvp_lm", "bvp_rot", "bvp"], "lm_enumeration_ivp": ["ivp"], "laplacian_expansion": ["lap"], "laplacian_degrees": ["lap"],
    "linear_in_density": ["lin", "bvp"], "linear_in_density_ivp": ["lin", "ivp"], "robust_recombination": ["robust"],
    "robust_recombination_sound": ["robust", "reuse"], "laplacian_mol_sum": [], "robust_exact_on_core_model": ["robust"], "robust_core_pair_poisson": ["robust"],
}


def tiny_setup(alpha, center, atnum=1, n_rad=40, degree=3, rmin=1e-5):
    tf = BeckeRTransform(rmin, R=1.5)
    rad = tf.transform_1d_grid(GaussLegendre(n_rad))
    ag = AtomGrid(rad, degrees=[degree], center=np.asarray(center, float))
    return ag, tf


def sweep_large_requests(ctx: Ctx, out, deep: bool, alpha=None, only=None):
    """Every returned callable is a pointwise function of the evaluation points: a request of N points must equal the same callable on
    small slices of the request and the analytic value -- at the head, in the middle and at the TAIL -- for N = 0, 1, around powers of
    two and just above 2**20 (block-wise evaluation paths)."""
    rng = ctx.rng
    alpha = round(rng.uniform(0.6, 1.4), 3) if alpha is None else alpha
    center = np.array([0.25, -0.5, 0.125])
    ag, tf = tiny_setup(alpha, center)
    dens = s_density(ag.points, center, [1.0], [alpha])
    big = 2 ** 20 + rng.choice([4321, 1, 77777])
    counts_small = [0, 1, 2, 2 ** 10 - 1, 2 ** 10 + 1, 2 ** 16 + 3]
    nprng = np.random.default_rng([ctx.seed, 4000])
    makers = [("solve_poisson_bvp", lambda: GP.solve_poisson_bvp(ag, dens.copy(), InverseRTransform(tf), remove_large_pts=10.0, ode_params={}),
               lambda p: s_potential(p, center, [1.0], [alpha]), TOL)]
    if deep:
        tf_i = BeckeRTransform(0.01, R=1.5)
        ag_i = AtomGrid(tf_i.transform_1d_grid(GaussLegendre(100)), degrees=[3], center=center)
        dens_i = s_density(ag_i.points, center, [1.0], [alpha])
        makers += [
            ("solve_poisson_ivp", lambda: GP.solve_poisson_ivp(ag_i, dens_i.copy(), InverseRTransform(tf_i), ode_params={},
                                                               r_interval=(float(ag_i.rgrid.points[-1]), float(ag_i.rgrid.points[0]))),
             lambda p: s_potential(p, center, [1.0], [alpha]), TOL),
            ("solve_poisson_robust", lambda: GR.solve_poisson_robust(ag, dens.copy(), InverseRTransform(tf), np.array([1]), center.reshape(1, 3),
                                                                     remove_large_pts=10.0, ode_params={}),
             lambda p: s_potential(p, center, [1.0], [alpha]), 2 * TOL),
            ("interpolate_laplacian", lambda: GP.interpolate_laplacian(ag, s_potential(ag.points, center, [1.0], [alpha])), None, None)]
    for name, make, exact, tol in makers:
        if only is not None and name != only[0]:
            continue
        np.random.seed(0)
        V = make()
        if only is not None:
            counts_small, big = [], only[1]
        small = counts_small if (deep or name == "solve_poisson_bvp") else []
        if name == "solve_poisson_ivp":      # scipy's OdeSolution (the dense output behind the IVP potential) rejects an empty array
            small = [n for n in small if n > 0]
        for n in small + [big]:
            # points in a shell 0.3 <= |p - centre| <= 3 (away from the centre: the BVP closure returns 0 there by convention)
            d = nprng.normal(size=(n, 3))
            d /= np.maximum(np.linalg.norm(d, axis=1, keepdims=True), 1e-300)
            pts = center + d * nprng.uniform(0.3, 3.0, size=(n, 1))
            snap = pts.copy()
            key = f"large_request:{name}:n={n}:alpha={alpha}:seed={ctx.seed}"
            try:
                got = np.asarray(V(pts))
            except Exception as e:  # noqa: BLE001
                out.append(dict(cat="large", err=1e9, tol=1.0, key=key, text=f"{name}(...) raised {type(e).__name__}: {e} on a request of {n} points",
                                replay=dict(function=name, n=n, alpha=alpha, exception=repr(e))))
                continue
            ctx.case(("large", name, n))
            ctx.count("sweep_large_request")
            bad = None
            if got.shape != (n,):
                bad = (0, float(got.size), float(n), f"result has shape {got.shape}, expected ({n},)")
            elif not np.array_equal(pts, snap):
                bad = (0, 1.0, 0.0, "the caller's points array was modified")
            elif n:
                blocks = [slice(0, min(n, 64)), slice(n // 2, min(n, n // 2 + 64)), slice(max(0, n - 64), n)]
                for where, sl in zip(("head", "middle", "tail"), blocks):
                    ref = np.asarray(V(snap[sl].copy()))
                    dv = np.abs(got[sl] - ref)
                    j = int(np.argmax(dv))
                    if not dv[j] <= 1e-10 * (1 + abs(ref[j])):
                        bad = (sl.start + j, float(got[sl][j]), float(ref[j]), f"{where} of the request differs from the same callable on that slice alone")
                        break
                    if exact is not None:
                        ex = exact(snap[sl])
                        de = np.abs(got[sl] - ex)
                        j = int(np.argmax(de))
                        if not de[j] <= tol:
                            bad = (sl.start + j, float(got[sl][j]), float(ex[j]), f"{where} of the request differs from the analytic potential")
                            break
            if bad is not None:
                idx, g, e, why = bad
                out.append(dict(cat="large", err=max(abs(g - e), 1.0), tol=1e-6, key=key,
                                text=f"{name}(unit Gaussian alpha={alpha} on a degree-3 atomic grid)(points[0:{n}]): {why}: entry {idx} is {g}, expected {e}",
                                replay=dict(function=name, n=n, alpha=alpha, index=idx, point=snap[idx].tolist() if n else None, got=g, expected=e)))
            else:
                out.append(dict(cat="large", err=0.0, tol=1.0, key=key, text="", replay={}))


def sweep_robust_valence(ctx: Ctx, out, deep: bool):
    """Multi-centre robust solves whose Split-1 residual has a positive, fit-able part (core model + valence Gaussians on the atoms):
    both split options against the analytic potential and against each other; plus the oracle hypothesis on the NNLS fit itself."""
    from grid.coulomb import load_atomic_gaussian_params
    rng = ctx.rng
    confs = [([1, 1], [[0.0, 0.0, 0.0], [10.0, 0.0, 0.0]])]
    if deep:
        confs += [([rng.choice([6, 8]), 1], [[0.0, 0.0, 0.0], [0.0, 10.0, 0.0]]), ([1, 1, 1], [[0.0, 0.0, 0.0], [12.0, 0.0, 0.0], [0.0, 0.0, -12.0]])]
    for ci, (atnums, atoms) in enumerate(confs):
        case = dict(id=2500 + ci, solver="robust", radial=("becke_gl", 50, 1e-3, 1.5), degree=9, atoms=atoms, atnums=atnums,
                    bvp=dict(remove_large_pts=40.0, include_origin=False))
        grid, tf, coords = build_grid(case)
        nprng = np.random.default_rng([ctx.seed, 2500 + ci])
        pts = eval_points(dict(box=3.0, min_dist=0.2), coords, nprng, 40)
        params = [load_atomic_gaussian_params(int(z)) for z in atnums]
        q = [round(rng.uniform(0.5, 1.0), 2) for _ in coords]
        a = [round(rng.uniform(0.5, 1.0), 3) for _ in coords]
        dens = sum(GR._build_core_density(grid.points, c, *p) for c, p in zip(coords, params)) \
            + sum(qi * s_density(grid.points, c, [1.0], [ai]) for qi, ai, c in zip(q, a, coords))
        exact = sum(s_potential(pts, c, *p) for c, p in zip(coords, params)) + sum(qi * s_potential(pts, c, [1.0], [ai]) for qi, ai, c in zip(q, a, coords))
        scale = float(sum(np.sum(np.abs(p[0])) for p in params) + sum(q))
        res = {}
        for split2 in (False, True):
            case["split2"] = split2
            key = f"robust_valence:atnums={atnums}:q={q}:alpha={a}:split2={split2}:seed={ctx.seed}"
            try:
                res[split2] = solve_case(case, grid, tf, dens.copy())(pts.copy())
            except Exception as e:  # noqa: BLE001
                out.append(dict(cat="robust", err=1e9, tol=1.0, key=key, text=f"solve_poisson_robust(split2={split2}) raised {type(e).__name__}: {e}; {case_text(case)}",
                                replay=dict(case=case_text(case), q=q, alpha=a, exception=repr(e))))
                continue
            err = np.abs(res[split2] - exact) / scale
            if split2 and False in res:
                err = np.maximum(err, np.abs(res[True] - res[False]) / scale)
            j = int(np.argmax(err))
            ctx.case(("robust_valence", ci, split2))
            ctx.count("sweep_robust")
            out.append(dict(cat="robust", err=float(err[j]), tol=TOL, key=key,
                            text=f"core model of Z={atnums} + valence Gaussians q={q}, alpha={a} on atoms {atoms}: solve_poisson_robust(split2={split2}) = "
                                 f"{float(res[split2][j])}, analytic {float(exact[j])}" + (f", split2=False gives {float(res[False][j])}" if split2 and False in res else "")
                                 + f" at {pts[j].tolist()} (error {float(err[j]):.3e} per unit charge)",
                            replay=dict(case=case_text(case), q=q, alpha=a, point=pts[j].tolist(), got=float(res[split2][j]), expected=float(exact[j]))))
        # the fit oracle: (c >= 0, alphas, centres, residual - sum_i c_i g_i) -- only if the helper still has this interface
        try:
            resid = sum(qi * s_density(grid.points, c, [1.0], [ai]) for qi, ai, c in zip(q, a, coords))
            fc, fa, fcen, rout = GR._fit_residual_gaussians(grid.points, resid.copy(), coords.copy(), np.geomspace(0.05, 50.0, 8))
            fit_rho = sum((c * s_density(grid.points, np.asarray(ce, float), [1.0], [al]) for c, al, ce in zip(fc, fa, fcen)), np.zeros(grid.size))
            dev = float(np.max(np.abs(rout - (resid - fit_rho))))
            ok = len(fc) == len(fa) == len(fcen) and np.all(np.asarray(fc) >= 0)
        except (AttributeError, TypeError, ValueError):
            continue
        ctx.case(("fit_oracle", ci))
        out.append(dict(cat="fit_oracle", err=dev if ok else 1e9, tol=1e-10 * (1 + float(np.max(np.abs(resid)))),
                        key=f"fit_oracle:atoms={atoms}:q={q}:alpha={a}:seed={ctx.seed}",
                        text=f"_fit_residual_gaussians on centres {atoms}: the returned residual differs by {dev:.3e} from input - sum_i c_i g(alpha_i, centre_i) "
                             "built from the returned coefficients, exponents and centres",
                        replay=dict(atoms=atoms, q=q, alpha=a, deviation=dev)))


def sweep_eval_histories(ctx: Ctx, out, deep: bool):
    """A returned potential is a function of the point COORDINATES: evaluating it on a buffer, changing the buffer in place (shift, refill)
    and evaluating again must give what a fresh copy of the buffer gives; likewise for views, reversed / strided and Fortran-ordered
    arrays, and for repeated evaluation of an unchanged array.  Densities are anisotropic about the expansion centre."""
    rng = ctx.rng
    center = np.array([0.25, -0.5, 0.125])
    off = center + np.array([round(rng.uniform(-0.09, 0.09), 3) for _ in range(3)])
    alpha = round(rng.uniform(0.6, 1.0), 3)
    tf = BeckeRTransform(1e-3, R=1.5)
    rad = tf.transform_1d_grid(GaussLegendre(50))
    ag = AtomGrid(rad, degrees=[7], center=center, rotate=rng.choice([0, 11, 37]))
    dens = s_density(ag.points, off, [1.0], [alpha])
    exact = lambda p: s_potential(p, off, [1.0], [alpha])      # noqa: E731
    kw = dict(remove_large_pts=40.0, include_origin=False)
    makers = [("solve_poisson_bvp", lambda: GP.solve_poisson_bvp(ag, dens.copy(), InverseRTransform(tf), ode_params={}, **kw), exact, TOL)]
    if deep:
        mg = MolGrid(atnums=np.array([1, 1]), atgrids=[AtomGrid(rad, degrees=[7], center=c) for c in (center, center + np.array([10.0, 0, 0]))],
                     aim_weights=BeckeWeights(order=3), store=True)
        dens_m = s_density(mg.points, off, [1.0], [alpha])
        makers += [
            ("solve_poisson_bvp[MolGrid]", lambda: GP.solve_poisson_bvp(mg, dens_m.copy(), InverseRTransform(tf), ode_params={}, **kw), exact, TOL),
            ("solve_poisson_ivp", lambda: GP.solve_poisson_ivp(ag, dens.copy(), InverseRTransform(tf), ode_params={},
                                                               r_interval=(float(rad.points[-1]), float(rad.points[0]))), None, None),
            ("solve_poisson_robust", lambda: GR.solve_poisson_robust(ag, dens.copy(), InverseRTransform(tf), np.array([1]), center.reshape(1, 3),
                                                                     ode_params={}, **kw), exact, 2 * TOL),
            ("interpolate_laplacian", lambda: GP.interpolate_laplacian(ag, s_potential(ag.points, off, [1.0], [alpha])), None, None)]
    nprng = np.random.default_rng([ctx.seed, 7000])

    def shell(n):
        d = nprng.normal(size=(n, 3))
        return center + d / np.linalg.norm(d, axis=1, keepdims=True) * nprng.uniform(0.4, 2.5, size=(n, 1))
    for name, make, ex, tol in makers:
        np.random.seed(0)
        key = f"eval_history:{name}:alpha={alpha}:seed={ctx.seed}"
        try:
            V = make()
            buf = shell(24)
            steps = [("first evaluation", lambda: buf),
                     ("same array again", lambda: buf),
                     ("after `buf[:, 2] += 0.75` in place", lambda: (buf.__setitem__((slice(None), 2), buf[:, 2] + 0.75), buf)[1]),
                     ("after refilling the buffer `buf[:] = other points`", lambda: (buf.__setitem__(slice(None), shell(24)), buf)[1]),
                     ("reversed view `buf[::-1]`", lambda: buf[::-1]),
                     ("strided view `buf[::2]`", lambda: buf[::2]),
                     ("Fortran-ordered copy", lambda: np.asfortranarray(buf)),
                     ("column view of a wider array", lambda: np.hstack([np.zeros((len(buf), 1)), buf, np.ones((len(buf), 2))])[:, 1:4])]
            # the whole history runs first on the caller's objects only (an evaluation on any other array in between could hide state kept
            # between calls); the references on fresh arrays are computed afterwards
            trace = []
            for what, get in steps:
                arr = get()
                got = np.asarray(V(arr))
                trace.append((what, got, np.array(arr, dtype=float, order="C", copy=True)))
            bad = None
            for what, got, coords_ in trace:
                ref = np.asarray(V(coords_.copy()))
                dv = np.abs(got - ref) if got.shape == ref.shape else np.array([np.inf])
                j = int(np.argmax(dv))
                if got.shape != ref.shape or not dv[j] <= 1e-9 * (1 + abs(ref[j])):
                    bad = (what, float(got.ravel()[min(j, got.size - 1)]), float(ref[j]), coords_[j].tolist(), "the same coordinates in a fresh array")
                    break
                if ex is not None:
                    e_ = ex(coords_)
                    far = np.linalg.norm(coords_ - center, axis=1) >= 0.4      # the accuracy statement is about points away from the expansion centre
                    de = np.where(far, np.abs(got - e_), 0.0)
                    j = int(np.argmax(de))
                    if not de[j] <= tol:
                        bad = (what, float(got[j]), float(e_[j]), coords_[j].tolist(), "the analytic potential")
                        break
            ctx.case(("eval_history", name))
            ctx.count("sweep_eval_history")
        except Exception as e:  # noqa: BLE001
            out.append(dict(cat="history", err=1e9, tol=1.0, key=key, text=f"{name}: evaluation history raised {type(e).__name__}: {e}", replay=dict(exception=repr(e))))
            continue
        if bad is None:
            out.append(dict(cat="history", err=0.0, tol=1.0, key=key, text="", replay={}))
        else:
            what, g, r_, p_, ref_name = bad
            out.append(dict(cat="history", err=max(abs(g - r_), 1e-3), tol=1e-6, key=key,
                            text=f"{name}(Gaussian alpha={alpha} at {off.tolist()} on an atomic grid centred at {center.tolist()}): evaluation "
                                 f"'{what}' returns {g} at {p_}, but {ref_name} gives {r_}",
                            replay=dict(function=name, step=what, alpha=alpha, gaussian_centre=off.tolist(), grid_centre=center.tolist(), point=p_, got=g, expected=r_)))


def sweep_reuse(ctx: Ctx, out, deep: bool, alpha=None, only=None):
    """Histories that pass the SAME array object to several solves: no call may modify the caller's array (byte-wise snapshot) and every result
    is judged against the analytic potential on its own."""
    rng = ctx.rng
    alpha = round(rng.uniform(0.6, 1.4), 3) if alpha is None else alpha
    center = np.zeros(3)
    ag, tf = tiny_setup(alpha, center, n_rad=50, degree=5)
    itf = InverseRTransform(tf)
    nprng = np.random.default_rng([ctx.seed, 5000])
    d = nprng.normal(size=(40, 3))
    pts = center + d / np.linalg.norm(d, axis=1, keepdims=True) * nprng.uniform(0.3, 3.0, size=(40, 1))
    exact = s_potential(pts, center, [1.0], [alpha])
    atn, atc = np.array([1]), center.reshape(1, 3)
    steps = {"robust": lambda a: GR.solve_poisson_robust(ag, a, itf, atn, atc, remove_large_pts=10.0, ode_params={}),
             "robust_split2": lambda a: GR.solve_poisson_robust(ag, a, itf, atn, atc, split2=True, remove_large_pts=10.0, ode_params={}),
             "bvp": lambda a: GP.solve_poisson_bvp(ag, a, itf, remove_large_pts=10.0, ode_params={}),
             "laplacian": lambda a: GP.interpolate_laplacian(ag, a)}
    histories = [["robust", "bvp", "robust_split2"], ["bvp", "bvp"]]
    if deep:
        histories += [["robust_split2", "robust", "bvp"], ["robust", "robust"], ["laplacian", "bvp", "robust"]]
    if only is not None:
        histories = [list(only)]
    for hi, hist in enumerate(histories):
        dens = np.ascontiguousarray(s_density(ag.points, center, [1.0], [alpha]), dtype=np.float64)     # ONE array object for the whole history
        snap = dens.tobytes()
        key = f"reuse:{'>'.join(hist)}:alpha={alpha}:seed={ctx.seed}"
        bad = None
        for si, step in enumerate(hist):
            np.random.seed(0)
            V = steps[step](dens)
            ctx.count("sweep_reuse_step")
            if step != "laplacian":
                got = V(pts.copy())
                err = np.abs(got - exact)
                j = int(np.argmax(err))
                if not err[j] <= 2 * TOL:
                    bad = (float(err[j]), f"step {si + 1} ({step}) of the history {hist} on one density array returns {float(got[j])}, the analytic potential is "
                                          f"{float(exact[j])} at {pts[j].tolist()}", dict(point=pts[j].tolist(), got=float(got[j]), expected=float(exact[j])))
                    break
            if dens.tobytes() != snap:
                ch = float(np.max(np.abs(dens - np.frombuffer(snap, dtype=np.float64))))
                bad = (max(ch, 1.0), f"step {si + 1} ({step}) of the history {hist} modified the caller's density array (largest change {ch:.3e})",
                       dict(largest_change=ch))
                break
        ctx.case(("reuse", hi))
        if bad is None:
            out.append(dict(cat="reuse", err=0.0, tol=1.0, key=key, text="", replay={}))
        else:
            out.append(dict(cat="reuse", err=bad[0], tol=1e-6 if "modified" in bad[1] else 2 * TOL, key=key, text=bad[1],
                            replay=dict(history=hist, alpha=alpha, grid="AtomGrid(Becke(1e-5,1.5) o GaussLegendre(50), degrees=[5]), Z=1 at the origin", **bad[2])))


def sweep_laplacian(ctx: Ctx, out):
    """interpolate_laplacian of the analytic potential gives back -4 pi rho (oracle validation of the spline derivatives)"""
    tf = BeckeRTransform(1e-3, 1.5)
    rad = tf.transform_1d_grid(Trapezoidal(800 if ctx.quick else 3000))
    ag = AtomGrid(rad, degrees=[5])
    a = round(ctx.rng.uniform(0.1, 0.6), 3)
    lap = GP.interpolate_laplacian(ag, s_potential(ag.points, np.zeros(3), [1.0], [a]))
    nprng = np.random.default_rng([ctx.seed, 3000])
    pts = nprng.uniform(-2, 2, size=(40, 3))
    pts = pts[np.linalg.norm(pts, axis=1) > 0.2]
    got = lap(pts.copy())
    exp = -4 * np.pi * s_density(pts, np.zeros(3), [1.0], [a])
    err = np.abs(got - exp)
    j = int(np.argmax(err))
    ctx.case(("sweep_laplacian", a))
    # an l = 2 function r^2 exp(-b r^2) Y_2m: Laplacian (4 b^2 r^4 - 14 b r^2) exp(-b r^2) Y_2m
    b_, row = round(ctx.rng.uniform(0.3, 1.0), 3), ctx.rng.randint(0, 4)
    rel = ag.points
    rg2 = np.sum(rel ** 2, axis=1)
    lap2 = GP.interpolate_laplacian(ag, rg2 * np.exp(-b_ * rg2) * real_harmonics_l2(rel)[4 + row])
    got2 = lap2(pts.copy())
    r2 = np.sum(pts ** 2, axis=1)
    exp2 = (4 * b_ ** 2 * r2 ** 2 - 14 * b_ * r2) * np.exp(-b_ * r2) * real_harmonics_l2(pts)[4 + row]
    err2 = np.abs(got2 - exp2)
    j2 = int(np.argmax(err2))
    ctx.case(("sweep_laplacian_l2", b_, row))
    out.append(dict(cat="lap", err=float(err2[j2]), tol=TOL, key=f"laplacian_l2:beta={b_}:row={row}:seed={ctx.seed}",
                    text=f"interpolate_laplacian(r^2 exp(-{b_} r^2) Y_2[row {row}]) = {float(got2[j2])} but the analytic Laplacian is {float(exp2[j2])} at {pts[j2].tolist()}",
                    replay=dict(beta=b_, row=row, point=pts[j2].tolist(), got=float(got2[j2]), expected=float(exp2[j2]))))
    out.append(dict(cat="lap", err=float(err[j]), tol=TOL, key=f"laplacian:alpha={a}:seed={ctx.seed}",
                    text=f"interpolate_laplacian(erf(sqrt({a}) r)/r) = {float(got[j])} but -4 pi rho = {float(exp[j])} at {pts[j].tolist()}",
                    replay=dict(alpha=a, point=pts[j].tolist(), got=float(got[j]), expected=float(exp[j]))))


LAPMOL_KEY = "interpolate_laplacian(MolGrid[(0,0,0),(1.5,0,0)]; GaussLegendre(40)+Becke(1e-4,1.5), degree 9, Becke weights)(exp(-|r|^2)) at (0.5, 0.25, -0.25)"


def laplacian_mol_canonical():
    """Deterministic input (no randomness): Laplacian of a Gaussian sitting on the first atom of a two-atom molecular grid.
    Property: the molecular result is the sum over the atoms A of the atomic Laplacians of (w_A f) -- each evaluated through the
    single-atom code path."""
    tf = BeckeRTransform(1e-4, R=1.5)
    rad = tf.transform_1d_grid(GaussLegendre(40))
    coords = np.array([[0.0, 0.0, 0.0], [1.5, 0.0, 0.0]])
    ats = [AtomGrid(rad, degrees=[9], center=c) for c in coords]
    mg = MolGrid(atnums=np.array([1, 1]), atgrids=ats, aim_weights=BeckeWeights(order=3), store=True)
    f = np.exp(-np.sum(mg.points ** 2, axis=1))
    p = np.array([[0.5, 0.25, -0.25]])
    got = float(GP.interpolate_laplacian(mg, f.copy())(p.copy())[0])
    exp = 0.0
    for i in range(2):
        s, e = mg.indices[i], mg.indices[i + 1]
        exp += float(GP.interpolate_laplacian(mg[i], (f * mg.aim_weights)[s:e])(p.copy())[0])
    r2 = float(np.sum(p ** 2))
    return got, exp, (4 * r2 - 6) * math.exp(-r2)


def run(ctx: Ctx):  # noqa: F811
    import time
    t_last = [time.time()]

    def phase(name):
        now = time.time()
        ctx.cov.setdefault("phase_s", {})[name] = round(now - t_last[0], 1)
        t_last[0] = now
    gen_ok = True
    gen_err = None
    units = {}
    try:
        units = gen(ctx)
    except (U, SyntaxError) as e:      # fail closed; reported below through ctx.broken_tie together with what the sweeps find
        gen_ok = False
        gen_err = e
    status = {}
    if gen_ok:
        ctx.copy_coq("C16")
        try:    # the C17 development (erf, s_poisson on the regenerated coulomb.py) for the core density / core potential pair
            from props import c17
            c17.gen(ctx)
            ctx.copy_coq("C17/C17_erf.v", "C17/C17_proofs.v")
        except Exception as e:  # noqa: BLE001
            ctx.notes.append(f"C17 development not available: {e}")
        status = ctx.coq_build()
        ctx.register_props(status)
        if status.get("C16_refuted_lapmol.v"):
            ctx.mark_refuted("laplacian_mol_sum", "laplacian_mol_refuted_lemma")
    phase("gen+coq")
    # --- the molecular Laplacian on a fixed input (re-derives the known finding while it exists)
    got, exp, ana = laplacian_mol_canonical()
    ctx.case(("laplacian_mol_canonical",))
    if abs(got - exp) > 1e-8 * max(1.0, abs(exp)):
        ctx.fail("laplacian_mol_sum", LAPMOL_KEY, round(got, 9),
                 f"interpolate_laplacian on a two-atom MolGrid returns {got}; the sum over the atoms of the atomic Laplacians of w_A*f is {exp} "
                 f"(analytic Laplacian of the function: {ana}): every closure appended in the loop calls the LAST atom's "
                 "interpolate_laplacian_atom_grid (late binding), so all atoms use the last atom's slice of func_vals",
                 {"reproduce": "tools/props/c16.py: laplacian_mol_canonical()", "expected": exp, "analytic": ana})
    phase("laplacian_mol_canonical")
    # --- tie
    if gen_ok and status.get("C16_gen.v") and status.get("C16_model.v"):
        C = Cases()
        tie_solvers(ctx, C)
        tie_laplacian(ctx, units.get("interpolate_laplacian", {}).get("closure_binding", {}), C)
        tie_robust(ctx, C)
        phase("tie_capture")
        run_tie_cases(ctx, C)
        phase("tie_coq")
    tie_molhelper(ctx)
    # --- oracle validation + search on the real solvers
    out = sweep(ctx)
    sweep_laplacian(ctx, out)
    phase("sweep")
    # large requests and reuse histories: cheap versions always, full versions in thorough or whenever the tie is broken
    deep = (not ctx.quick) or gen_err is not None or any(o["status"] != "discharged" for o in ctx.obligations.values()) \
        or any(f.obligation.startswith("corr_") for f in ctx.failures)
    for part, cat in ((sweep_reuse, "reuse"), (sweep_eval_histories, "history"), (sweep_robust_valence, "robust"), (sweep_large_requests, "large")):
        try:
            part(ctx, out, deep)
        except Exception as e:  # noqa: BLE001
            out.append(dict(cat=cat, err=1e9, tol=1.0, key=f"{part.__name__}:raised:{type(e).__name__}:tier={ctx.tier}:seed={ctx.seed}",
                            text=f"{part.__name__}: {type(e).__name__}: {e}", replay=dict(exception=repr(e))))
    phase("large+reuse+histories")
    worst = {}
    for rec in out:
        ctx.cov.setdefault("sweep_max_error_over_tol", {})
        m = ctx.cov["sweep_max_error_over_tol"]
        m[rec["cat"]] = round(max(m.get(rec["cat"], 0.0), rec["err"] / rec["tol"]), 4)
        if not rec["err"] <= rec["tol"]:
            if ctx.is_known(rec["key"], round(rec["err"], 9)):     # a listed finding is re-derived here and never hides another failing input
                ctx.fail(f"sweep_{rec['cat']}", rec["key"], round(rec["err"], 9), rec["text"], rec["replay"])
                continue
            if rec["cat"] not in worst or rec["err"] / rec["tol"] > worst[rec["cat"]]["err"] / worst[rec["cat"]]["tol"]:
                worst[rec["cat"]] = rec
    # candidates = concrete failing inputs found on the implementation, worst first, known findings excluded
    ranked = sorted(worst.values(), key=lambda r: (r["cat"] == "fit_oracle", -(r["err"] / r["tol"])))     # public entry points first
    fresh = [r for r in ranked if not ctx.is_known(r["key"], round(r["err"], 9))]
    used = set()
    # tie failures recorded so far have no input of their own: hand them the first fresh failing input as replay
    tie_fails, seen_obl = [], set()
    for f in list(ctx.failures):
        if f.obligation.startswith("corr_") and not f.found_input:
            ctx.failures.remove(f)
            if f.obligation not in seen_obl:
                seen_obl.add(f.obligation)
                tie_fails.append(f)
    for f in tie_fails:
        ctx.broken_tie(f.obligation, f.text, [(r["key"], round(r["err"], 9), r["text"], r["replay"]) for r in fresh])
        used.update(r["cat"] for r in fresh[:1])
    if gen_err is not None:
        # the translator failed closed: no model, no theorems -- the first failing input that is not a listed finding is the replay
        ctx.broken_tie("translator(poisson.py, robust_poisson.py)", gen_err,
                       [(r["key"], round(r["err"], 9), r["text"], r["replay"]) for r in fresh])
        used.update(r["cat"] for r in fresh[:1])
    for name, ob in ctx.obligations.items():
        if ob["status"] == "discharged":
            continue
        # a proof about generated definitions broke: prefer an input of a matching category, else any fresh failing input
        pick = next((worst[c] for c in OBLIGATION_CATS.get(name, []) if c in worst), None) or (fresh[0] if fresh else None)
        if pick is not None:
            used.add(pick["cat"])
            ctx.fail(name, pick["key"], round(pick["err"], 9), f"theorem {name} no longer checks; concrete input: {pick['text']}", pick["replay"])
    for cat, rec in worst.items():
        if cat not in used:
            ctx.fail(f"sweep_{cat}", rec["key"], round(rec["err"], 9), rec["text"], rec["replay"])
    ctx.cov["rule"] = ("tie: solve_ode_bvp/solve_ode_ivp replaced in-process by recorders on small atomic grids with dyadic radial points "
                       "(degrees 3-7, random centres, include_origin / remove_large_pts / ode_params variants); every captured coefficient callable, f_x, "
                       "boundary or initial value is enclosed by `interval` against the regenerated Coq term, the captured (counter, degree, monopole) "
                       "sequence is compared with the regenerated loop nest by vm_compute, marker solutions check spline row <-> harmonic row; "
                       "interpolate_laplacian on g(r) Y_k row by row; solve_poisson_robust with the BVP solve replaced by a recorder. "
                       "sweep (oracle validation, partial): real solves vs analytic erf / multipole potentials, linearity, robust exact-cancellation")
    ctx.trusted += [
        "fail-closed ast translator tools/props/c16.py (validated by the interval / vm_compute correspondence cases)",
        "interval tactic (Interval 4.6)",
        "ORACLE solver_linear: solve_ode_bvp / solve_ode_ivp are linear in (f_x, boundary or initial values) -- validated on each run by the linearity sweep to "
        f"{LIN_TOL} relative",
        "ORACLE atom_linear: AtomGrid.radial_component_splines and AtomGrid.integrate are linear in the function values (same sweep)",
        "ORACLE rows: row k of generate_real_spherical_harmonics / radial_component_splines is the Horton-2 row (validated against Cartesian formulas for l <= 2)",
        "ORACLE Y00 = 1/sqrt(4 pi) (validated on each run)",
        "ORACLE fit: _fit_residual_gaussians returns (c >= 0, alphas, centres, residual - sum c g) (validated in the robust capture)",
        f"partial: agreement of the numerical solutions with the analytic potentials is tested to {TOL} per unit charge (tolerance of the existing tests), "
        "not proved: discretisation error of splines and of scipy's collocation / Runge-Kutta solvers",
        "scipy.special.erf and scipy.integrate.quad as independent oracles of the sweep",
    ]
    ctx.assumptions += [
        "densities resolved by the grid: exponents 0.3..5, centres on the atoms (quick) or within 0.25 bohr (thorough), atoms of molecular grids well separated",
        "a ValueError('The ode solver didn't converge') is the ODE solver's documented failure mode and counts as 'not resolved' (counted, not a violation)",
        "a request of zero points is not demanded of solve_poisson_ivp's potential (scipy.integrate OdeSolution raises on an empty array); the other callables return an empty array",
        "the BVP closure returns 0 exactly at an expansion centre (documented: solution assumed zero at the origin); evaluation points avoid the centres",
    ]
    y00 = float(generate_real_spherical_harmonics(0, np.array([0.1]), np.array([0.1]))[0, 0])
    if abs(y00 - 1 / math.sqrt(4 * math.pi)) > 1e-14:
        ctx.fail("oracle_Y00", "oracle:Y00", y00, f"Y_00 = {y00} is not 1/sqrt(4 pi)", {}, found_input=True)


def replay(rp: dict) -> int:
    """./check C16 --replay <file>: re-run the recorded concrete input on the implementation."""
    import json
    print(json.dumps({k: v for k, v in rp.items() if k != "coq_log_tail"}, indent=1, default=str)[:3000])
    if rp.get("key") == LAPMOL_KEY:
        got, exp, ana = laplacian_mol_canonical()
        print(f"interpolate_laplacian(two-atom MolGrid) = {got}; sum over atoms of atomic Laplacians = {exp}; analytic = {ana}")
        return int(abs(got - exp) > 1e-8 * max(1.0, abs(exp)))
    case = rp.get("case")
    if isinstance(case, dict) and case.get("solver") in ("bvp", "ivp") and "point" in rp and "density" in case:
        case = dict(case, id=-1)
        case["radial"] = tuple(case["radial"])
        case["density"] = [tuple(d) for d in case["density"]]
        if case.get("r_interval"):
            case["r_interval"] = tuple(case["r_interval"])
        grid, tf, coords = build_grid(case)
        rho, pot, scale = density_and_potential(case, coords)
        V = solve_case(case, grid, tf, rho(grid.points))
        p = np.array([rp["point"]], dtype=float)
        got, exp = float(V(p.copy())[0]), float(pot(p)[0])
        print(f"solve_poisson_{case['solver']}(...)({rp['point']}) = {got}; analytic potential = {exp}; error per unit charge = {abs(got - exp) / scale:.3e} (allowed {TOL})")
        return int(not abs(got - exp) / scale <= TOL)
    if isinstance(case, dict) and case.get("solver") == "robust" and str(rp.get("key", "")).startswith("robust_exact") and "point" in rp:
        from grid.coulomb import load_atomic_gaussian_params
        case = dict(case, id=-1)
        case["radial"] = tuple(case["radial"])
        grid, tf, coords = build_grid(case)
        params = [load_atomic_gaussian_params(int(z)) for z in case["atnums"]]
        dens = sum(GR._build_core_density(grid.points, c, *p) for c, p in zip(coords, params))
        p_ = np.array([rp["point"]], dtype=float)
        got = float(solve_case(case, grid, tf, dens.copy())(p_.copy())[0])
        exp = float(sum(s_potential(p_, c, *p) for c, p in zip(coords, params))[0])
        scale = max(1.0, float(sum(np.sum(np.abs(p[0])) for p in params)))
        print(f"density = fitted core model of Z={case['atnums']}: solve_poisson_robust(split2={case['split2']})({rp['point']}) = {got}; "
              f"analytic core potential = {exp}; error per unit core charge = {abs(got - exp) / scale:.3e} (allowed 1e-9)")
        return int(not abs(got - exp) / scale <= 1e-9)
    key = str(rp.get("key", ""))
    if key.startswith("homogeneity:"):
        import random

        class StubH:
            seed, tier, quick = 0, "quick", True
            rng = random.Random(0)

            def case(self, *a, **k):
                pass

            def count(self, *a, **k):
                pass
        recs = []
        sweep_homogeneity(StubH(), recs, False, only=rp)
        for r in recs:
            print(r["text"], f"-> deviation {r['err']:.3e} per unit scale (allowed {r['tol']})")
        return int(any(not r["err"] <= r["tol"] for r in recs))
    if key.startswith("large_request:") or key.startswith("reuse:"):
        import random

        class Stub:      # the searches only need a seeded rng and counters
            seed, tier, quick = 0, "quick", True
            rng = random.Random(0)

            def case(self, *a, **k):
                pass

            def count(self, *a, **k):
                pass
        recs = []
        if key.startswith("large_request:"):
            sweep_large_requests(Stub(), recs, True, alpha=rp["alpha"], only=(rp["function"], int(rp["n"])))
        else:
            sweep_reuse(Stub(), recs, True, alpha=rp["alpha"], only=rp["history"])
        bad = [r for r in recs if not r["err"] <= r["tol"]]
        for r in bad:
            print(r["text"])
        if not bad:
            print("the recorded request / history now passes")
        return int(bool(bad))
    print("(no automatic replay for this record; see `text` and `case`)")
    return 0
