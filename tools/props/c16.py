"""C16 — Poisson solvers reproduce Coulomb potentials of Gaussian charges and are linear.

gen:   poisson.py / robust_poisson.py are re-translated on every run (Python ast, fail closed):
         * _solve_poisson_bvp_atomgrid / _solve_poisson_ivp_atomgrid: the (l_deg, m_ord) loop iterables, the i_spline counter,
           the nested closures f_x / coeff_0 / coeff_1, the coefficient list handed to the ODE solver, the boundary / initial
           tuples, the `boundary` expression and the radial factor of the returned interpolation closure;
         * interpolate_laplacian: the `degrees` list and the per-row radial operator (symbolic execution of the einsum statements);
         * solve_poisson_robust: residual update, accumulation of the core potential, the final sum; _build_core_density.
prove: coq/C16/*.v on the generated terms (radial Laplacian identity, far field, (l,m) enumeration, Laplacian expansion,
       linearity as a composition of linear maps with the ODE solver / splines / harmonics as Section oracles, robust recombination).
tie:   the ODE solvers are replaced inside the check process by recorders: the coefficient callables, f_x, the boundary tuples,
       the mesh and the solver options that the code really passes are evaluated on dyadic radii and enclosed by `interval`
       against the generated terms; marker solutions returned by the recorder check the pairing spline row <-> harmonic row.
search: seeded sweeps of the real solvers against analytic erf / multipole potentials (oracle validation, labelled partial).
"""
from __future__ import annotations

import ast
import math
import warnings
from fractions import Fraction

import numpy as np

from vlib import py2coq_real as P
from vlib.core import SRC, Ctx, r_lit, src_sha

U = P.Unsupported


# ============================================================================================ translator
def zexpr(e: ast.expr, lvar: str | None = None) -> str:
    """integer expression -> Coq Z term.  `<grid>.l_max // 2` is the parameter v_L."""
    if isinstance(e, ast.Constant) and isinstance(e.value, int) and not isinstance(e.value, bool):
        return f"({e.value})" if e.value < 0 else f"{e.value}"
    if isinstance(e, ast.Name):
        return "v_" + e.id
    if isinstance(e, ast.UnaryOp) and isinstance(e.op, ast.USub):
        return f"(- {zexpr(e.operand)})"
    if isinstance(e, ast.BinOp):
        if isinstance(e.op, ast.FloorDiv) and ast.unparse(e) in ("atomgrid.l_max // 2", "atom_grid.l_max // 2"):
            return "v_L"
        op = {ast.Add: "+", ast.Sub: "-", ast.Mult: "*"}.get(type(e.op))
        if op is None:
            raise U(f"integer operator in {ast.unparse(e)}")
        return f"({zexpr(e.left)} {op} {zexpr(e.right)})"
    raise U(f"integer expression {ast.unparse(e)}")


def zlist(e: ast.expr) -> str:
    """list-of-int expression -> Coq `list Z` term (range, comprehension, +, [x]*n, np.arange, np.hstack)."""
    if isinstance(e, ast.Call) and not e.keywords:
        fn = ast.unparse(e.func)
        if fn in ("range", "np.arange") and len(e.args) == 2:
            return f"(zrange ({zexpr(e.args[0])})%Z ({zexpr(e.args[1])})%Z)"
        if fn == "np.hstack" and len(e.args) == 1 and isinstance(e.args[0], ast.ListComp):
            lc = e.args[0]
            g = single_gen(lc)
            return f"(concat (map (fun v_{g.target.id} : Z => {zlist(lc.elt)}) {zlist(g.iter)}))"
        raise U(f"list call {ast.unparse(e)[:60]}")
    if isinstance(e, ast.ListComp):
        g = single_gen(e)
        return f"(map (fun v_{g.target.id} : Z => ({zexpr(e.elt)})%Z) {zlist(g.iter)})"
    if isinstance(e, ast.BinOp) and isinstance(e.op, ast.Add):
        return f"({zlist(e.left)} ++ {zlist(e.right)})"
    if isinstance(e, ast.BinOp) and isinstance(e.op, ast.Mult) and isinstance(e.left, ast.List) and len(e.left.elts) == 1:
        return f"(repeat ({zexpr(e.left.elts[0])})%Z (Z.to_nat ({zexpr(e.right)})%Z))"
    raise U(f"list expression {ast.unparse(e)[:60]}")


def single_gen(lc: ast.ListComp) -> ast.comprehension:
    if len(lc.generators) != 1:
        raise U("nested comprehension")
    g = lc.generators[0]
    if g.ifs or g.is_async or not isinstance(g.target, ast.Name):
        raise U("comprehension with filter")
    return g


def zbool(e: ast.expr) -> str:
    if isinstance(e, ast.BoolOp) and isinstance(e.op, ast.And):
        return "(" + " && ".join(zbool(v) for v in e.values) + ")"
    if isinstance(e, ast.Compare) and len(e.ops) == 1 and isinstance(e.ops[0], ast.Eq):
        return f"({zexpr(e.left)} =? {zexpr(e.comparators[0])})"
    raise U(f"condition {ast.unparse(e)}")


class Tr16(P.Tr):
    """real expressions of poisson.py: `x ** 2.0` is a square, plus a table of source snippets -> Coq terms."""

    def __init__(self, table: dict[str, str] | None = None):
        super().__init__(P.Env({}, {}, {}))
        self.table = table or {}

    def expr(self, e):
        key = ast.unparse(e)
        if key in self.table:
            return self.table[key]
        return super().expr(e)

    def power(self, base, ex):
        if isinstance(ex, ast.Constant) and isinstance(ex.value, float) and ex.value == int(ex.value) and 0 <= ex.value <= 8:
            return f"({self.expr(base)} ^ {int(ex.value)})"   # numpy: x ** 2.0 == x * x for every real x
        return super().power(base, ex)


def strip_doc(body):
    return [b for b in body if not (isinstance(b, ast.Expr) and isinstance(b.value, ast.Constant) and isinstance(b.value.value, str))]


def closure_sig(fn: ast.FunctionDef, captured: list[str]):
    """def f(r, cap=cap): positional r, every default is the loop variable of the same name."""
    a = fn.args
    names = [x.arg for x in a.args]
    if a.vararg or a.kwarg or a.kwonlyargs or a.posonlyargs or not names or names[0] != "r":
        raise U(f"{fn.name}: signature")
    defaults = a.defaults
    dnames = names[len(names) - len(defaults):]
    if names[1:] != dnames:
        raise U(f"{fn.name}: parameters without default")
    for n, d in zip(dnames, defaults):
        if not (isinstance(d, ast.Name) and d.id == n):
            raise U(f"{fn.name}: default of {n} is {ast.unparse(d)}")
    if dnames != captured:
        raise U(f"{fn.name}: captures {dnames}, expected {captured}")


def tr_fx(fn: ast.FunctionDef, prefix: str):
    closure_sig(fn, ["i_spline"])
    body = strip_doc(fn.body)
    if len(body) != 1 or not isinstance(body[0], ast.Return):
        raise U("f_x body")
    # radial_components[<index>](r)
    idx = [n for n in ast.walk(body[0].value) if isinstance(n, ast.Call) and isinstance(n.func, ast.Subscript)]
    if len(idx) != 1 or ast.unparse(idx[0].func.value) != "radial_components" or len(idx[0].args) != 1 or ast.unparse(idx[0].args[0]) != "r" \
            or idx[0].keywords:
        raise U(f"f_x: {ast.unparse(body[0].value)}")
    index_term = zexpr(idx[0].func.slice)
    t = Tr16({ast.unparse(idx[0]): f"(v_rho ({prefix}_fx_index v_i_spline) v_r)"})
    term = t.expr(body[0].value)
    return [f"Definition {prefix}_fx_index (v_i_spline : Z) : Z := ({index_term})%Z.",
            f"Definition {prefix}_fx (v_rho : Z -> R -> R) (v_i_spline : Z) (v_r : R) : R :=\n  {term}."]


def tr_coeff0(fn: ast.FunctionDef, prefix: str):
    closure_sig(fn, ["l_deg"])
    body = strip_doc(fn.body)
    flat = []
    for s in body:
        if isinstance(s, ast.With):
            if [ast.unparse(i.context_expr).split("(")[0] for i in s.items] != ["np.errstate"]:
                raise U("coeff_0: with")
            flat += s.body
        else:
            flat.append(s)
    masked = [s for s in flat if isinstance(s, ast.Assign) and isinstance(s.targets[0], ast.Subscript)]
    rest = [s for s in flat if s not in masked]
    out = [f"Definition {prefix}_coeff_0 (v_l_deg v_r : R) : R :=\n  {Tr16().body(rest, False)}."]
    if masked:
        if len(masked) != 1 or len(masked[0].targets) != 1:
            raise U("coeff_0: masked assignments")
        tgt = masked[0].targets[0]
        ret = rest[-1]
        if not (isinstance(ret, ast.Return) and isinstance(ret.value, ast.Name) and ast.unparse(tgt.value) == ret.value.id
                and ast.unparse(tgt.slice) == "np.abs(r) == 0.0" and flat.index(masked[0]) == len(flat) - 2):
            raise U(f"coeff_0: {ast.unparse(masked[0])}")
        if any(isinstance(n, ast.Name) and n.id == "r" for n in ast.walk(masked[0].value)):
            raise U("coeff_0: value at r = 0 depends on r")
        out.append(f"Definition {prefix}_coeff_0_at0 (v_l_deg : R) : R :=\n  {Tr16().expr(masked[0].value)}.")
    return out, bool(masked)


def tr_coeff1(fn: ast.FunctionDef, prefix: str):
    closure_sig(fn, [])
    return [f"Definition {prefix}_coeff_1 (v_l_deg v_r : R) : R :=\n  {Tr16().body(strip_doc(fn.body), False)}."]


def find_fn(tree, name):
    for n in tree.body:
        if isinstance(n, ast.FunctionDef) and n.name == name:
            return n
    raise U(f"function {name} not found")


def tr_boundary(fn: ast.FunctionDef, prefix: str):
    """boundary = atomgrid.integrate(func_vals) / sph_o_l[0, 0]  with sph_o_l = generate_real_spherical_harmonics(0, ..)"""
    sph = [s for s in ast.walk(fn) if isinstance(s, ast.Assign) and ast.unparse(s.targets[0]) == "sph_o_l"]
    bnd = [s for s in ast.walk(fn) if isinstance(s, ast.Assign) and ast.unparse(s.targets[0]) == "boundary"]
    if len(sph) != 1 or len(bnd) != 1:
        raise U(f"{fn.name}: boundary statements")
    if ast.unparse(sph[0].value) != "generate_real_spherical_harmonics(0, np.array([0.1]), np.array([0.1]))":
        raise U(f"{fn.name}: sph_o_l = {ast.unparse(sph[0].value)}")
    t = Tr16({"atomgrid.integrate(func_vals)": "v_Q", "sph_o_l[0, 0]": "v_Y00"})
    return [f"Definition {prefix}_boundary (v_Q v_Y00 : R) : R :=\n  {t.expr(bnd[0].value)}."], (sph[0], bnd[0])


def tr_interpolate(fn: ast.FunctionDef, prefix: str, allowed: set[str]):
    inner = [s for s in fn.body if isinstance(s, ast.FunctionDef) and s.name == "interpolate"]
    if len(inner) != 1 or not (isinstance(fn.body[-1], ast.Return) and ast.unparse(fn.body[-1].value) == "interpolate"):
        raise U(f"{fn.name}: interpolate closure")
    it = inner[0]
    if [a.arg for a in it.args.args] != ["points"]:
        raise U("interpolate signature")
    flat = []
    for s in strip_doc(it.body):
        flat += s.body if isinstance(s, ast.With) else [s]
    rv = None
    for s in flat:
        src = ast.unparse(s)
        if isinstance(s, ast.Assign) and ast.unparse(s.targets[0]) == "r_values":
            v = s.value
            if not (isinstance(v, ast.Call) and ast.unparse(v.func) == "np.array" and len(v.args) == 1 and isinstance(v.args[0], ast.ListComp)):
                raise U(src)
            g = single_gen(v.args[0])
            if g.target.id != "spline" or ast.unparse(g.iter) != "splines":
                raise U(src)
            rv = Tr16({"spline(r_pts)": "(v_u v_r)", "r_pts": "v_r"}).expr(v.args[0].elt)
        elif src not in allowed:
            raise U(f"{fn.name}.interpolate: unexpected statement `{src}`")
    if rv is None or [ast.unparse(s) for s in flat if ast.unparse(s) in allowed] != [a for a in ALLOWED_ORDER if a in allowed]:
        raise U(f"{fn.name}.interpolate: statements changed")
    return [f"Definition {prefix}_radial_value (v_u : R -> R) (v_r : R) : R :=\n  {rv}."]


ALLOWED_ORDER = ["r_pts, theta, phi = atomgrid.convert_cartesian_to_spherical(points).T",
                 "r_values[:, np.abs(r_pts) < 1e-300] = 0.0",
                 "r_sph_harm = generate_real_spherical_harmonics(atomgrid.l_max // 2, theta, phi)",
                 "return np.einsum('ij, ij -> j', r_values, r_sph_harm)"]


def tr_solver(src: str, tree, name: str, prefix: str, kind: str):
    fn = find_fn(tree, name)
    out = [f"(* ---- {name} ---- *)"]
    # the loop nest
    loops = [s for s in fn.body if isinstance(s, ast.For)]
    if len(loops) != 1:
        raise U(f"{name}: loop nest")
    lo = loops[0]
    pos = fn.body.index(lo)
    pre = [ast.unparse(s) for s in fn.body[pos - 2:pos]]
    if not (pre[0] == "splines = []" and isinstance(fn.body[pos - 1], ast.Assign) and ast.unparse(fn.body[pos - 1].targets[0]) == "i_spline"):
        raise U(f"{name}: counter initialisation {pre}")
    out.append(f"Definition {prefix}_counter_init : Z := ({zexpr(fn.body[pos - 1].value)})%Z.")
    if not (isinstance(lo.target, ast.Name) and lo.target.id == "l_deg" and not lo.orelse and len(lo.body) == 1 and isinstance(lo.body[0], ast.For)):
        raise U(f"{name}: outer loop")
    li = lo.body[0]
    if not (isinstance(li.target, ast.Name) and li.target.id == "m_ord" and not li.orelse):
        raise U(f"{name}: inner loop")
    out.append(f"Definition {prefix}_l_range (v_L : Z) : list Z := {zlist(lo.iter)}.")
    out.append(f"Definition {prefix}_m_list (v_l_deg : Z) : list Z := {zlist(li.iter)}.")
    # inner body, fixed statement order
    body = strip_doc(li.body)
    want = ["f_x", "coeff_0"] + (["coeff_1"] if kind == "ivp" else [])
    defs = body[:len(want)]
    if [getattr(d, "name", None) for d in defs] != want or not all(isinstance(d, ast.FunctionDef) for d in defs):
        raise U(f"{name}: nested closures {[getattr(d, 'name', type(d).__name__) for d in defs]}")
    out += tr_fx(defs[0], prefix)
    c0, has_at0 = tr_coeff0(defs[1], prefix)
    out += c0
    if kind == "ivp":
        out += tr_coeff1(defs[2], prefix)
    rest = body[len(want):]
    if len(rest) != 5:
        raise U(f"{name}: loop body has {len(rest)} trailing statements")
    s_coeffs, s_if, s_solve, s_inc, s_app = rest
    # coefficient list
    if not (isinstance(s_coeffs, ast.Assign) and ast.unparse(s_coeffs.targets[0]) == "coeffs" and isinstance(s_coeffs.value, ast.List)):
        raise U(f"{name}: coeffs")
    items = []
    for el in s_coeffs.value.elts:
        if isinstance(el, ast.Name) and el.id in want[1:]:
            items.append(f"{prefix}_{el.id}")
        elif isinstance(el, ast.Constant) and isinstance(el.value, (int, float)) and not isinstance(el.value, bool):
            items.append(f"(fun _ _ : R => {P.lit(el.value)})")
        else:
            raise U(f"{name}: coefficient {ast.unparse(el)}")
    out.append(f"Definition {prefix}_coeffs : list (R -> R -> R) := [{'; '.join(items)}].")
    # boundary / initial data
    cname = "bd_cond" if kind == "bvp" else "ivp"
    if not (isinstance(s_if, ast.If) and len(s_if.body) == 1 and len(s_if.orelse) == 1):
        raise U(f"{name}: condition statement")
    out.append(f"Definition {prefix}_is_monopole (v_l_deg v_m_ord : Z) : bool := {zbool(s_if.test)}%Z.")
    branches = []
    tb = Tr16({"r_max": "v_r_max"})
    for br in (s_if.body[0], s_if.orelse[0]):
        if not (isinstance(br, ast.Assign) and ast.unparse(br.targets[0]) == cname and isinstance(br.value, ast.List)):
            raise U(f"{name}: {ast.unparse(br)}")
        els = []
        for el in br.value.elts:
            if kind == "bvp":
                if not (isinstance(el, ast.Tuple) and len(el.elts) == 3):
                    raise U(f"{name}: boundary tuple {ast.unparse(el)}")
                els.append(f"(({zexpr(el.elts[0])})%Z, ({zexpr(el.elts[1])})%Z, {tb.expr(el.elts[2])})")
            else:
                els.append(tb.expr(el))
        branches.append("[" + "; ".join(els) + "]")
    if kind == "bvp":
        out.append(f"Definition {prefix}_cond (v_l_deg v_m_ord : Z) (v_boundary : R) : list (Z * Z * R) :=\n"
                   f"  if {prefix}_is_monopole v_l_deg v_m_ord then {branches[0]} else {branches[1]}.")
    else:
        rm = [s for s in fn.body if isinstance(s, ast.Assign) and ast.unparse(s.targets[0]) == "r_max"]
        if len(rm) != 1 or ast.unparse(rm[0].value) != "r_interval[0]":
            raise U(f"{name}: r_max")
        out.append(f"Definition {prefix}_cond (v_l_deg v_m_ord : Z) (v_boundary v_r_max : R) : list R :=\n"
                   f"  if {prefix}_is_monopole v_l_deg v_m_ord then {branches[0]} else {branches[1]}.")
    # the solver call, the counter, the result list
    call = {"bvp": "u_lm = solve_ode_bvp(rad_points, f_x, coeffs, bd_cond, transform, **ode_params)",
            "ivp": "u_lm = solve_ode_ivp(r_interval, f_x, coeffs, ivp, transform, no_derivatives=True, **ode_params)"}[kind]
    if ast.unparse(s_solve) != call:
        raise U(f"{name}: solver call `{ast.unparse(s_solve)}`")
    if not (isinstance(s_inc, ast.AugAssign) and isinstance(s_inc.op, ast.Add) and ast.unparse(s_inc.target) == "i_spline"):
        raise U(f"{name}: counter update")
    out.append(f"Definition {prefix}_counter_step : Z := ({zexpr(s_inc.value)})%Z.")
    if ast.unparse(s_app) != "splines.append(u_lm)":
        raise U(f"{name}: result list")
    b, _ = tr_boundary(fn, prefix)
    out += b
    allowed = set(ALLOWED_ORDER) if kind == "bvp" else set(ALLOWED_ORDER) - {ALLOWED_ORDER[1]}
    out += tr_interpolate(fn, prefix, allowed)
    # spline source
    if "radial_components = atomgrid.radial_component_splines(func_vals)" not in [ast.unparse(s) for s in fn.body]:
        raise U(f"{name}: radial_components")
    unit = {"unit": name, "file": "src/grid/poisson.py", "lines": [fn.lineno, fn.end_lineno], "sha": src_sha(ast.get_source_segment(src, fn)),
            "coeff_0_at0": has_at0}
    return out, unit


def tr_laplacian(src: str, tree):
    fn = find_fn(tree, "interpolate_laplacian")
    inner = [n for n in ast.walk(fn) if isinstance(n, ast.FunctionDef) and n.name == "interpolate_laplacian_atom_grid"]
    if len(inner) != 1:
        raise U("interpolate_laplacian_atom_grid")
    body = strip_doc(inner[0].body)
    flat = []
    for s in body:
        flat += s.body if isinstance(s, ast.With) else [s]
    rows: dict[str, str] = {}      # array name (rows x points) -> per-row Coq term
    comps: dict[str, str] = {}     # contracted (points,) arrays -> per-row term (the contraction with Y is linear)
    out = []
    tr = Tr16({"r_pts": "v_r"})
    ret = None
    fixed = {"radial_comps_f = atom_grid.radial_component_splines(func_vals_atom[start_index:final_index])",
             "r_pts, theta, phi = atom_grid.convert_cartesian_to_spherical(points).T",
             "r_sph_harm = generate_real_spherical_harmonics(atom_grid.l_max // 2, theta, phi)"}
    seen_fixed = set()
    cutoff_rule = False
    for s in flat:
        u = ast.unparse(s)
        if u in fixed:
            seen_fixed.add(u)
            continue
        if isinstance(s, ast.If) and ast.unparse(s.test) == "np.any(r_pts < cutoff)" and [ast.unparse(b) for b in s.body] == ["r_pts[r_pts < cutoff] = cutoff"] \
                and not s.orelse:
            cutoff_rule = True
            continue
        if isinstance(s, ast.Assign) and isinstance(s.targets[0], ast.Name):
            name, v = s.targets[0].id, s.value
            if isinstance(v, ast.Call) and ast.unparse(v.func) == "np.array" and len(v.args) == 1 and isinstance(v.args[0], ast.ListComp):
                g = single_gen(v.args[0])
                elt = v.args[0].elt
                if g.target.id != "spline" or ast.unparse(g.iter) != "radial_comps_f" or not isinstance(elt, ast.Call) or ast.unparse(elt.func) != "spline" \
                        or elt.keywords or ast.unparse(elt.args[0]) != "r_pts":
                    raise U(u)
                order = 0 if len(elt.args) == 1 else elt.args[1].value if (len(elt.args) == 2 and isinstance(elt.args[1], ast.Constant)) else None
                if order not in (0, 1, 2):
                    raise U(u)
                rows[name] = f"v_f{order}"
                continue
            if name == "degrees":
                out.append(f"Definition lap_degrees (v_L : Z) : list Z := {zlist(v)}.")
                rows["degrees"] = "v_deg"
                continue
            if isinstance(v, ast.Call) and ast.unparse(v.func) == "np.einsum" and not v.keywords and isinstance(v.args[0], ast.Constant):
                spec = v.args[0].value.replace(" ", "")
                ops = [ast.unparse(a) for a in v.args[1:]]
                if spec == "ln,ln->n" and len(ops) == 2 and ops[1] == "r_sph_harm" and ops[0] in rows:
                    comps[name] = rows[ops[0]]
                    continue
                if spec == "ln,l,ln->n" and len(ops) == 3 and ops[2] == "r_sph_harm" and ops[0] in rows and ops[1] == "degrees" and "degrees" in rows:
                    comps[name] = f"({rows[ops[0]]} * {rows['degrees']})"
                    continue
            raise U(f"interpolate_laplacian: {u[:80]}")
        if isinstance(s, ast.AugAssign) and isinstance(s.target, ast.Name) and s.target.id in comps:
            op = {ast.Mult: "*", ast.Div: "/"}.get(type(s.op))
            if op is None:
                raise U(u)
            comps[s.target.id] = f"({comps[s.target.id]} {op} {tr.expr(s.value)})"
            continue
        if isinstance(s, ast.Return):
            ret = Tr16(dict(comps)).expr(s.value)
            continue
        raise U(f"interpolate_laplacian: {u[:80]}")
    if ret is None or seen_fixed != fixed or not cutoff_rule or "lap_degrees" not in out[0]:
        raise U("interpolate_laplacian: statements changed")
    out.append(f"Definition lap_row (v_f0 v_f1 v_f2 v_deg v_r : R) : R :=\n  {ret}.")
    unit = {"unit": "interpolate_laplacian", "file": "src/grid/poisson.py", "lines": [fn.lineno, fn.end_lineno],
            "sha": src_sha(ast.get_source_segment(src, fn))}
    return ["(* ---- interpolate_laplacian ---- *)"] + out, unit


def tr_robust(src: str, tree):
    fn = find_fn(tree, "solve_poisson_robust")
    out = ["(* ---- solve_poisson_robust ---- *)"]
    stm = {ast.unparse(s): s for s in ast.walk(fn) if isinstance(s, ast.stmt)}
    # split 1
    s1 = [s for s in ast.walk(fn) if isinstance(s, ast.AugAssign) and ast.unparse(s.target) == "residual"]
    if len(s1) != 1 or ast.unparse(s1[0].value) != "_build_core_density(molgrid.points, center, coeffs_s, alphas_s)":
        raise U("robust: split 1 statement")
    op = {ast.Add: "+", ast.Sub: "-"}.get(type(s1[0].op))
    if op is None:
        raise U("robust: split 1 operator")
    out.append(f"Definition robust_split1 (v_residual v_core : R) : R := (v_residual {op} v_core).")
    for need in ("residual = np.array(density_vals, dtype=float)",
                 "phi_residual_interp = solve_poisson_bvp(molgrid, residual, transform, **bvp_kwargs)",
                 "v_residual = phi_residual_interp(points)", "v_core = np.zeros(points.shape[0])", "v_bonding = np.zeros(points.shape[0])",
                 "fit_coeffs, fit_alphas, fit_centers, residual = _fit_residual_gaussians(molgrid.points, residual, atcoords, alphas_basis)",
                 "v_bonding = coulomb_potential(points, centers_s=fit_centers, coeffs_s=fit_coeffs, alphas_s=fit_alphas, normalized=True)",
                 "return total_potential"):
        if need not in stm:
            raise U(f"robust: statement `{need}` not found")
    acc = [s for s in ast.walk(fn) if isinstance(s, ast.AugAssign) and ast.unparse(s.target) == "v_core"]
    want = "coulomb_potential(points, centers_s=centers_rep, coeffs_s=coeffs_s, alphas_s=alphas_s, normalized=True)"
    if len(acc) != 1 or ast.unparse(acc[0].value) != want or "centers_rep = np.tile(center, (len(coeffs_s), 1))" not in stm:
        raise U("robust: core potential accumulation")
    op = {ast.Add: "+", ast.Sub: "-"}.get(type(acc[0].op))
    if op is None:
        raise U("robust: accumulation operator")
    out.append(f"Definition robust_core_acc (v_core v_term : R) : R := (v_core {op} v_term).")
    tot = [s for s in ast.walk(fn) if isinstance(s, ast.FunctionDef) and s.name == "total_potential"]
    if len(tot) != 1 or not isinstance(tot[0].body[-1], ast.Return):
        raise U("robust: total_potential")
    out.append(f"Definition robust_total (v_v_core v_v_bonding v_v_residual : R) : R :=\n  {Tr16().expr(tot[0].body[-1].value)}.")
    # the second split: residual -= A[:, mask] @ c_pos
    fit = find_fn(tree, "_fit_residual_gaussians")
    s2 = [s for s in ast.walk(fit) if isinstance(s, ast.AugAssign) and ast.unparse(s.target) == "residual"]
    if len(s2) != 1 or ast.unparse(s2[0].value) != "A[:, mask] @ c_pos":
        raise U("robust: split 2 statement")
    op = {ast.Add: "+", ast.Sub: "-"}.get(type(s2[0].op))
    if op is None:
        raise U("robust: split 2 operator")
    out.append(f"Definition robust_split2 (v_residual v_fit : R) : R := (v_residual {op} v_fit).")
    # core density of one primitive
    bcd = find_fn(tree, "_build_core_density")
    pre = [s for s in ast.walk(bcd) if isinstance(s, ast.Assign) and ast.unparse(s.targets[0]) == "prefactor"]
    add = [s for s in ast.walk(bcd) if isinstance(s, ast.AugAssign) and ast.unparse(s.target) == "rho"]
    if len(pre) != 1 or len(add) != 1 or not isinstance(add[0].op, ast.Add) or "r_sq = np.sum((points - center) ** 2, axis=1)" not in \
            [ast.unparse(s) for s in bcd.body] or "rho = np.zeros(len(points))" not in [ast.unparse(s) for s in bcd.body]:
        raise U("robust: _build_core_density")
    t = Tr16()
    out.append(f"Definition core_density_term (v_c v_alpha v_r_sq : R) : R :=\n  (let v_prefactor := {t.expr(pre[0].value)} in\n   {t.expr(add[0].value)}).")
    units = [{"unit": f.name, "file": "src/grid/robust_poisson.py", "lines": [f.lineno, f.end_lineno], "sha": src_sha(ast.get_source_segment(src, f))}
             for f in (fn, fit, bcd)]
    return out, units


def tr_molhelper(src: str, tree):
    """_interpolate_molgrid_helper is hand-modelled; the statements the model mirrors are pinned here (fail closed)."""
    fn = find_fn(tree, "_interpolate_molgrid_helper")
    have = [ast.unparse(s) for s in ast.walk(fn) if isinstance(s, ast.stmt)]
    for need in ("func_vals_atom = func_vals * molgrid.aim_weights", "start_index = molgrid.indices[i]", "final_index = molgrid.indices[i + 1]",
                 "atom_grid = molgrid[i]", "interpolate_funcs.append(interpolate_callable(atom_grid, func_vals_atom[start_index:final_index]))",
                 "output = interpolate_funcs[0](points)", "output += interpolate(points)", "return output", "return sum_of_interpolation_functions"):
        if need not in have:
            raise U(f"_interpolate_molgrid_helper: statement `{need}` not found")
    return {"unit": fn.name, "file": "src/grid/poisson.py", "lines": [fn.lineno, fn.end_lineno], "sha": src_sha(ast.get_source_segment(src, fn)),
            "note": "hand model; statement shapes pinned"}


GEN_HEADER = """From Coq Require Import Reals ZArith List Bool.
From Coquelicot Require Import Coquelicot.
From P Require Import C16_base.
Import ListNotations.
Open Scope R_scope.
(* generated from src/grid/poisson.py and src/grid/robust_poisson.py on every run; do not edit *)
"""


def gen(ctx: Ctx):
    src = (SRC / "poisson.py").read_text()
    tree = ast.parse(src)
    out, units = [GEN_HEADER], []
    for name, prefix, kind in (("_solve_poisson_bvp_atomgrid", "bvp", "bvp"), ("_solve_poisson_ivp_atomgrid", "ivp", "ivp")):
        o, u = tr_solver(src, tree, name, prefix, kind)
        out += o
        units.append(u)
    o, u = tr_laplacian(src, tree)
    out += o
    units.append(u)
    units.append(tr_molhelper(src, tree))
    rsrc = (SRC / "robust_poisson.py").read_text()
    o, us = tr_robust(rsrc, ast.parse(rsrc))
    out += o
    units += us
    ctx.gen("C16_gen.v", "\n".join(out) + "\n", units)


def run(ctx: Ctx):
    gen(ctx)
    ctx.copy_coq("C16")
    status = ctx.coq_build()
    ctx.register_props(status)
