"""C01 translator: scalar leaves of src/grid/onedgrid.py -> Coq terms over R (fail closed).

Built on vlib.py2coq_real (not edited); extensions local to C01:
  * np.arcsin -> asin
  * `_dergstrip`-style masked assignment:  gp = np.zeros(len(s)); mask_true = np.isclose(A, 0, atol=T);
    mask_false = mask_true == 0; gp[mask_true] = E1; gp[mask_false] = E2; return gp
    ->  if Rle_dec (Rabs (A - 0)) T then E1 else E2      (np.isclose with b = 0: |a-b| <= atol + rtol*|b| = atol)
  * constructor bodies of the variable-substitution rules: the statements that build the integer index array
    (whitelisted verbatim, hand-modelled as `kidx`) are skipped, the index array becomes the free real variable and
    every later assignment / augmented assignment becomes a `let`; the `super().__init__(points, weights, (lo, hi))`
    call gives the declared domain.
  * constructor bodies of the weight-divided Gauss rules: `points, weights = <oracle>(...)` (whitelisted verbatim),
    the following augmented assignments become the scalar rescaling leaf, the super call tells whether points
    and/or weights are reversed.
"""
from __future__ import annotations

import ast

from vlib import py2coq_real as P
from vlib.core import src_sha

Unsupported = P.Unsupported


class Tr1(P.Tr):
    def __init__(self, env, masks=()):
        super().__init__(env)
        self.masks = set(masks)
        self.used: set[str] = set()

    def expr(self, e):
        if isinstance(e, ast.Name):
            self.used.add(e.id)
        if (isinstance(e, ast.Subscript) and isinstance(e.value, ast.Name) and isinstance(e.slice, ast.Name)
                and e.slice.id in self.masks):
            self.used.add(e.value.id)
            return "v_" + e.value.id
        return super().expr(e)

    def call(self, e):
        f = e.func
        if (isinstance(f, ast.Attribute) and isinstance(f.value, ast.Name) and f.value.id in ("np", "numpy")
                and f.attr == "arcsin" and len(e.args) == 1 and not e.keywords):
            return f"(asin {self.expr(e.args[0])})"
        return super().call(e)


def _is_doc(s):
    return isinstance(s, ast.Expr) and isinstance(s.value, ast.Constant) and isinstance(s.value.value, str)


def _lets(pairs, result):
    out = result
    for name, term in reversed(pairs):
        out = f"(let v_{name} := {term} in\n   {out})"
    return out


def unit(src, node, name, **kw):
    d = {"unit": name, "file": "src/grid/onedgrid.py", "lines": [node.lineno, node.end_lineno],
         "sha": src_sha(ast.get_source_segment(src, node))}
    d.update(kw)
    return d


# ------------------------------------------------------------------------------------------- module-level functions
def plain_function(src, fn: ast.FunctionDef, coqname):
    """Straight-line function (assignments + return) of real arguments."""
    if fn.args.vararg or fn.args.kwarg or fn.args.kwonlyargs or fn.args.defaults:
        raise Unsupported(f"{fn.name}: signature")
    params = [a.arg for a in fn.args.args]
    tr = Tr1(P.Env({}, {}, {}))
    term = tr.body(fn.body, False)
    _check_names(fn.name, tr.used, params, fn.body)
    txt = f"Definition {coqname} ({' '.join('v_' + p for p in params)} : R) : R :=\n  {term}."
    return txt, params


def _assigned(stmts):
    out = set()
    for s in stmts:
        if isinstance(s, ast.Assign):
            for t in s.targets:
                if isinstance(t, ast.Name):
                    out.add(t.id)
                elif isinstance(t, ast.Tuple):
                    out.update(x.id for x in t.elts if isinstance(x, ast.Name))
        elif isinstance(s, ast.AugAssign) and isinstance(s.target, ast.Name):
            out.add(s.target.id)
    return out


def _check_names(where, used, params, stmts):
    free = set(used) - set(params) - _assigned(stmts)
    if free:
        raise Unsupported(f"{where}: free names {sorted(free)}")


def masked_function(src, fn: ast.FunctionDef, coqname):
    """_dergstrip: straight-line prefix, then the two-mask assignment pattern."""
    params = [a.arg for a in fn.args.args]
    body = [s for s in fn.body if not _is_doc(s)]
    lets, mask_true, mask_false, out_name, cond = [], None, None, None, None
    branches = {}
    tr = Tr1(P.Env({}, {}, {}))
    i = 0
    while i < len(body):
        s = body[i]
        i += 1
        if isinstance(s, ast.Assign) and len(s.targets) == 1 and isinstance(s.targets[0], ast.Name):
            name, v = s.targets[0].id, s.value
            txt = ast.unparse(v)
            if isinstance(v, ast.Call) and ast.unparse(v.func) == "np.zeros" and txt == f"np.zeros(len({params[-1]}))":
                out_name = name
                continue
            if isinstance(v, ast.Call) and ast.unparse(v.func) == "np.isclose":
                kws = {k.arg: k.value for k in v.keywords}
                if len(v.args) != 2 or set(kws) != {"atol"} or ast.unparse(v.args[1]) != "0" or not isinstance(kws["atol"], ast.Constant):
                    raise Unsupported(f"{fn.name}: np.isclose form {txt}")
                mask_true = name
                cond = f"Rle_dec (Rabs ({tr.expr(v.args[0])} - 0)) {P.lit(kws['atol'].value)}"
                continue
            if mask_true is not None and txt == f"{mask_true} == 0":
                mask_false = name
                tr.masks = {mask_true, mask_false}
                continue
            lets.append((name, tr.expr(v)))
            continue
        if (isinstance(s, ast.Assign) and len(s.targets) == 1 and isinstance(s.targets[0], ast.Subscript)
                and isinstance(s.targets[0].value, ast.Name) and s.targets[0].value.id == out_name
                and isinstance(s.targets[0].slice, ast.Name) and s.targets[0].slice.id in (mask_true, mask_false)):
            which = s.targets[0].slice.id
            if which in branches:
                raise Unsupported(f"{fn.name}: branch assigned twice")
            branches[which] = tr.expr(s.value)
            continue
        if isinstance(s, ast.Return):
            if ast.unparse(s.value) != out_name or i != len(body):
                raise Unsupported(f"{fn.name}: return")
            break
        raise Unsupported(f"{fn.name}: statement {ast.unparse(s)[:60]}")
    if set(branches) != {mask_true, mask_false} or None in (mask_true, mask_false, out_name, cond):
        raise Unsupported(f"{fn.name}: mask pattern incomplete")
    _check_names(fn.name, tr.used - {mask_true, mask_false, out_name}, params, body)
    term = _lets(lets, f"(if {cond} then {branches[mask_true]} else {branches[mask_false]})")
    return f"Definition {coqname} ({' '.join('v_' + p for p in params)} : R) : R :=\n  {term}.", params


# ------------------------------------------------------------------------------------------- constructors
INDEX_FORMS = {
    # frozenset of verbatim index statements -> (index variable, description of the hand model kidx)
    ("m = int((npoints - 1) / 2)", "k = np.arange(-m, m + 1)"): "k",
    ("j = int((1 - npoints) / 2) + np.arange(npoints)",): "j",
}


def _init_of(cls: ast.ClassDef) -> ast.FunctionDef:
    for fn in cls.body:
        if isinstance(fn, ast.FunctionDef) and fn.name == "__init__":
            return fn
    raise Unsupported(f"{cls.name}: no __init__")


def _ctor_params(fn):
    names = [a.arg for a in fn.args.args]
    if names[:2] != ["self", "npoints"] or fn.args.vararg or fn.args.kwarg or fn.args.kwonlyargs:
        raise Unsupported(f"constructor signature {names}")
    extras = names[2:]
    defaults = {}
    for a, d in zip(reversed(extras), reversed(fn.args.defaults)):
        if not isinstance(d, ast.Constant):
            raise Unsupported("non-literal default")
        defaults[a] = d.value
    return extras, defaults


def _super_call(s):
    """`super().__init__(A, B, (lo, hi))` -> (A-text, B-text, lo-text, hi-text) or None."""
    if not (isinstance(s, ast.Expr) and isinstance(s.value, ast.Call)):
        return None
    c = s.value
    if ast.unparse(c.func) != "super().__init__" or c.keywords or len(c.args) != 3:
        return None
    dom = c.args[2]
    if not (isinstance(dom, ast.Tuple) and len(dom.elts) == 2):
        raise Unsupported("domain argument")
    return ast.unparse(c.args[0]), ast.unparse(c.args[1]), ast.unparse(dom.elts[0]), ast.unparse(dom.elts[1])


def _is_skippable(s):
    if _is_doc(s):
        return True
    if isinstance(s, ast.Expr) and ast.unparse(s.value).startswith("warnings.warn("):
        return True
    return False


def _guard(s):
    if isinstance(s, ast.If) and len(s.body) == 1 and isinstance(s.body[0], ast.Raise) and not s.orelse:
        return ast.unparse(s.test)
    return None


def subst_ctor(src, cls: ast.ClassDef):
    """Variable-substitution rule -> (coq text, info)."""
    fn = _init_of(cls)
    extras, defaults = _ctor_params(fn)
    guards, idx_stmts, lets = [], [], []
    sup = None
    tr = Tr1(P.Env({}, {}, {}))
    for s in fn.body:
        if _is_skippable(s):
            continue
        g = _guard(s)
        if g is not None:
            guards.append(g)
            continue
        sc = _super_call(s)
        if sc is not None:
            sup = sc
            continue
        if sup is not None:
            raise Unsupported(f"{cls.name}: statement after super().__init__")
        txt = ast.unparse(s)
        if not lets and any(txt in forms for forms in INDEX_FORMS):
            idx_stmts.append(txt)
            continue
        if isinstance(s, ast.Assign) and len(s.targets) == 1 and isinstance(s.targets[0], ast.Name):
            lets.append((s.targets[0].id, tr.expr(s.value)))
            continue
        if isinstance(s, ast.AugAssign) and isinstance(s.target, ast.Name):
            op = {ast.Add: "+", ast.Sub: "-", ast.Mult: "*", ast.Div: "/"}.get(type(s.op))
            if op is None:
                raise Unsupported("augmented op")
            tr.used.add(s.target.id)
            lets.append((s.target.id, f"(v_{s.target.id} {op} {tr.expr(s.value)})"))
            continue
        raise Unsupported(f"{cls.name}: statement {txt[:70]}")
    if tuple(idx_stmts) not in INDEX_FORMS:
        raise Unsupported(f"{cls.name}: index statements {idx_stmts} are not one of the modelled forms")
    ivar = INDEX_FORMS[tuple(idx_stmts)]
    if sup is None or sup[0] != "points" or sup[1] != "weights":
        raise Unsupported(f"{cls.name}: super().__init__ arguments {sup}")
    names = [n for n, _ in lets]
    if "points" not in names or "weights" not in names:
        raise Unsupported(f"{cls.name}: points/weights not assigned")
    bound = set(extras) | {ivar}
    seen = set(bound)
    for n, _ in lets:
        seen.add(n)
    free = tr.used - seen
    if free:
        raise Unsupported(f"{cls.name}: free names {sorted(free)}")
    params = " ".join("v_" + p for p in extras + [ivar])
    out = []
    for res in ("points", "weights"):
        last = max(i for i, (n, _) in enumerate(lets) if n == res)
        out.append(f"Definition {cls.name}_{res} ({params} : R) : R :=\n  {_lets(lets[:last + 1], 'v_' + res)}.")
    info = {"extras": extras, "defaults": defaults, "index": ivar, "domain": (sup[2], sup[3]), "guards": guards}
    return "\n".join(out), info


ORACLE_CALLS = {
    "GaussLaguerre": "points, weights = roots_genlaguerre(npoints, alpha)",
    "GaussLegendre": "points, weights = np.polynomial.legendre.leggauss(npoints)",
    "GaussChebyshev": "points, weights = np.polynomial.chebyshev.chebgauss(npoints)",
    "GaussChebyshevType2": "points, weights = roots_chebyu(npoints)",
}


def oracle_ctor(src, cls: ast.ClassDef):
    """Gauss rule built on a library routine -> rescaling leaf + reversal flags."""
    fn = _init_of(cls)
    extras, defaults = _ctor_params(fn)
    guards, lets = [], []
    sup, got_oracle = None, False
    tr = Tr1(P.Env({}, {}, {}))
    for s in fn.body:
        if _is_skippable(s):
            continue
        g = _guard(s)
        if g is not None:
            guards.append(g)
            continue
        sc = _super_call(s)
        if sc is not None:
            sup = sc
            continue
        if sup is not None:
            raise Unsupported(f"{cls.name}: statement after super().__init__")
        txt = ast.unparse(s)
        if txt == ORACLE_CALLS[cls.name] and not got_oracle:
            got_oracle = True
            continue
        if got_oracle and isinstance(s, ast.AugAssign) and isinstance(s.target, ast.Name) and s.target.id == "weights":
            op = {ast.Mult: "*", ast.Div: "/"}.get(type(s.op))
            if op is None:
                raise Unsupported("augmented op")
            lets.append(("weights", f"(v_weights {op} {tr.expr(s.value)})"))
            continue
        raise Unsupported(f"{cls.name}: statement {txt[:70]}")
    if not got_oracle or sup is None:
        raise Unsupported(f"{cls.name}: oracle call / super call not found")
    rev = {}
    for which, txt in (("points", sup[0]), ("weights", sup[1])):
        if txt == which:
            rev[which] = False
        elif txt == which + "[::-1]":
            rev[which] = True
        else:
            raise Unsupported(f"{cls.name}: super argument {txt}")
    free = tr.used - set(extras) - {"points", "weights"}
    if free:
        raise Unsupported(f"{cls.name}: free names {sorted(free)}")
    params = " ".join("v_" + p for p in extras + ["points", "weights"])
    out = [f"Definition {cls.name}_weights ({params} : R) : R :=\n  {_lets(lets, 'v_weights')}."]
    for which in ("points", "weights"):
        out.append(f"Definition {cls.name}_{which}_reversed : bool := {'true' if rev[which] else 'false'}.")
    info = {"extras": extras, "defaults": defaults, "domain": (sup[2], sup[3]), "guards": guards, "rev": rev}
    return "\n".join(out), info


def plain_ctor_info(src, cls: ast.ClassDef):
    """Hand-modelled constructor: only guards, declared domain and source hash are extracted."""
    fn = _init_of(cls)
    extras, defaults = _ctor_params(fn) if [a.arg for a in fn.args.args][:2] == ["self", "npoints"] else ([], {})
    guards, sup = [], None
    for s in fn.body:
        g = _guard(s)
        if g is not None:
            guards.append(g)
        sc = _super_call(s)
        if sc is not None:
            sup = sc
    if sup is None:
        raise Unsupported(f"{cls.name}: super().__init__(points, weights, (lo, hi)) not found")
    return {"extras": extras, "defaults": defaults, "domain": (sup[2], sup[3]), "guards": guards, "super": sup[:2]}


def trefethen_ctor(src, cls: ast.ClassDef, strip: bool):
    """Trefethen wrappers: extract which leaf functions are applied per degree d (verbatim structure check)."""
    fn = _init_of(cls)
    body = [s for s in fn.body if not _is_doc(s)]
    txts = [ast.unparse(s) for s in body]
    base = None
    table = {}
    for s, t in zip(body, txts):
        if isinstance(s, ast.Assign) and t.startswith("grid = "):
            base = ast.unparse(s.value)
        elif isinstance(s, ast.If) and t.startswith("if not issubclass"):
            continue
        elif isinstance(s, ast.If) and not strip:
            cur = s
            while True:
                test = ast.unparse(cur.test)
                if not test.startswith("d == "):
                    raise Unsupported(f"{cls.name}: branch {test}")
                d = int(test[5:])
                table[d] = tuple(ast.unparse(b) for b in cur.body)
                if len(cur.orelse) == 1 and isinstance(cur.orelse[0], ast.If):
                    cur = cur.orelse[0]
                    continue
                if not (len(cur.orelse) == 1 and isinstance(cur.orelse[0], ast.Raise)):
                    raise Unsupported(f"{cls.name}: else branch")
                break
        elif isinstance(s, ast.Assign) and strip and t.startswith(("points = ", "weights = ")):
            table[t.split(" = ")[0]] = t
        elif _super_call(s) is not None:
            sup = _super_call(s)
            if sup[:2] != ("points", "weights"):
                raise Unsupported(f"{cls.name}: super args")
            dom = (sup[2], sup[3])
        else:
            raise Unsupported(f"{cls.name}: statement {t[:70]}")
    if strip:
        want = {"points": "points = _gstrip(rho, grid.points)", "weights": "weights = _dergstrip(rho, grid.points) * grid.weights"}
    else:
        want = {1: ("points = grid.points", "weights = grid.weights"),
                5: ("points = _g2(grid.points)", "weights = _derg2(grid.points) * grid.weights"),
                9: ("points = _g3(grid.points)", "weights = _derg3(grid.points) * grid.weights")}
    if table != want:
        raise Unsupported(f"{cls.name}: structure {table} differs from the modelled composition")
    return {"base": base, "domain": dom}


# ------------------------------------------------------------------------------------------- series length (Fejer rules)
NSUM_FORMS = {"FejerFirst": "nsum = npoints // 2", "FejerSecond": "nsum = (npoints + 1) // 2"}


def _nat_expr(e: ast.expr) -> str:
    """Integer expression over `nsum` and literals with + and - (Python ints -> Coq nat; a negative length is an
    empty np.arange, as truncated subtraction gives)."""
    if isinstance(e, ast.Name) and e.id == "nsum":
        return "v_nsum"
    if isinstance(e, ast.Constant) and isinstance(e.value, int) and not isinstance(e.value, bool) and e.value >= 0:
        return str(e.value)
    if isinstance(e, ast.BinOp) and isinstance(e.op, (ast.Add, ast.Sub)):
        return f"({_nat_expr(e.left)} {'+' if isinstance(e.op, ast.Add) else '-'} {_nat_expr(e.right)})"
    raise Unsupported(f"series length expression {ast.unparse(e)}")


def series_terms(src, cls: ast.ClassDef):
    """Number of terms of the weight series: `nsum = <verbatim>`; `j = np.arange(L) + 1`; every np.ones(..) in the
    constructor has the same length L.  -> Definition <Class>_terms (v_nsum : nat) : nat := L."""
    fn = _init_of(cls)
    stmts = [ast.unparse(s) for s in fn.body]
    if NSUM_FORMS[cls.name] not in stmts:
        raise Unsupported(f"{cls.name}: `{NSUM_FORMS[cls.name]}` not found (the hand model of nsum no longer applies)")
    length = None
    for s in fn.body:
        if (isinstance(s, ast.Assign) and len(s.targets) == 1 and isinstance(s.targets[0], ast.Name) and s.targets[0].id == "j"):
            v = s.value
            ok = (isinstance(v, ast.BinOp) and isinstance(v.op, ast.Add) and isinstance(v.right, ast.Constant) and v.right.value == 1
                  and isinstance(v.left, ast.Call) and ast.unparse(v.left.func) == "np.arange" and len(v.left.args) == 1 and not v.left.keywords)
            if not ok or length is not None:
                raise Unsupported(f"{cls.name}: series index `{ast.unparse(s)}` is not `j = np.arange(L) + 1`")
            length = v.left.args[0]
    if length is None:
        raise Unsupported(f"{cls.name}: series index j not found")
    for node in ast.walk(fn):
        if isinstance(node, ast.Call) and ast.unparse(node.func) == "np.ones":
            if len(node.args) != 1 or ast.unparse(node.args[0]) != ast.unparse(length):
                raise Unsupported(f"{cls.name}: np.ones({ast.unparse(node.args[0]) if node.args else ''}) does not have the length of j ({ast.unparse(length)})")
    return f"Definition {cls.name}_terms (v_nsum : nat) : nat := ({_nat_expr(length)})%nat.", ast.unparse(length)
