"""C09 — harmonic decomposition / interpolation on atomic grids is exact when band-limited.

gen:   the model is hand-written (coq/C09/C09_model.v); on every run the anchored units are hashed and the constants the
       model depends on are re-read from the source with `ast`, fail closed: the r < 1e-8 threshold of
       integrate_angular_coordinates, the 4.0 * np.pi of spherical_average, the two 1e-10 thresholds of
       convert_derivative_from_spherical_to_cartesian, and `self.l_max // 2` as the first argument of every harmonic
       generator call in atomgrid.py  ->  build/C09/C09_gen.v.
prove: coq/C09/*.v (all grids, all coefficient tables; spline / harmonics / orthonormality are Section hypotheses).
tie:   tolerance correspondence, evaluated inside Coq at exact rationals (BigQ), of
         integrate_angular_coordinates, the arrays handed to scipy's CubicSpline by radial_component_splines /
         spherical_average / interpolate / MolGrid.interpolate (captured by wrapping CubicSpline in the check process),
         which spline is evaluated with which `nu` at which radii, and the arithmetic after the spline evaluations
         (values, hstack of spherical derivatives, Cartesian gradient through the Jacobian, ValueError),
       on dyadic radial grids (incl. r = 0 and a node below 1e-8), uniform and mixed degrees, 3 (4) methods, centres,
       rotation seeds, random band-limited integer coefficient tables.
       Every oracle hypothesis of the theorems is validated numerically on each run.
search: the property itself on the implementation, with an independent oracle (own harmonics from SciPy's sph_harm_y
       cross-checked with Cartesian closed forms, own angles from the actual grid points): exact recovery of g_lm(r_i),
       angular integrals, re-weighted sum, interpolant at grid points and at arbitrary points, derivative
       self-consistency by self-validating two-step finite differences of the returned interpolant, spherical average,
       molecular = sum of atomic.
"""
from __future__ import annotations

import ast
import json
import math
import re
from fractions import Fraction

import numpy as np

from vlib.core import SRC, Ctx, src_sha

MAXREP = 3
TOL = 1e-10          # the property's tolerance (relative to the scale of the data)
TIE_TOL = 1e-9       # model (exact rationals) vs implementation (floating point)


# ====================================================================== gen
class Unsupported(Exception):
    pass


def _find_method(tree, cls, name):
    for n in tree.body:
        if isinstance(n, ast.ClassDef) and n.name == cls:
            for m in n.body:
                if isinstance(m, ast.FunctionDef) and m.name == name:
                    return m
    raise Unsupported(f"{cls}.{name} not found")


def _find_func(tree, name):
    for n in tree.body:
        if isinstance(n, ast.FunctionDef) and n.name == name:
            return n
    raise Unsupported(f"{name} not found")


def _lt_consts(fn):
    """all comparisons `<expr> < <float constant>` in fn: list of (unparsed left side, constant)"""
    out = []
    for n in ast.walk(fn):
        if isinstance(n, ast.Compare) and len(n.ops) == 1 and isinstance(n.ops[0], ast.Lt) \
                and isinstance(n.comparators[0], ast.Constant) and isinstance(n.comparators[0].value, float):
            out.append((ast.unparse(n.left), n.comparators[0].value))
    return out


def fr_me(x):
    """float -> (mantissa, exponent) with x = m * 2**e exactly"""
    fr = Fraction(float(x))
    d = fr.denominator
    e = -(d.bit_length() - 1)
    if d != 1 << (-e):
        raise ValueError("not a dyadic rational")
    return fr.numerator, e


def gen(ctx: Ctx):
    units = []
    src_a = (SRC / "atomgrid.py").read_text()
    src_u = (SRC / "utils.py").read_text()
    src_m = (SRC / "molgrid.py").read_text()
    ta, tu, tm = ast.parse(src_a), ast.parse(src_u), ast.parse(src_m)

    def unit(src, fn, label, file):
        units.append({"unit": label, "file": file, "lines": [fn.lineno, fn.end_lineno], "sha": src_sha(ast.get_source_segment(src, fn))})

    meth = {}
    for name in ("integrate_angular_coordinates", "spherical_average", "radial_component_splines", "interpolate",
                 "convert_cartesian_to_spherical", "_generate_atomic_grid"):
        meth[name] = _find_method(ta, "AtomGrid", name)
        unit(src_a, meth[name], f"AtomGrid.{name}", "src/grid/atomgrid.py")
    conv = _find_func(tu, "convert_derivative_from_spherical_to_cartesian")
    unit(src_u, conv, "convert_derivative_from_spherical_to_cartesian", "src/grid/utils.py")
    unit(src_u, _find_func(tu, "convert_cart_to_sph"), "convert_cart_to_sph", "src/grid/utils.py")
    mi = _find_method(tm, "MolGrid", "interpolate")
    unit(src_m, mi, "MolGrid.interpolate", "src/grid/molgrid.py")

    # The constants below parametrise the model.  A source pattern that is no longer recognised is recorded as a failed
    # obligation (fail closed) and the expected constant is used, so that the property oracle can still look for a
    # concrete failing input.
    problems = []

    def attempt(label, fn, default):
        try:
            return fn()
        except Unsupported as e:
            problems.append(f"{label}: {e}")
            return default

    def get_eps_small():
        lts = _lt_consts(meth["integrate_angular_coordinates"])
        if len(lts) != 1 or lts[0][0] != "self.rgrid.points":
            raise Unsupported(f"integrate_angular_coordinates: expected exactly one `self.rgrid.points < c`, found {lts}")
        return lts[0][1]

    def get_canonical():
        eqs = [ast.unparse(n) for n in ast.walk(meth["convert_cartesian_to_spherical"]) if isinstance(n, ast.Compare)]
        if "self.rgrid.points == 0.0" not in eqs:
            raise Unsupported(f"convert_cartesian_to_spherical: `self.rgrid.points == 0.0` not found ({eqs})")
        return True

    def get_fourpi():
        divs = [n for n in ast.walk(meth["spherical_average"]) if isinstance(n, ast.AugAssign) and isinstance(n.op, ast.Div)]
        if len(divs) != 1 or ast.unparse(divs[0].value) != "4.0 * np.pi":
            raise Unsupported("spherical_average: expected `f_radial /= 4.0 * np.pi`")
        return 4.0 * np.pi

    def get_eps_jac():
        lts = sorted(_lt_consts(conv))
        if [x[0] for x in lts] != ["np.abs(phi)", "np.abs(r)"] or lts[0][1] != lts[1][1]:
            raise Unsupported(f"convert_derivative_from_spherical_to_cartesian: thresholds {lts}")
        return lts[0][1]

    def get_degree_arg():
        ncall = 0
        for fn in (meth["radial_component_splines"], meth["interpolate"]):
            for n in ast.walk(fn):
                if isinstance(n, ast.Call) and isinstance(n.func, ast.Name) and n.func.id in (
                        "generate_real_spherical_harmonics", "generate_derivative_real_spherical_harmonics"):
                    ncall += 1
                    if not n.args or ast.unparse(n.args[0]) != "self.l_max // 2":
                        raise Unsupported(f"{fn.name}: {n.func.id} called with degree {ast.unparse(n.args[0]) if n.args else '?'}")
        if ncall < 3:
            raise Unsupported(f"expected at least 3 harmonic generator calls in atomgrid.py, found {ncall}")
        return True

    eps_small = attempt("eps_small", get_eps_small, 1e-8)
    attempt("canonical_angles", get_canonical, None)
    fourpi = attempt("fourpi", get_fourpi, 4.0 * np.pi)
    eps_jac = attempt("eps_jac", get_eps_jac, 1e-10)
    attempt("harmonic_degree", get_degree_arg, None)

    def nd(x):
        fr = Fraction(x)
        return f"({fr.numerator}, {fr.denominator})%Z"

    m, e = fr_me(fourpi)
    text = ("(* generated from src/grid/atomgrid.py and src/grid/utils.py on every run; do not edit *)\n"
            "From Coq Require Import ZArith.\n"
            f"Definition eps_small_nd : Z * Z := {nd(eps_small)}.   (* {eps_small!r} *)\n"
            f"Definition eps_jac_nd : Z * Z := {nd(eps_jac)}.   (* {eps_jac!r} *)\n"
            f"Definition fourpi_me : Z * Z := ({m}, {e})%Z.   (* 4.0 * np.pi = {fourpi!r} *)\n")
    ctx.gen("C09_gen.v", text, units)
    return {"eps_small": eps_small, "eps_jac": eps_jac, "fourpi": fourpi, "problems": problems}


# ====================================================================== independent harmonics / geometry (oracle side)
def nsph(deg):
    return (deg // 2 + 1) ** 2


def own_angles(vecs):
    """(theta, phi) of non-zero vectors, own formula (atan2 / atan2 — not arccos)"""
    v = np.asarray(vecs, dtype=float)
    theta = np.arctan2(v[:, 1], v[:, 0])
    phi = np.arctan2(np.hypot(v[:, 0], v[:, 1]), v[:, 2])
    return theta, phi


def own_Y(L, theta, phi):
    """Real spherical harmonics, rows l*l + (0, 1, -1, 2, -2, ...), from scipy.special.sph_harm_y (complex, with
    Condon-Shortley phase): Y_l,+m = sqrt2 (-1)^m Re Y_l^m, Y_l,-m = sqrt2 (-1)^m Im Y_l^m."""
    from scipy.special import sph_harm_y

    theta = np.asarray(theta, dtype=float)
    phi = np.asarray(phi, dtype=float)
    out = np.zeros(((L + 1) ** 2, len(theta)))
    for l in range(L + 1):
        out[l * l] = sph_harm_y(l, 0, phi, theta).real
        for m in range(1, l + 1):
            c = sph_harm_y(l, m, phi, theta) * (math.sqrt(2.0) * (-1) ** m)
            out[l * l + 2 * m - 1] = c.real
            out[l * l + 2 * m] = c.imag
    return out


def own_Y_cart(u):
    """closed forms for l <= 2 at unit vectors (independent of SciPy), same row order"""
    x, y, z = u[:, 0], u[:, 1], u[:, 2]
    c0 = 0.5 / math.sqrt(math.pi)
    c1 = math.sqrt(3.0 / (4 * math.pi))
    c2 = 0.5 * math.sqrt(15.0 / math.pi)
    return np.array([c0 + 0 * x, c1 * z, c1 * x, c1 * y,
                     0.25 * math.sqrt(5.0 / math.pi) * (3 * z * z - 1), c2 * x * z, c2 * y * z,
                     0.5 * c2 * (x * x - y * y), c2 * x * y])


# ====================================================================== spline recorder
class Recorder:
    def __init__(self):
        self.splines = []   # (x, y, obj)
        self.calls = []     # (index, x, nu, out)

    def reset(self):
        self.splines, self.calls = [], []


def install_recorder(rec):
    import grid.atomgrid as ag
    from scipy.interpolate import CubicSpline as Orig

    class RecSpline(Orig):
        def __init__(self, x, y, *a, **k):
            super().__init__(x, y, *a, **k)
            self._c09_idx = len(rec.splines)
            rec.splines.append((np.array(x, dtype=float), np.array(y, dtype=float), self))

        def __call__(self, x, nu=0, extrapolate=None):
            out = super().__call__(x, nu, extrapolate)
            rec.calls.append((self._c09_idx, np.array(x, dtype=float), nu, np.array(out, dtype=float)))
            return out

    old = ag.CubicSpline
    ag.CubicSpline = RecSpline
    return ag, old


# ====================================================================== Coq literals
def _me(x):
    m, e = fr_me(x)
    if abs(m) >= 2 ** 62 or abs(e) >= 2 ** 20:
        raise ValueError(f"{x!r} is not a double")
    return (f"({m})" if m < 0 else str(m)), (f"({e})" if e < 0 else str(e))


def dy(x):
    """one exact dyadic as primitive-integer literals (parsed natively): dq m e = m * 2^e"""
    m, e = _me(x)
    return f"(dq {m} {e})"


def dyl(xs):
    """list of exact dyadics: dl [m1; e1; m2; e2; ...]"""
    return "(dl [" + "; ".join("; ".join(_me(x)) for x in xs) + "])"


def dyll(rows):
    return "[" + "; ".join(dyl(r) for r in rows) + "]"


def bcoq(b):
    return "true" if b else "false"


EXEC_HEADER = """From Coq Require Import List ZArith Bool Sint63.
From Bignums Require Import BigQ.
From P Require Import C09_model C09_gen C09_model_exec.
Import ListNotations.
Open Scope sint63_scope.
"""


def run_bool_files(ctx: Ctx, files: dict, metas: dict):
    """files: name -> (header_with_defs, [bool exprs]); returns list of metas whose expression is false"""
    texts = {}
    for name, (hdr, cases) in files.items():
        body = [hdr, "Definition cases : list bool := ["]
        body.append(";\n".join("  (" + c + ")" for c in cases))
        body.append("].")
        body.append("Fixpoint bad_idx (i : nat) (l : list bool) : list nat := match l with nil => nil "
                    "| cons b t => if b then bad_idx (S i) t else cons i (bad_idx (S i) t) end.")
        body.append('Goal True. let r := eval vm_compute in (bad_idx O cases) in idtac "BADIDX" r. Abort.')
        texts[name] = "\n".join(body)
    res = ctx.coq_run_many(texts, timeout=1500)
    bad = []
    for name, (ok, out) in res.items():
        m = re.search(r"BADIDX\s*(.*)", out, flags=re.S)
        if not ok or not m:
            ctx.logs[name] = out[-3000:]
            raise RuntimeError(f"correspondence case file {name} did not evaluate: {out[-600:]}")
        for num in re.findall(r"\d+", m.group(1).split("\n\n")[0]):
            bad.append(metas[name][int(num)])
    return bad


# ====================================================================== configurations
RPOOL = [Fraction(1, 8), Fraction(1, 4), Fraction(1, 2), Fraction(3, 4), Fraction(1), Fraction(3, 2), Fraction(2), Fraction(3), Fraction(4)]
TINY = Fraction(1, 2 ** 30)          # 0 < r < 1e-8: the regenerated-grid branch with distinct points


def actual_degree(method, d):
    from grid.angular import AngularGrid

    return int(AngularGrid(degree=d, method=method).degree)


_ALIAS = {}


def alias_sequences(method, max_degree=None):
    """Mixed degree sequences whose total number of points equals (number of shells) x (size of ONE of the shells):
    a "same angular grid on every shell" shortcut keyed on total size and one shell size wrongly fires on them
    (Lebedev [9, 7, 11]: 38 + 26 + 50 = 3 * 38).  Computed from the size table of the method.  Returns a dict
    position -> list of sequences, position of the matching shell: 'first' | 'last' | 'other'."""
    if method in _ALIAS:
        return _ALIAS[method]
    if max_degree is None:
        max_degree = 15 if method == "spherical" else 13     # the t-designs have no such sequence below degree 15
    import itertools

    from grid.angular import AngularGrid

    sizes = {}
    for d in range(4, max_degree + 1):
        try:
            a = AngularGrid(degree=d, method=method)
        except Exception:  # noqa: BLE001
            continue
        sizes.setdefault(int(a.degree), int(a.size))
    sizes = {d: n for d, n in sizes.items() if 4 <= d <= max_degree}
    out = {"first": [], "last": [], "other": []}
    for n in (3, 4, 5):
        for combo in itertools.combinations_with_replacement(sorted(sizes), n):
            if len(set(combo)) == 1:
                continue
            tot = sum(sizes[d] for d in combo)
            for d in sorted(set(combo)):
                if tot != n * sizes[d]:
                    continue
                rest = list(combo)
                rest.remove(d)
                # keep the sequence genuinely mixed next to the matching shell: largest remaining degree adjacent
                rest.sort(key=lambda x: -x)
                out["first"].append([d] + rest)
                out["last"].append(rest + [d])
                if rest[0] != d and rest[-1] != d:
                    out["other"].append(rest[:1] + [d] + rest[1:])
    _ALIAS[method] = out
    return out


def make_config(rng, method, kind, lead=None, rotated=False, decay=None):
    """kind: 'uniform' | 'mixed' | 'alias-first' | 'alias-last' | 'alias-other';  returns a JSON-able dict"""
    alias = None
    if kind.startswith("alias"):
        seqs = alias_sequences(method).get(kind.split("-")[1], [])
        if seqs:
            alias = list(rng.choice(seqs))
        else:
            kind = "mixed"
    n = len(alias) if alias else rng.randint(4, 6)
    rs = sorted(rng.sample(RPOOL, n))
    lead = lead or rng.choice(["zero", "zero", "tiny", "none"])
    if lead == "zero":
        rs = [Fraction(0)] + rs[:n - 1]
    elif lead == "tiny":
        rs = [TINY] + rs[:n - 1]
    ws = [Fraction(1, 2 ** rng.randint(0, 3)) * rng.choice([1, 1, 2, 3]) for _ in rs]
    if alias:
        degs = alias
    elif method == "ahrens_beylkin":
        degs = [14] if kind == "uniform" else [rng.choice([14, 19]) for _ in rs]
    elif kind == "uniform":
        degs = [rng.choice([6, 7, 8, 9] if method != "maxdet" else [6, 7, 8])]
    else:
        pool = [5, 6, 7, 8, 9, 10, 11] if method != "maxdet" else [4, 5, 6, 7, 8]
        degs = [rng.choice(pool) for _ in rs]
        if len(set(degs)) == 1:
            degs[rng.randrange(len(degs))] = pool[0] if degs[0] != pool[0] else pool[-1]
    act = [actual_degree(method, d) for d in (degs if len(degs) > 1 else degs * len(rs))]
    lcap = min(3, min(act) // 2)
    L = rng.choice([lcap, lcap, max(lcap - 1, 0)])
    kf = (L + 1) ** 2
    mode = rng.choice(["function", "function", "spherical"])
    coef = []
    for r in rs:
        row = [rng.randint(-3, 3) for _ in range(kf)]
        if row[0] == 0:
            row[0] = rng.choice([-2, 1, 3])
        if r == 0 and mode == "function":
            row = [row[0]] + [0] * (kf - 1)   # a single-valued function at the centre
        coef.append(row)
    # large dynamic range across the shells (an exponentially decaying or growing density): g_lm(r_i) = integer * 2^(e_i).
    # Each shell's results depend on that shell's values only, so they are checked relative to the shell's own size.
    if decay is None:
        decay = rng.choice([None, None, None, "out", "in"])
    shell_exp = [0] * len(rs)
    if decay:
        step = rng.randint(9, 17)
        shell_exp = [-step * (i if decay == "out" else len(rs) - 1 - i) for i in range(len(rs))]
        coef = [[float(c) * 2.0 ** e for c in row] for row, e in zip(coef, shell_exp)]
    centre = rng.choice([[0, 0, 0], [Fraction(1, 2), -1, 2], [Fraction(-3, 4), Fraction(1, 4), Fraction(-5, 2)]])
    if lead == "tiny":
        # AtomGrid stores absolute coordinates: directions of a shell of radius 1e-9 about an off-origin centre are only
        # known to ~1e-7 in floating point (cancellation in points - center), which is outside the exact-arithmetic property
        centre = [0, 0, 0]
    rotate = rng.choice([1, 7, 2023]) if rotated else rng.choice([0, 0, 1, 7, 2023])
    return {"r": [str(x) for x in rs], "w": [str(x) for x in ws], "degrees": degs, "method": method,
            "center": [str(Fraction(c)) for c in centre], "rotate": rotate, "L": L, "coef": coef, "shell_exp": shell_exp, "mode": mode,
            "pseed": rng.randrange(2 ** 30)}


def cfg_key(cfg):
    return json.dumps(cfg, separators=(",", ":"), sort_keys=True)


def build_atgrid(cfg):
    from grid.atomgrid import AtomGrid
    from grid.onedgrid import OneDGrid

    r = np.array([float(Fraction(x)) for x in cfg["r"]])
    w = np.array([float(Fraction(x)) for x in cfg["w"]])
    rg = OneDGrid(r, w, (0, np.inf))
    c = np.array([float(Fraction(x)) for x in cfg["center"]])
    return AtomGrid(rg, degrees=list(cfg["degrees"]), center=c, rotate=int(cfg["rotate"]), method=cfg["method"])


class GridInfo:
    """Everything the harness derives about one atomic grid: own geometry (oracle side) and the values of the
    implementation's sub-routines at the grid directions (model side)."""

    def __init__(self, cfg, grid):
        from grid.angular import AngularGrid
        from grid.utils import generate_real_spherical_harmonics

        self.cfg, self.grid = cfg, grid
        self.r = np.array([float(Fraction(x)) for x in cfg["r"]])
        self.w = np.array([float(Fraction(x)) for x in cfg["w"]])
        self.centre = np.array([float(Fraction(x)) for x in cfg["center"]])
        self.n = len(self.r)
        self.degs = [int(d) for d in grid.degrees]
        self.lmax = max(self.degs)
        self.K = nsph(self.lmax)
        self.L = cfg["L"]
        self.Kf = (self.L + 1) ** 2
        self.ag = [AngularGrid(degree=d, method=cfg["method"]) for d in self.degs]
        self.aw = [np.array(a.weights, dtype=float) for a in self.ag]
        sizes = [len(a) for a in self.aw]
        self.idx = np.concatenate([[0], np.cumsum(sizes)]).astype(int)   # own shell boundaries
        self.N = int(self.idx[-1])
        # own directions: actual points relative to the centre (r > 0), the un-rotated angular grid at r == 0
        pts = np.asarray(grid.points, dtype=float)
        self.points = pts
        th, ph = np.zeros(self.N), np.zeros(self.N)
        for i in range(self.n):
            sl = slice(self.idx[i], self.idx[i + 1])
            vec = (pts[sl] - self.centre) if self.r[i] != 0.0 else np.asarray(self.ag[i].points, dtype=float)
            th[sl], ph[sl] = own_angles(vec)
        self.theta, self.phi = th, ph
        self.Yown = own_Y(self.lmax // 2, th, ph)
        # implementation's own sub-routines (what the model's oracle Y stands for)
        sph = np.asarray(grid.convert_cartesian_to_spherical(), dtype=float)
        self.sph_impl = sph
        self.Yimpl = np.asarray(generate_real_spherical_harmonics(self.lmax // 2, sph[:, 1], sph[:, 2]), dtype=float)

    def shells(self, arr):
        return [np.asarray(arr[..., self.idx[i]:self.idx[i + 1]]) for i in range(self.n)]

    def band_values(self, coef):
        """f_ij = sum_{k < Kf} coef[i][k] * Y_k(direction_ij), own harmonics"""
        fv = np.zeros(self.N)
        for i in range(self.n):
            sl = slice(self.idx[i], self.idx[i + 1])
            fv[sl] = np.asarray(coef[i], dtype=float) @ self.Yown[:self.Kf, sl]
        return fv

    def coq_grid(self, name):
        sh = []
        for i in range(self.n):
            sl = slice(self.idx[i], self.idx[i + 1])
            cols = "[" + "; ".join("mkd " + dyl(self.Yimpl[:self.K, j]) for j in range(sl.start, sl.stop)) + "]"
            pd, cd = ("[]", cols) if self.r[i] == 0.0 else (cols, "[]")
            sh.append(f"Shell {dy(self.r[i])} {dy(self.w[i])} {self.degs[i]}%nat {dyl(self.aw[i])} {pd} {cd}")
        return f"Definition {name} : gridq := [\n  " + ";\n  ".join(sh) + "].\n"

    def coq_fvals(self, fv):
        return dyll([fv[self.idx[i]:self.idx[i + 1]] for i in range(self.n)])


def eval_points(rng, info, extra=True):
    """offsets from the centre (exact dyadics): generic, planes, axes, centre, beyond the last shell, two grid points"""
    rmax = float(info.r[-1])
    offs = [[0.0, 0.0, 0.0], [0.0, 0.0, 0.75], [0.0, 0.0, -1.5], [0.625, 0.0, 0.0], [-0.375, 0.0, 0.0], [0.25, -0.5, 0.0],
            [0.0, 1.25, 0.0], [0.0, 0.0, rmax + 0.5]]
    for _ in range(5 if extra else 2):
        offs.append([rng.randint(-24, 24) / 8.0 for _ in range(3)])
    offs.append([rmax + 0.25, 0.5, -0.125])
    offs = [o for o in offs if o == [0.0, 0.0, 0.0] or any(o)]
    P = np.array(offs) + info.centre
    gp = [int(info.idx[i]) + rng.randrange(int(info.idx[i + 1] - info.idx[i])) for i in rng.sample(range(info.n), 2)]
    P = np.vstack([P, info.points[gp]])
    return P


def point_class(off):
    """'centre' | 'axis' | 'near-axis' | 'generic' for an offset from the centre.  'near-axis' (sin(phi) < 1e-6, e.g. a
    tabulated grid point with a coordinate of 1e-17 instead of 0) is never used for angular finite differences."""
    if not np.any(off):
        return "centre"
    if off[0] == 0.0 and off[1] == 0.0:
        return "axis"
    if math.hypot(off[0], off[1]) < 1e-6 * abs(off[2]):
        return "near-axis"
    return "generic"


MODES = [(0, False, False), (1, False, False), (1, True, False), (1, False, True), (2, False, True), (3, False, True),
         (2, False, False), (0, True, True)]


def call_closure(fn, P, mode, mol=False):
    d, sph, ro = mode
    try:
        if mol:
            out = fn(P, deriv=d, deriv_spherical=sph, only_radial_derivs=ro)
        else:
            out = fn(P, deriv=d, deriv_spherical=sph, only_radial_deriv=ro)
        return ("ok", np.asarray(out, dtype=float))
    except ValueError as e:
        return ("valueerror", str(e)[:80])
    except Exception as e:  # noqa: BLE001
        return ("exc", f"{type(e).__name__}: {str(e)[:100]}")


def coq_res(mode, st, out, M):
    """the implementation's observation as a Coq `res bigQ` (shape decides the constructor)"""
    if st == "valueerror":
        return "Err"
    if st != "ok":
        return None
    if out.ndim == 2 and out.shape == (M, 3):
        return "Rows [" + "; ".join(f"({dy(a)}, {dy(b)}, {dy(c)})" for a, b, c in out) + "]"
    if out.ndim == 1 and len(out) == 3 * M and mode[0] == 1 and mode[1] and not mode[2]:
        return "Flat " + dyl(out)
    if out.ndim == 1 and len(out) == M:
        return "Vals " + dyl(out)
    return None


def coq_pts(info_lmax_half, sph, P_rel=None):
    """rows of convert_cartesian_to_spherical(points) -> list (bigQ * ddata) with the implementation's own harmonics,
    derivative harmonics and trigonometric values at those angles"""
    from grid.utils import generate_derivative_real_spherical_harmonics, generate_real_spherical_harmonics

    th, ph = sph[:, 1], sph[:, 2]
    Y = np.asarray(generate_real_spherical_harmonics(info_lmax_half, th, ph), dtype=float)
    dY = np.asarray(generate_derivative_real_spherical_harmonics(info_lmax_half, th, ph), dtype=float)
    st, ct, sp, cp = np.sin(th), np.cos(th), np.sin(ph), np.cos(ph)
    rows = []
    for j in range(len(th)):
        rows.append(f"({dy(sph[j, 0])}, DD {dyl(Y[:, j])} {dyl(dY[0, :, j])} {dyl(dY[1, :, j])} {dy(st[j])} {dy(ct[j])} {dy(sp[j])} {dy(cp[j])} {dy(ph[j])})")
    return "[" + ";\n   ".join(rows) + "]"


# ====================================================================== one atomic grid: hypotheses, tie, property oracle
class Bucket:
    """Coq definitions and boolean cases that go into one generated file."""

    def __init__(self, name):
        self.name, self.defs, self.cases, self.metas = name, [], [], []

    def case(self, expr, meta):
        self.cases.append(expr)
        self.metas.append(meta)


def finite(a):
    return bool(np.all(np.isfinite(np.asarray(a, dtype=float))))


def maxabs(a):
    a = np.asarray(a, dtype=float)
    return float(np.max(np.abs(a))) if a.size else 0.0


def close(a, b, scale=1.0, tol=TOL):
    a, b = np.asarray(a, dtype=float), np.asarray(b, dtype=float)
    return a.shape == b.shape and finite(a) and bool(np.all(np.abs(a - b) <= tol * max(1.0, scale)))


def close_shells(a, b, svec, c=16.0, tol=TOL):
    """last axis = shells; every entry within tol * c * (size of the function on that shell)"""
    a, b = np.asarray(a, dtype=float), np.asarray(b, dtype=float)
    return a.shape == b.shape and finite(a) and bool(np.all(np.abs(a - b) <= tol * c * np.maximum(np.asarray(svec, dtype=float), 1e-300)))


def shell_excess(a, b, svec, c=16.0, tol=TOL):
    return np.abs(np.nan_to_num(np.asarray(a, dtype=float), nan=1e300) - b) / np.maximum(tol * c * np.asarray(svec, dtype=float), 1e-300)


def validate_spline_hypotheses(ctx, rng, report):
    """knots / linearity / derivative hypotheses on scipy.interpolate.CubicSpline itself (the oracle `spl`)"""
    from scipy.interpolate import CubicSpline

    worst = {"knots": 0.0, "linear": 0.0, "deriv": 0.0}
    for _ in range(6):
        n = rng.randint(4, 7)
        x = np.array(sorted(rng.sample([0.125, 0.25, 0.5, 0.75, 1.0, 1.5, 2.0, 3.0, 4.0], n)))
        x[0] = rng.choice([0.0, 2.0 ** -30, x[0]])     # the radial grids used below start at 0, 2^-30 or a regular node
        y1 = np.array([rng.randint(-5, 5) for _ in range(n)], dtype=float)
        y2 = np.array([rng.randint(-5, 5) for _ in range(n)], dtype=float)
        a = rng.randint(-3, 3) / 2.0
        s1, s2, s3 = CubicSpline(x, y1), CubicSpline(x, y2), CubicSpline(x, a * y1 + y2)
        worst["knots"] = max(worst["knots"], maxabs(s1(x) - y1))
        t = np.array([rng.uniform(0.0, 5.0) for _ in range(7)])
        for nu in range(4):
            worst["linear"] = max(worst["linear"], maxabs(s3(t, nu) - (a * s1(t, nu) + s2(t, nu))))
        h = 2.0 ** -12
        for nu in range(3):
            tt = t if nu < 2 else np.array([u for u in t if np.min(np.abs(x - u)) > 4 * h])
            if len(tt) == 0:
                continue
            d1 = (s1(tt + h, nu) - s1(tt - h, nu)) / (2 * h)
            d2 = (s1(tt + h / 2, nu) - s1(tt - h / 2, nu)) / h
            err = np.abs(d1 - d2)
            bad = np.abs(s1(tt, nu + 1) - d2) - (4 * err + 1e-6 * (1 + np.abs(d2)))
            worst["deriv"] = max(worst["deriv"], float(np.max(bad)))
    ctx.cov["spline_hypotheses"] = {k: float(f"{v:.3g}") for k, v in worst.items()}
    if worst["knots"] > 1e-12 or worst["linear"] > 1e-9 or worst["deriv"] > 0:
        report(0, "hyp_spline", "hyp:spline", [round(worst[k], 12) for k in ("knots", "linear", "deriv")],
               f"scipy CubicSpline violates a hypothesis of the theorems (knots / linear / derivative): {worst}", {}, found=False)


def check_atom(ctx, cfg, rec, B: Bucket, report, tag, axis_today=True):
    """returns dict with the objects the molecular check re-uses, or None"""
    import random

    rng = random.Random(cfg["pseed"])     # all further randomness of this case derives from the configuration
    key0 = cfg_key(cfg)
    try:
        grid = build_atgrid(cfg)
        info = GridInfo(cfg, grid)
    except Exception as e:  # noqa: BLE001
        report(0, "harness_grid", f"grid:{key0}", f"{type(e).__name__}", f"constructing the atomic grid raised {type(e).__name__}: {e}", {"cfg": cfg})
        return None
    n, K, Kf, size = info.n, info.K, info.Kf, info.N
    rp0 = {"cfg": cfg, "kind": "atom"}
    coef = np.array(cfg["coef"], dtype=float)
    had_oracle_failure = [False]

    def orep(obl, what, observed, text, extra=None):
        had_oracle_failure[0] = True
        rp = dict(rp0)
        rp["what"] = what
        rp.update(extra or {})
        report(size, obl, f"{what}:{key0}", observed, text, rp)

    def trep(obl, what, observed, text):
        report(size, obl, f"{what}:{key0}", observed, text + " (model and implementation disagree)", dict(rp0, what=what), found=None, dep=had_oracle_failure)

    ctx.count(f"method={cfg['method']}")
    ctx.count("degrees=" + ("mixed" if len(set(info.degs)) > 1 else "uniform"))
    sz = [int(info.idx[i + 1] - info.idx[i]) for i in range(info.n)]
    if len(set(sz)) > 1 and any(sum(sz) == len(sz) * x for x in sz):
        ctx.count("degrees=size-aliasing (total = n_shells x one shell size)")
    ctx.count("r0=" + ("zero" if info.r[0] == 0 else "tiny" if info.r[0] < 1e-8 else "none"))
    ctx.count(f"L={info.L}")
    ctx.count("rotate=" + ("0" if cfg["rotate"] == 0 else "seed"))

    # ---------------------------------------------------------------- structure of the grid object (model of the weights)
    if list(np.asarray(grid.indices, dtype=int)) != list(info.idx):
        trep("corr_grid", "indices", [int(x) for x in np.asarray(grid.indices)][:8], "AtomGrid.indices differ from the cumulative angular grid sizes")
        return None
    wown = np.concatenate([info.aw[i] * info.w[i] * info.r[i] ** 2 for i in range(n)])
    if not close(grid.weights, wown, maxabs(wown), 1e-13):
        trep("corr_grid", "weights", float(maxabs(np.asarray(grid.weights) - wown)), "AtomGrid.weights differ from angular weight * w_i * r_i^2")
    if list(info.degs) != [actual_degree(cfg["method"], d) for d in (cfg["degrees"] if len(cfg["degrees"]) > 1 else cfg["degrees"] * n)]:
        trep("corr_grid", "degrees", info.degs, "AtomGrid.degrees are not the supported degrees of the requested ones")

    # ---------------------------------------------------------------- hypotheses of the theorems, on this grid
    for i in range(n):
        sl = slice(info.idx[i], info.idx[i + 1])
        ks = nsph(info.degs[i])
        G = (info.Yimpl[:ks, sl] * info.aw[i]) @ info.Yimpl[:ks, sl].T
        dev = maxabs(G - np.eye(ks))
        ctx.cov["max_orthonormality_defect"] = max(ctx.cov.get("max_orthonormality_defect", 0.0), dev)
        if dev > 1e-9:
            report(size, "hyp_orthonormal", f"hyp:ortho:{cfg['method']}:{info.degs[i]}", round(dev, 12),
                   f"angular grid {cfg['method']} degree {info.degs[i]}: sum_a w_a Y_k(a) Y_k'(a) deviates from delta by {dev:.3g} for l, l' <= {info.degs[i] // 2}",
                   dict(rp0, what="hyp_orthonormal", shell=i), found=False)
    dev = maxabs(info.Yimpl - info.Yown)
    if dev > 1e-11:
        report(size, "hyp_harmonics", f"hyp:Y:{key0}", round(dev, 12),
               f"harmonic basis on the grid directions (implementation's angles and generator) deviates from the definition by {dev:.3g}",
               dict(rp0, what="hyp_harmonics"), found=False)
    if maxabs(info.Yimpl[0] - 1.0 / math.sqrt(4 * math.pi)) > 1e-14:
        report(size, "hyp_y00", f"hyp:y00:{key0}", float(info.Yimpl[0, 0]), "Y_00 is not 1/sqrt(4 pi)", dict(rp0, what="hyp_y00"), found=False)

    gname = f"g{tag}"
    B.defs.append(info.coq_grid(gname))
    fv = info.band_values(cfg["coef"])
    # a second function for the stacked call / the cached basis: another coefficient table
    sexp = np.array(cfg.get("shell_exp") or [0] * n, dtype=float)
    coef_b = np.array([[rng.randint(-2, 2) for _ in range(Kf)] for _ in range(n)], dtype=float) * (2.0 ** sexp)[:, None]
    fvb = info.band_values(coef_b)
    ctx.count("dynamic_range=" + ("none" if not np.any(sexp) else "decaying outwards" if sexp[-1] < 0 else "growing outwards"))
    scale = max(1.0, maxabs(fv), maxabs(fvb))
    tol_q = dy(float(2.0 ** math.ceil(math.log2(TIE_TOL * scale))))
    B.defs.append(f"Definition f{tag} := {info.coq_fvals(fv)}.\nDefinition fb{tag} := {info.coq_fvals(fvb)}.\n")
    # size of the function on each shell: the per-shell results are checked relative to it
    ssc = np.array([max(maxabs(fv[info.idx[i]:info.idx[i + 1]]), float(np.max(np.abs(coef[i]))) / 4) for i in range(n)])
    sscb = np.array([max(maxabs(fvb[info.idx[i]:info.idx[i + 1]]), float(np.max(np.abs(coef_b[i]))) / 4, 2.0 ** sexp[i] / 4) for i in range(n)])
    pt_shell = np.searchsorted(info.idx, np.arange(info.N), side="right") - 1
    own_int = float(np.sum(wown * fv))
    sq4pi = math.sqrt(4 * math.pi)

    # ---------------------------------------------------------------- integrate_angular_coordinates
    try:
        ia = np.asarray(grid.integrate_angular_coordinates(fv.copy()), dtype=float)
        ia2 = np.asarray(grid.integrate_angular_coordinates(np.stack([fv, fvb])), dtype=float)
    except Exception as e:  # noqa: BLE001
        orep("angular_integral_exact", "int_ang", type(e).__name__, f"integrate_angular_coordinates raised {type(e).__name__}: {e}")
        return None
    ctx.case(("int_ang", key0), traces=2)
    if ia.shape != (n,) or ia2.shape != (2, n) or not finite(ia) or not finite(ia2):
        orep("angular_integral_exact", "int_ang", str(ia.tolist())[:120], f"integrate_angular_coordinates returned shape {ia.shape} / non-finite values {ia.tolist()}", {"expected": (sq4pi * coef[:, 0]).tolist()})
    else:
        exp = sq4pi * coef[:, 0]
        if not close_shells(ia, exp, ssc) or not close_shells(ia2[0], exp, ssc) or not close_shells(ia2[1], sq4pi * coef_b[:, 0], sscb):
            i = int(np.argmax(shell_excess(ia, exp, ssc)))
            orep("angular_integral_exact", "int_ang", float(ia[i]),
                 f"shell {i} (r={float(info.r[i])}): angular integral {float(ia[i])!r}, exact sqrt(4 pi) g_00(r_i) = {float(exp[i])!r}", {"shell": i, "expected": exp.tolist(), "observed_all": ia.tolist()})
        tot = float(np.sum(info.r ** 2 * info.w * ia))
        if not close(tot, own_int, max(scale, abs(own_int))) or not close(float(grid.integrate(fv)), own_int, max(scale, abs(own_int))):
            orep("reweighted_sum_is_integral", "reweighted", tot,
                 f"sum_i r_i^2 w_i * (angular integral) = {tot!r}, Grid.integrate = {float(grid.integrate(fv))!r}, sum of weight*value = {own_int!r}", {"expected": own_int})
        B.case(f"qvec_close {tol_q} (int_ang_q {gname} f{tag}) {dyl(ia)}", ("int_ang", cfg, trep))
        B.case(f"qvec_close {tol_q} (int_ang_q {gname} f{tag}) {dyl(ia2[0])} && qvec_close {tol_q} (int_ang_q {gname} fb{tag}) {dyl(ia2[1])}", ("int_ang_stacked", cfg, trep))
        B.case(f"qclose {tol_q} (grid_integrate_q {gname} f{tag}) {dy(float(grid.integrate(fv)))}", ("grid_integrate", cfg, trep))

    # ---------------------------------------------------------------- radial_component_splines (twice: the basis is cached)
    for which, f_arr, cf, fname in (("first", fv, coef, f"f{tag}"), ("cached-basis", fvb, coef_b, f"fb{tag}")):
        rec.reset()
        try:
            spl = grid.radial_component_splines(f_arr.copy())
        except Exception as e:  # noqa: BLE001
            orep("components_recovered", "splines", type(e).__name__, f"radial_component_splines raised {type(e).__name__}: {e}")
            return None
        ctx.case(("splines", key0, which))
        if len(spl) != K or len(rec.splines) != K:
            orep("components_recovered", "n_splines", len(spl),
                 f"radial_component_splines returned {len(spl)} splines ({len(rec.splines)} constructed); l <= l_max // 2 = {info.lmax // 2} needs {K}", {"expected": K})
            return None
        ys = np.array([s[1] for s in rec.splines])
        if any(not np.array_equal(s[0], info.r) for s in rec.splines):
            trep("corr_spline_data", "spline_x", rec.splines[0][0].tolist(), "CubicSpline is not built on rgrid.points")
        exp = np.zeros((K, n))
        exp[:Kf] = cf.T
        sv = ssc if which == "first" else sscb
        if not finite(ys) or not close_shells(ys, exp, sv):
            d = shell_excess(ys, exp, sv)
            k, i = np.unravel_index(int(np.argmax(d)), d.shape)
            l = int(math.isqrt(k))
            orep("components_recovered", f"component:{which}", float(ys[k, i]),
                 f"radial component row {k} (l={l}) at shell {i} (r={float(info.r[i])}, degree {info.degs[i]}): value handed to the spline {float(ys[k, i])!r}, g_lm(r_i) = {float(exp[k, i])!r}",
                 {"row": int(k), "shell": int(i), "expected": float(exp[k, i]), "call": which})
        if finite(ys):
            B.case(f"qrows_close {tol_q} (rad_comps_q {gname} {fname}) {dyll(ys)}", (f"spline_data:{which}", cfg, trep))

    # ---------------------------------------------------------------- histories on the same grid object
    # The property speaks about the function values handed over at each call.  Callers refresh one value buffer in place
    # between calls (vals[:] = ..., vals *= 2) or pass views of a larger buffer; every call must decompose the CURRENT
    # contents: same array object refreshed in place, scaled in place, a view refreshed through its base.
    mask0 = np.ones(info.N, dtype=bool)
    for i in range(n):
        if info.r[i] == 0.0:
            mask0[info.idx[i]:info.idx[i + 1]] = False     # the second table is not single-valued at the centre

    def comps_of(call, arr):
        rec.reset()
        res = call(arr)
        return res, (np.array([s_[1] for s_ in rec.splines]) if rec.splines else np.zeros((0, n)))

    def hist_check(step, ys, cf_expected, fname, sv=None):
        sv = sscb if sv is None else sv
        ctx.case(("history", key0, step))
        exp = np.zeros((K, n))
        exp[:Kf] = np.asarray(cf_expected).T
        if ys.shape != (K, n) or not finite(ys) or not close_shells(ys, exp, 2 * sv):
            d = shell_excess(ys, exp, 2 * sv) if ys.shape == (K, n) else np.ones((1, 1))
            k, i = np.unravel_index(int(np.argmax(d)), d.shape)
            orep("components_recovered", f"history:{step}", float(ys[k, i]) if ys.shape == (K, n) else str(ys.shape),
                 f"history on one AtomGrid [{step}]: radial component row {k} at shell {i}: value handed to the spline "
                 f"{float(ys[k, i]) if ys.shape == (K, n) else ys.shape!r}, g_lm(r_i) of the CURRENT buffer contents = {float(exp[k, i]) if ys.shape == (K, n) else None!r}",
                 {"history": step, "row": int(k), "shell": int(i)})
        elif fname is not None:
            B.case(f"qrows_close {tol_q} (rad_comps_q {gname} {fname}) {dyll(ys)}", (f"spline_data:history-{step}", cfg, trep))

    try:
        buf = fv.copy()
        _, ys = comps_of(grid.radial_component_splines, buf)
        hist_check("splines(buf)", ys, coef, None, ssc)
        buf[:] = fvb
        _, ys = comps_of(grid.radial_component_splines, buf)
        hist_check("splines(buf); buf[:] = g; splines(buf)", ys, coef_b, f"fb{tag}")
        buf *= 2.0
        it2, ys = comps_of(grid.interpolate, buf)
        hist_check("...; buf *= 2; interpolate(buf)", ys, 2.0 * coef_b, None)
        st2, got2 = call_closure(it2, info.points, (0, False, False))
        if st2 != "ok" or got2.shape != (info.N,) or np.max(np.where(mask0, np.abs(np.nan_to_num(got2, nan=1e30) - 2.0 * fvb), 0.0)) > TOL * 4 * max(scale, maxabs(ys)):
            j = int(np.argmax(np.where(mask0, np.abs(np.nan_to_num(got2, nan=1e30) - 2.0 * fvb), 0.0))) if st2 == "ok" and got2.shape == (info.N,) else 0
            orep("interpolant_at_grid_points", "history:grid_points", float(got2[j]) if st2 == "ok" and got2.shape == (info.N,) else str(got2)[:80],
                 f"history on one AtomGrid [splines(buf); buf[:] = g; splines(buf); buf *= 2; interpolate(buf)]: interpolant at grid point {j} "
                 f"is {float(got2[j]) if st2 == 'ok' and got2.shape == (info.N,) else got2!r}, the buffer holds {float(2.0 * fvb[j])!r} there", {"history": "inplace", "point_index": j})
        it_same, ys = comps_of(grid.interpolate, buf)
        hist_check("...; interpolate(buf) again, unchanged", ys, 2.0 * coef_b, None)
        buf[:] = fv
        ia_h = np.asarray(grid.integrate_angular_coordinates(buf), dtype=float)
        rec.reset()
        grid.spherical_average(buf)
        ya_h = rec.splines[0][1] if len(rec.splines) == 1 else np.zeros(0)
        ctx.case(("history", key0, "average"))
        if not close_shells(ia_h, sq4pi * coef[:, 0], ssc) or not close_shells(ya_h, coef[:, 0] / math.sqrt(4 * math.pi), ssc):
            orep("angular_integral_exact", "history:angular", str(ia_h.tolist())[:100],
                 f"history on one AtomGrid [...; buf[:] = f; integrate_angular_coordinates(buf); spherical_average(buf)]: angular integrals {ia_h.tolist()}, "
                 f"average data {np.asarray(ya_h).tolist()}, exact sqrt(4 pi) g_00 = {(sq4pi * coef[:, 0]).tolist()}", {"history": "inplace-angular"})
        big = np.concatenate([fvb, fv, fvb])
        view = big[info.N:2 * info.N]
        _, ys = comps_of(grid.radial_component_splines, view)
        hist_check("splines(view of a larger buffer)", ys, coef, None, ssc)
        big[info.N:2 * info.N] = fvb
        _, ys = comps_of(grid.radial_component_splines, view)
        hist_check("splines(view); base[...] = g; splines(same view)", ys, coef_b, None)
        _, ys = comps_of(grid.interpolate, big[info.N:2 * info.N])
        hist_check("...; interpolate(new view of the same memory)", ys, coef_b, None)
    except Exception as e:  # noqa: BLE001
        orep("components_recovered", "history:exception", type(e).__name__, f"a repeated call on the same AtomGrid with a refreshed buffer raised {type(e).__name__}: {e}")

    # ---------------------------------------------------------------- spherical_average
    rec.reset()
    try:
        avg = grid.spherical_average(fv.copy())
        ctx.case(("average", key0))
        ya = rec.splines[0][1] if len(rec.splines) == 1 else None
        back = float(np.sum(info.w * 4 * math.pi * info.r ** 2 * np.asarray(avg(info.r), dtype=float)))
        if not close(back, own_int, max(scale, abs(own_int))):
            orep("average_integrates_back", "average", back,
                 f"radial quadrature of 4 pi r^2 f_avg(r) = {back!r}, grid integral = {own_int!r}", {"expected": own_int})
        if ya is None or not np.array_equal(rec.splines[0][0], info.r):
            trep("corr_spline_data", "average_spline", len(rec.splines), "spherical_average does not build exactly one CubicSpline on rgrid.points")
        elif finite(ya):
            if not close_shells(ya, coef[:, 0] / math.sqrt(4 * math.pi), ssc):
                i = int(np.argmax(shell_excess(ya, coef[:, 0] / math.sqrt(4 * math.pi), ssc)))
                orep("angular_integral_exact", "average_data", float(ya[i]),
                     f"spherical_average: value handed to the spline at shell {i} (r={float(info.r[i])}) is {float(ya[i])!r}, g_00(r_i) / sqrt(4 pi) = {float(coef[i, 0] / math.sqrt(4 * math.pi))!r}", {"shell": i})
            B.case(f"qvec_close {tol_q} (sph_avg_q {gname} f{tag}) {dyl(ya)}", ("average_data", cfg, trep))
    except Exception as e:  # noqa: BLE001
        orep("average_integrates_back", "average", type(e).__name__, f"spherical_average raised {type(e).__name__}: {e}")

    # ---------------------------------------------------------------- interpolate
    rec.reset()
    try:
        it = grid.interpolate(fv.copy())
    except Exception as e:  # noqa: BLE001
        orep("interpolant_def", "interpolate", type(e).__name__, f"interpolate raised {type(e).__name__}: {e}")
        return None
    if len(rec.splines) != K:
        orep("interpolant_def", "interpolate_n_splines", len(rec.splines), f"interpolate built {len(rec.splines)} splines, expected {K}", {"expected": K})
        return None
    splines = [s[2] for s in rec.splines]
    ys_it = np.array([s[1] for s in rec.splines])
    spl_scale = max(scale, maxabs(ys_it))

    # at the grid points
    st, got = call_closure(it, info.points, (0, False, False))
    ctx.case(("at_grid_points", key0))
    if st != "ok" or got.shape != (info.N,):
        orep("interpolant_at_grid_points", "grid_points", str(got)[:100], f"interpolant at the grid points: {st} {str(got)[:100]}")
    else:
        mask = np.ones(info.N, dtype=bool)
        if cfg["mode"] == "spherical":
            for i in range(n):
                if info.r[i] == 0.0:
                    mask[info.idx[i]:info.idx[i + 1]] = False     # not a single-valued function at the centre
        # (evaluated through Cartesian points and scipy's piecewise polynomials: the rounding error at a knot is relative to the
        #  neighbouring spline coefficients, so this comparison uses the global size of the data; the per-shell relative checks
        #  are those on the angular integrals and on the arrays handed to the splines)
        d = np.where(mask, np.abs(np.nan_to_num(got, nan=1e30) - fv), 0.0)
        if np.max(d) > TOL * spl_scale:
            j = int(np.argmax(d))
            i = int(np.searchsorted(info.idx, j, side="right") - 1)
            orep("interpolant_at_grid_points", "grid_points", float(got[j]),
                 f"grid point {j} (shell {i}, r={info.r[i]}): interpolant {float(got[j])!r}, function value {float(fv[j])!r}", {"point_index": j, "shell": i, "expected": float(fv[j])})

    # arbitrary points: tie of every mode + definition + derivative self-consistency
    P = eval_points(rng, info, extra=not ctx.quick or tag % 2 == 0)
    M = len(P)
    off = P - info.centre
    try:
        sphP = np.asarray(grid.convert_cartesian_to_spherical(P), dtype=float)
    except Exception as e:  # noqa: BLE001
        trep("corr_assemble", "convert", type(e).__name__, f"convert_cartesian_to_spherical(points) raised {e}")
        return None
    rown = np.linalg.norm(off, axis=1)
    thown, phown = own_angles(np.where(rown[:, None] > 0, off, [0.0, 0.0, 1.0]))
    thown = np.where(rown > 0, thown, 0.0)
    phown = np.where(rown > 0, phown, 0.0)
    pname = f"p{tag}"
    B.defs.append(f"Definition {pname} : list (bigQ * ddata) :=\n  {coq_pts(info.lmax // 2, sphP)}.\n")
    # The model mirrors the zeroed Jacobian columns on the polar axis / at the centre (the listed known finding).  If the
    # implementation no longer shows that behaviour (directed witnesses do not reproduce), those points are left out of the
    # Cartesian-mode correspondence and are covered by the finite-difference oracle instead.
    generic_idx = [j for j in range(M) if point_class(off[j]) == "generic"]
    if not axis_today:
        B.defs.append(f"Definition pg{tag} : list (bigQ * ddata) :=\n  {coq_pts(info.lmax // 2, sphP[generic_idx])}.\n")
    Yp_all = own_Y(info.lmax // 2, thown, phown)
    P_all, sph_all, off_all, rown_all, pname_all = P, sphP, off, rown, pname
    for mode in MODES:
        if mode == (1, False, False) and not axis_today:
            P, sphP, off, rown, pname, Yp = P_all[generic_idx], sph_all[generic_idx], off_all[generic_idx], rown_all[generic_idx], f"pg{tag}", Yp_all[:, generic_idx]
        else:
            P, sphP, off, rown, pname, Yp = P_all, sph_all, off_all, rown_all, pname_all, Yp_all
        M = len(P)
        rec.calls = []
        st, out = call_closure(it, P, mode)
        ctx.case(("mode", key0, mode))
        ctx.count(f"mode=deriv{mode[0]}{'/sph' if mode[1] else ''}{'/radial' if mode[2] else ''}")
        nus = [mode[0], 0] if (not mode[2] and mode[0] == 1) else [mode[0]]
        exp_calls = [(k, nu) for nu in nus for k in range(K)]
        got_calls = [(c[0], c[2]) for c in rec.calls]
        calls_ok = got_calls == exp_calls and all(np.array_equal(c[1], sphP[:, 0]) for c in rec.calls)
        if not calls_ok:
            trep("corr_spline_calls", f"calls:{mode}", str(got_calls[:4]),
                 f"mode (deriv, spherical, radial)={mode}: splines are evaluated as {got_calls[:3]}... at {rec.calls[0][1][:2].tolist() if rec.calls else None}, expected (index, nu) {exp_calls[:3]}... at the radii of the points")
            continue
        if st == "exc" or (st == "ok" and not finite(out)):
            orep("interpolant_def", f"closure:{mode}", str(out)[:100], f"closure(points, deriv={mode[0]}, deriv_spherical={mode[1]}, only_radial_deriv={mode[2]}) gave {st}: {str(out)[:100]}")
            continue
        obs = coq_res(mode, st, out, M)
        if obs is None:
            trep("corr_assemble", f"shape:{mode}", str(getattr(out, 'shape', None)), f"mode {mode}: unexpected result shape {getattr(out, 'shape', None)}")
            continue
        vals = np.array([c[3] for c in rec.calls])            # (len(nus) * K, M)
        rvs = vals[:K].T
        rcs = vals[K:2 * K].T if len(nus) == 2 else rvs
        tolm = dy(float(2.0 ** math.ceil(math.log2(TIE_TOL * max(1.0, maxabs(vals), maxabs(out) if st == "ok" else 0.0)))))
        B.case(f"res_close {tolm} (assemble_q {pname} {dyll(rvs)} {dyll(rcs)} {mode[0]}%nat {bcoq(mode[1])} {bcoq(mode[2])}) ({obs})",
               (f"assemble:{mode}", cfg, trep))
        # ---- the definition: value (or radial derivative) = sum_k spline_k(r, nu) * Y_k(angles), own harmonics / angles
        if st == "ok" and (mode[0] == 0 or mode[2]):
            exp = np.einsum("km,km->m", np.array([s(rown, mode[0]) for s in splines]), Yp)
            if out.shape != (M,) or not close(out, exp, spl_scale * (1 + maxabs(exp)), 1e-9):
                j = int(np.argmax(np.abs(out - exp))) if out.shape == (M,) else 0
                orep("interpolant_def", f"definition:{mode}", float(out[j]) if out.shape == (M,) else str(out.shape),
                     f"point centre+{off[j].tolist()}, deriv={mode[0]}: closure returns {out[j] if out.shape == (M,) else out.shape!r}, sum_k spline_k(r, nu) Y_k(theta, phi) = {float(exp[j])!r}",
                     {"offset": off[j].tolist(), "mode": list(mode), "expected": float(exp[j])})
    derivative_oracle(ctx, cfg, info, it, P_all, off_all, splines, spl_scale, orep, axis_today)
    return {"grid": grid, "info": info}


FD_H = 2.0 ** -9


def fd_pair(fun, base, direction, h):
    """central differences with steps h and h/2 of fun along `direction` at the rows of `base`; third item: a bound for
    the rounding error of the quotients (magnitude of the differenced values)"""
    pts = np.vstack([base + h * direction, base - h * direction, base + 0.5 * h * direction, base - 0.5 * h * direction])
    v = np.asarray(fun(pts), dtype=float)
    m = len(base)
    mag = np.max(np.abs(v.reshape(4, m)), axis=0)
    return (v[:m] - v[m:2 * m]) / (2 * h), (v[2 * m:3 * m] - v[3 * m:]) / h, 1e-12 * mag / h


def fd_disagrees(ret, d1, d2, scale, rnd=0.0):
    """self-validating: the step-halving difference bounds the truncation error of d2 (factor 4 of slack), `rnd` the
    rounding error, plus a small floor; returns the excess (> 0: a disagreement finite differences cannot explain)"""
    return np.abs(ret - d2) - (4.0 * np.abs(d1 - d2) + rnd + 1e-6 * max(1.0, scale))


def derivative_oracle(ctx, cfg, info, it, P, off, splines, scale, orep, axis_today=True):
    """the returned derivatives are derivatives of the returned interpolant (finite differences of the closure itself).
    Centre and polar axis: values and radial derivatives only (the Cartesian / polar-angle derivatives there are the
    listed known finding, re-derived by directed witnesses)."""
    cls = [point_class(o) for o in off]
    rown = np.linalg.norm(off, axis=1)
    h = FD_H
    sel = [j for j in range(len(P)) if cls[j] != "centre" and rown[j] > 4 * h]
    if not sel:
        return
    base = P[sel]
    u = off[sel] / rown[sel][:, None]
    ctx.case(("fd", cfg_key(cfg)), traces=len(sel))

    def f0(x):
        return it(x)

    def fr(nu):
        return lambda x: it(x, deriv=nu, only_radial_deriv=True)

    # --- radial derivatives nu = 1, 2, 3 against differences of nu - 1
    for nu in (1, 2, 3):
        ret = np.asarray(it(base, deriv=nu, only_radial_deriv=True), dtype=float)
        d1, d2, rnd = fd_pair(f0 if nu == 1 else fr(nu - 1), base, u, h)
        ex = fd_disagrees(ret, d1, d2, scale, rnd)
        if nu == 3:   # third derivative is piecewise constant: only strictly inside a spline interval
            inside = np.array([np.min(np.abs(info.r - r)) > 2 * h for r in rown[sel]])
            ex = np.where(inside, ex, -1.0)
        if np.max(ex) > 0:
            j = int(np.argmax(ex))
            orep("derivatives_consistent_radial", f"radial:{nu}", float(ret[j]),
                 f"point centre+{off[sel[j]].tolist()}: closure(deriv={nu}, only_radial_deriv=True) = {float(ret[j])!r}, finite differences of the closure with deriv={nu - 1}: {float(d1[j])!r} (h) / {float(d2[j])!r} (h/2)",
                 {"offset": off[sel[j]].tolist(), "nu": nu, "expected_fd": float(d2[j])})
    # --- spherical and Cartesian first derivatives away from the axis
    gen = [j for j in sel if cls[j] == "generic" or (cls[j] == "axis" and not axis_today)]
    if not gen:
        return
    base = P[gen]
    r = rown[gen]
    th, ph = own_angles(off[gen])

    def sph_pts(rr, tt, pp):
        return info.centre + np.stack([rr * np.sin(pp) * np.cos(tt), rr * np.sin(pp) * np.sin(tt), rr * np.cos(pp)], axis=1)

    out = np.asarray(it(base, deriv=1, deriv_spherical=True), dtype=float)
    m = len(gen)
    if out.shape != (3 * m,):
        orep("derivatives_consistent_spherical", "spherical_shape", str(out.shape), f"closure(deriv=1, deriv_spherical=True) on {m} points has shape {out.shape}")
    else:
        for c, name in enumerate(("r", "theta", "phi")):
            def shifted(s, c=c):
                return np.asarray(it(sph_pts(r + (s if c == 0 else 0), th + (s if c == 1 else 0), ph + (s if c == 2 else 0))), dtype=float)
            v = [shifted(h), shifted(-h), shifted(h / 2), shifted(-h / 2)]
            d1 = (v[0] - v[1]) / (2 * h)
            d2 = (v[2] - v[3]) / h
            ret = out[c * m:(c + 1) * m]
            ex = fd_disagrees(ret, d1, d2, scale, 1e-12 * np.max(np.abs(v), axis=0) / h)
            if np.max(ex) > 0:
                j = int(np.argmax(ex))
                orep("derivatives_consistent_spherical", f"spherical:{name}", float(ret[j]),
                     f"point centre+{off[gen[j]].tolist()}: returned d/d{name} = {float(ret[j])!r}, finite differences of the closure in {name}: {float(d1[j])!r} (h) / {float(d2[j])!r} (h/2)",
                     {"offset": off[gen[j]].tolist(), "component": name, "expected_fd": float(d2[j])})
    out = np.asarray(it(base, deriv=1), dtype=float)
    if out.shape != (m, 3):
        orep("derivatives_consistent_cartesian_partial", "cartesian_shape", str(out.shape), f"closure(deriv=1) on {m} points has shape {out.shape}")
        return
    for c, name in enumerate("xyz"):
        e = np.zeros(3)
        e[c] = 1.0
        d1, d2, rnd = fd_pair(f0, base, e, h)
        ex = fd_disagrees(out[:, c], d1, d2, scale, rnd)
        if np.max(ex) > 0:
            j = int(np.argmax(ex))
            orep("derivatives_consistent_cartesian_partial", f"cartesian:{name}", float(out[j, c]),
                 f"point centre+{off[gen[j]].tolist()}: returned d/d{name} = {float(out[j, c])!r}, finite differences of the closure: {float(d1[j])!r} (h) / {float(d2[j])!r} (h/2)",
                 {"offset": off[gen[j]].tolist(), "component": name, "expected_fd": float(d2[j])})


# ====================================================================== directed witnesses: polar axis and centre
WITNESS_DESC = "AtomGrid(r=[1/4,1/2,1,2,4],w=[1/4,1/4,1/2,1,2],degrees=[7],lebedev,origin).interpolate(c1*(x+y+z))"
WITNESS_CFG = {"r": ["1/4", "1/2", "1", "2", "4"], "w": ["1/4", "1/4", "1/2", "1", "2"], "degrees": [7], "method": "lebedev",
               "center": ["0", "0", "0"], "rotate": 0}


def axis_witnesses(ctx, report):
    """f(x, y, z) = c1 (x + y + z) = r (Y_11 + Y_1-1 + Y_10), c1 = sqrt(3 / 4 pi): band-limited (l = 1), g_1m(r) = r is
    reproduced exactly by the cubic spline, so the interpolant is this linear function and its gradient is (c1, c1, c1)
    everywhere.  Evaluated on the polar axis through the centre and at the centre."""
    cfg = dict(WITNESS_CFG, L=1, mode="function", pseed=0)
    cfg["coef"] = [[0, float(Fraction(r)), float(Fraction(r)), float(Fraction(r))] for r in cfg["r"]]
    grid = build_atgrid(cfg)
    info = GridInfo(cfg, grid)
    fv = info.band_values(cfg["coef"])
    c1 = math.sqrt(3.0 / (4 * math.pi))
    if not close(fv, c1 * info.points.sum(axis=1), 10.0, 1e-12):
        raise RuntimeError("witness: own harmonics do not reproduce the linear function")
    it = grid.interpolate(fv)
    h = FD_H
    out = []
    for name, p in (("+z", [0.0, 0.0, 1.5]), ("-z", [0.0, 0.0, -1.5]), ("centre", [0.0, 0.0, 0.0])):
        P = np.array([p])
        ctx.case(("witness", name))
        st, ret = call_closure(it, P, (1, False, False))
        if st != "ok" or ret.shape != (1, 3):
            report(0, "derivatives_consistent_cartesian", f"{WITNESS_DESC}({p},deriv=1)", str(ret)[:80], f"witness {name}: closure(deriv=1) gave {st} {str(ret)[:80]}",
                   {"kind": "witness", "name": name})
            continue
        g = ret[0]
        fd1, fd2 = [], []
        for c in range(3):
            e = np.zeros(3)
            e[c] = 1.0
            a, b, _ = fd_pair(lambda x: it(x), P, e, h)
            fd1.append(float(a[0]))
            fd2.append(float(b[0]))
        ex = fd_disagrees(g, np.array(fd1), np.array(fd2), 1.0)
        expected = [c1, c1, c1]
        if np.max(ex) > 0 and not close(g, expected, 1.0, 1e-8):
            out.append(name)
            report(0, "derivatives_consistent_cartesian", f"{WITNESS_DESC}({p},deriv=1)", [round(float(x), 9) + 0.0 for x in g],
                   f"interpolant of the linear function c1 (x + y + z) on AtomGrid(r=[1/4,1/2,1,2,4], lebedev degree 7, origin): closure(deriv=1) at "
                   f"{p} ({'the centre' if name == 'centre' else 'polar axis'}) returns {[round(float(x), 9) for x in g]}, the gradient of the returned interpolant "
                   f"(finite differences {[round(x, 7) for x in fd2]}, analytic {round(c1, 9)} each) is not what is returned",
                   {"kind": "witness", "name": name, "point": p, "expected": expected, "fd": fd2})
    # spherical derivative d/dphi on the axis: F(r, theta, phi) = r c1 (sin phi (cos theta + sin theta) + cos phi)
    P = np.array([[0.0, 0.0, 1.5]])
    st, ret = call_closure(it, P, (1, True, False))
    ctx.case(("witness", "sph"))
    if st == "ok" and ret.shape == (3,):
        r = 1.5
        vals = [float(it(np.array([[r * math.sin(s), 0.0, r * math.cos(s)]]))[0]) for s in (h, -h, h / 2, -h / 2)]
        d1, d2 = (vals[0] - vals[1]) / (2 * h), (vals[2] - vals[3]) / h
        if fd_disagrees(np.array([ret[2]]), np.array([d1]), np.array([d2]), 1.0)[0] > 0 and abs(ret[2] - r * c1) > 1e-8:
            out.append("sph")
            report(0, "derivatives_consistent_spherical_axis", f"{WITNESS_DESC}([0.0, 0.0, 1.5],deriv=1,deriv_spherical=True)", [round(float(x), 9) + 0.0 for x in ret],
                   f"same interpolant, closure(deriv=1, deriv_spherical=True) at [0, 0, 1.5] (theta = phi = 0) returns (d/dr, d/dtheta, d/dphi) = "
                   f"{[round(float(x), 9) for x in ret]}; d/dphi of the returned interpolant F(r, theta, phi) at phi = 0 is r c1 = {round(r * c1, 9)} "
                   f"(finite differences {round(d2, 7)})",
                   {"kind": "witness", "name": "sph", "point": [0.0, 0.0, 1.5], "expected": [c1, 0.0, r * c1], "fd_dphi": d2})
    return out


# ====================================================================== molecular grid
def check_mol(ctx, spec, rec, B: Bucket, report, tag, axis_today=True):
    import random

    from grid.molgrid import MolGrid

    rng = random.Random(spec["pseed"])
    key0 = "mol:" + json.dumps(spec, separators=(",", ":"), sort_keys=True)
    rp0 = {"kind": "mol", "spec": spec}
    atoms = []
    for cfg in spec["atoms"]:
        g = build_atgrid(cfg)
        atoms.append((cfg, g, GridInfo(cfg, g)))
    sizes = [a[2].N for a in atoms]
    tot = sum(sizes)
    size = tot
    aim = np.array([rng.choice([0.25, 0.5, 0.75, 1.0, 1.25]) for _ in range(tot)])
    f = np.array([rng.randint(-8, 8) / 4.0 for _ in range(tot)])
    failed = [False]

    def orep(what, observed, text, extra=None):
        failed[0] = True
        report(size, "mol_is_sum_of_atoms", f"{what}:{key0}", observed, text, dict(rp0, what=what, **(extra or {})))

    def trep(obl, what, observed, text):
        report(size, obl, f"{what}:{key0}", observed, text + " (model and implementation disagree)", dict(rp0, what=what), found=None, dep=failed)

    try:
        if spec.get("aim_form") == "callable":
            def aim_arg(points, atcoords, atnums, indices):
                return aim.copy()
        else:
            aim_arg = aim.copy()
        mol = MolGrid(np.array([1] * len(atoms)), [a[1] for a in atoms], aim_arg, store=True)
        if not np.array_equal(np.asarray(mol.aim_weights, dtype=float), aim):
            orep("mol_aim_weights", str(np.asarray(mol.aim_weights).ravel()[:3].tolist()), "MolGrid.aim_weights differ from the weights it was constructed with")
        # the atomic interpolants of w_A f, built independently of MolGrid.interpolate
        bounds = np.concatenate([[0], np.cumsum(sizes)]).astype(int)
        singles = [a[1].interpolate((f * aim)[bounds[i]:bounds[i + 1]]) for i, a in enumerate(atoms)]
        rec.reset()
        mit = mol.interpolate(f.copy())
    except Exception as e:  # noqa: BLE001
        orep("mol_interpolate", type(e).__name__, f"MolGrid.interpolate raised {type(e).__name__}: {e}")
        return
    ctx.count(f"mol_atoms={len(atoms)}")
    ctx.count(f"mol_aim={spec.get('aim_form', 'array')}")
    Ks = [a[2].K for a in atoms]
    if len(rec.splines) != sum(Ks):
        orep("mol_n_splines", len(rec.splines), f"MolGrid.interpolate built {len(rec.splines)} splines, expected {sum(Ks)}")
        return
    kb = np.concatenate([[0], np.cumsum(Ks)]).astype(int)
    scale = max(1.0, maxabs(f * aim))
    tol_q = dy(float(2.0 ** math.ceil(math.log2(TIE_TOL * scale))))
    for i, (cfg, g, info) in enumerate(atoms):
        gname = f"m{tag}g{i}"
        B.defs.append(info.coq_grid(gname))
        fa, aa = f[bounds[i]:bounds[i + 1]], aim[bounds[i]:bounds[i + 1]]
        B.defs.append(f"Definition m{tag}f{i} := {info.coq_fvals(fa)}.\nDefinition m{tag}a{i} := {info.coq_fvals(aa)}.\n")
        ys = np.array([s[1] for s in rec.splines[kb[i]:kb[i + 1]]])
        if finite(ys):
            B.case(f"qrows_close {tol_q} (rad_comps_q {gname} (weighted_q m{tag}f{i} m{tag}a{i})) {dyll(ys)}", (f"mol_spline_data:{i}", spec, trep))
        ctx.case(("mol_data", key0, i))
    c0 = atoms[0][2].centre
    offs = [[0.0, 0.0, 0.0], [0.0, 0.0, 0.75], [0.5, -0.25, 1.0]] + [[rng.randint(-16, 16) / 8.0 for _ in range(3)] for _ in range(3)]
    P = np.array(offs) + c0
    P = np.vstack([P, atoms[-1][2].centre[None, :], atoms[-1][2].points[-1:]])
    sphs_all = [np.asarray(a[1].convert_cartesian_to_spherical(P), dtype=float) for a in atoms]
    for i, a in enumerate(atoms):
        B.defs.append(f"Definition m{tag}p{i} : list (bigQ * ddata) :=\n  {coq_pts(a[2].lmax // 2, sphs_all[i])}.\n")
    gen_idx = [j for j in range(len(P)) if all(point_class(P[j] - a[2].centre) == "generic" for a in atoms)]
    if not axis_today:   # see check_atom: points on some atom's polar axis leave the Cartesian-mode correspondence
        for i, a in enumerate(atoms):
            B.defs.append(f"Definition m{tag}q{i} : list (bigQ * ddata) :=\n  {coq_pts(a[2].lmax // 2, sphs_all[i][gen_idx])}.\n")
    P_all = P
    for mode in [(0, False, False), (1, False, False), (1, True, False), (1, False, True), (2, False, True), (2, False, False)]:
        sub = mode == (1, False, False) and not axis_today
        P = P_all[gen_idx] if sub else P_all
        sphs = [x[gen_idx] for x in sphs_all] if sub else sphs_all
        pq = "q" if sub else "p"
        M = len(P)
        rec.calls = []
        st, out = call_closure(mit, P.copy(), mode, mol=True)
        calls = list(rec.calls)
        ctx.case(("mol_mode", key0, mode))
        nus = [mode[0], 0] if (not mode[2] and mode[0] == 1) else [mode[0]]
        # the sum of the separately built atomic closures
        exp_parts = [call_closure(s, P.copy(), mode) for s in singles]
        if all(e[0] == "ok" for e in exp_parts):
            exp = sum(e[1] for e in exp_parts)
            if st != "ok" or not close(out, exp, scale * (1 + maxabs(exp)), 1e-9):
                orep(f"mol_sum:{mode}", str(np.asarray(out).ravel()[:3].tolist()) if st == "ok" else st,
                     f"mode (deriv, spherical, radial)={mode}: MolGrid.interpolate(f)(points) = {np.asarray(out).ravel()[:3].tolist() if st == 'ok' else out}, "
                     f"sum of the atomic interpolants of aim_weights * f = {exp.ravel()[:3].tolist()}", {"mode": list(mode)})
        elif st == "ok":
            orep(f"mol_sum:{mode}", "ok", f"mode {mode}: the molecular closure returns values although an atomic closure raises {exp_parts[0][1]}", {"mode": list(mode)})
        if st == "valueerror":
            # the first atom raises before any further spline is evaluated
            B.case("res_close (dq 0 0) (mol_combine_q [Err]) Err", (f"mol_assemble:{mode}", spec, trep))
            continue
        exp_calls = [(int(kb[i]) + k, nu) for i in range(len(atoms)) for nu in nus for k in range(Ks[i])]
        if [(c[0], c[2]) for c in calls] != exp_calls:
            trep("corr_spline_calls", f"mol_calls:{mode}", str([(c[0], c[2]) for c in calls][:4]), f"mode {mode}: unexpected sequence of spline evaluations")
            continue
        obs = coq_res(mode, st, out, M) if st == "ok" and finite(out) else None
        if obs is None:
            trep("corr_assemble", f"mol_shape:{mode}", str(getattr(out, "shape", out)), f"mode {mode}: unexpected result {st} {getattr(out, 'shape', out)}")
            continue
        parts, pos, big = [], 0, 1.0
        for i in range(len(atoms)):
            blk = np.array([c[3] for c in calls[pos:pos + len(nus) * Ks[i]]])
            pos += len(nus) * Ks[i]
            rvs = blk[:Ks[i]].T
            rcs = blk[Ks[i]:].T if len(nus) == 2 else rvs
            big = max(big, maxabs(blk))
            if not all(np.array_equal(c[1], sphs[i][:, 0]) for c in calls[pos - len(nus) * Ks[i]:pos]):
                trep("corr_spline_calls", f"mol_radii:{mode}", i, f"mode {mode}: atom {i} splines are not evaluated at the distances to its own centre")
            parts.append(f"assemble_q m{tag}{pq}{i} {dyll(rvs)} {dyll(rcs)} {mode[0]}%nat {bcoq(mode[1])} {bcoq(mode[2])}")
        tolm = dy(float(2.0 ** math.ceil(math.log2(TIE_TOL * len(atoms) * max(big, maxabs(out))))))
        B.case(f"res_close {tolm} (mol_combine_q [" + "; ".join(parts) + f"]) ({obs})", (f"mol_assemble:{mode}", spec, trep))


# ====================================================================== large point sets in one call
def batch_oracle(ctx, spec, report):
    """The closure is vectorised over evaluation points: the result for a large array of points must be, entry by entry and
    in the documented layout (values (M,), Cartesian rows (M, 3), hstack of the three spherical derivative arrays (3M,)),
    what it returns for the same points handed over in small batches (which the finite-difference / definition oracles of
    check_atom cover).  spec: {"cfg", "M", "full"}."""
    cfg, M = spec["cfg"], int(spec["M"])
    key0 = "batch:" + json.dumps({"M": M, "cfg": cfg}, separators=(",", ":"), sort_keys=True)
    rp0 = {"kind": "batch", "spec": spec}
    grid = build_atgrid(cfg)
    info = GridInfo(cfg, grid)
    fv = info.band_values(cfg["coef"])
    it = grid.interpolate(fv.copy())
    rs = np.random.RandomState(cfg["pseed"] % (2 ** 31))
    P = info.centre + rs.uniform(-1.25, 1.25, size=(M, 3)) * float(info.r[-1])
    P[:3] = info.centre + np.array([[0.0, 0.0, 0.0], [0.0, 0.0, 0.5], [0.25, 0.0, 0.0]])
    if spec.get("full"):
        sample = np.arange(M)
    else:
        sample = np.unique(np.concatenate([np.arange(min(M, 1500)), np.arange(max(0, M - 1500), M), rs.choice(M, size=min(M, max(2000, M // 12)), replace=False)]))
    ctx.count(f"batch_points={M}")
    for mode in [(0, False, False), (1, True, False), (1, False, True), (2, False, True), (1, False, False)]:
        ctx.case(("batch", key0, mode))
        st, out = call_closure(it, P.copy(), mode)
        # reference: the same points in batches of 997
        ref = []
        ok_ref = True
        for a in range(0, len(sample), 997):
            s1, o1 = call_closure(it, P[sample[a:a + 997]].copy(), mode)
            if s1 != "ok":
                ok_ref = False
                break
            ref.append(o1)
        what = f"batch:{mode}"
        if st != "ok" or not ok_ref:
            report(M, "closure_modes", f"{what}:{key0}", str(out)[:100], f"closure on {M} points, mode (deriv, spherical, radial)={mode}: {st} {str(out)[:100]}", dict(rp0, what=what))
            continue
        m = len(sample)
        if mode == (1, True, False):
            shape_ok = out.shape == (3 * M,)
            big_parts = [out[c * M:(c + 1) * M][sample] for c in range(3)] if shape_ok else None
            ref_parts = [np.concatenate([o.reshape(3, -1)[c] for o in ref]) for c in range(3)]
        elif mode == (1, False, False):
            shape_ok = out.shape == (M, 3)
            big_parts = [out[sample, c] for c in range(3)] if shape_ok else None
            ref_parts = [np.concatenate([o[:, c] for o in ref]) for c in range(3)]
        else:
            shape_ok = out.shape == (M,)
            big_parts = [out[sample]] if shape_ok else None
            ref_parts = [np.concatenate(ref)]
        if not shape_ok:
            report(M, "closure_modes", f"{what}:{key0}", str(out.shape), f"closure on {M} points, mode {mode}: result has shape {out.shape}", dict(rp0, what=what))
            continue
        for c, (a, b) in enumerate(zip(big_parts, ref_parts)):
            fin = np.isfinite(b)
            sc = max(1.0, maxabs(b[fin])) if np.any(fin) else 1.0
            d = np.where(fin, np.abs(np.nan_to_num(a, nan=1e30) - np.nan_to_num(b)), 0.0)
            if len(a) != m or np.max(d) > 1e-9 * sc:
                j = int(np.argmax(d))
                comp = (("d/dr", "d/dtheta", "d/dphi") if mode[1] else ("d/dx", "d/dy", "d/dz"))[c] if mode[0] == 1 and not mode[2] else f"deriv={mode[0]}"
                report(M, "closure_modes" if mode != (1, True, False) else "derivatives_consistent_spherical", f"{what}:{key0}", float(a[j]),
                       f"one call with {M} points, mode (deriv, spherical, radial)={mode}: the entry for point {int(sample[j])} ({comp}) is {float(a[j])!r}; "
                       f"the closure returns {float(b[j])!r} for the same point when it is evaluated in a batch of 997 points",
                       dict(rp0, what=what, point_index=int(sample[j]), component=c, expected=float(b[j])))
                break


# ====================================================================== run
def plan(ctx: Ctx):
    rng = ctx.rng
    cfgs = []
    if ctx.quick:
        combos = [("lebedev", "uniform"), ("lebedev", "mixed"), ("lebedev", "mixed"), ("spherical", "uniform"),
                  ("spherical", "mixed"), ("maxdet", "uniform"), ("maxdet", "mixed"), ("lebedev", "uniform"),
                  ("lebedev", "alias-first"), ("lebedev", rng.choice(["alias-last", "alias-other"])),
                  (rng.choice(["spherical", "maxdet"]), rng.choice(["alias-first", "alias-last", "alias-other"]))]
    else:
        combos = [(m, k) for m in ("lebedev", "spherical", "maxdet") for k in ("uniform", "mixed")] * 20 + [("ahrens_beylkin", "uniform"), ("ahrens_beylkin", "mixed")] * 2 \
            + [(m, k) for m in ("lebedev", "spherical", "maxdet") for k in ("alias-first", "alias-last", "alias-other")] * 4
    for j, (m, k) in enumerate(combos):
        # every run has a rotated grid with a node at r = 0 (canonical angles) and a rotated grid whose innermost radius is
        # tiny but non-zero (regenerated weights, but the angles of the actual points)
        forced = {0: ("zero", True), 1: ("tiny", True)}.get(j % 8 if not ctx.quick else j, (None, False))
        # every run has functions decaying / growing by many orders of magnitude across the shells
        decay = {2: "out", 3: "in", 4: "out"}.get(j % 8 if not ctx.quick else j)
        cfgs.append(make_config(rng, m, k, lead=forced[0], rotated=forced[1], decay=decay))
    mols = []
    # molecules with ONE, two and three centres (the sum over atoms has a single term for a lone atom, whose aim weights
    # need not be one: e.g. one fragment of a larger partition), aim weights given as an array or as a callable
    natoms = [1, rng.choice([2, 3])] if ctx.quick else [1, 1, 2, 2, 3, 1, 2, 3, 2, 3, 1, 2]
    for na in natoms:
        atoms = []
        for _ in range(na):
            c = make_config(rng, rng.choice(["lebedev", "spherical"]), rng.choice(["uniform", "mixed"]))
            # small shells keep the molecular case cheap; distinct centres
            c["r"], c["w"], c["coef"] = c["r"][:4], c["w"][:4], c["coef"][:4]
            if len(c["degrees"]) > 1:
                c["degrees"] = c["degrees"][:4]
            c["center"] = [str(Fraction(rng.randint(-12, 12), 4)) for _ in range(3)]
            atoms.append(c)
        mols.append({"atoms": atoms, "aim_form": rng.choice(["array", "array", "callable"]), "pseed": rng.randrange(2 ** 30)})
    batches = []
    shapes = [(15, 80000, False)] if ctx.quick else [(15, 80000, True), (7, 300000, False), (31, 24000, False), (11, 150000, False)]
    for deg, M, full in shapes:
        c = make_config(rng, "lebedev", "uniform", lead=rng.choice(["zero", "none"]))
        c["degrees"] = [deg]
        batches.append({"cfg": c, "M": M, "full": full})
    return cfgs, mols, batches


def run(ctx: Ctx):
    consts = gen(ctx)
    ctx.copy_coq("C09")
    status = ctx.coq_build()
    ctx.register_props(status)
    for f in ("C09_gen.v", "C09_model.v", "C09_model_exec.v"):
        if not status.get(f, False):
            raise RuntimeError(f"{f} does not compile: " + ctx.logs.get(f, "")[-500:])

    pending = []

    def report(size, obligation, key, observed, text, replay, found=True, dep=None):
        pending.append((size, obligation, key, observed, text, replay, found, dep))

    for pb in consts.pop("problems"):
        report(0, "gen_source_pattern", "gen:" + pb.split(":")[0], None,
               f"source pattern the model depends on is no longer recognised ({pb}); the model keeps the previous constant", {}, found=False)

    rec = Recorder()
    ag, old = install_recorder(rec)
    buckets = []
    try:
        validate_spline_hypotheses(ctx, ctx.rng, report)
        cfgs, mols, batches = plan(ctx)
        reproduced = axis_witnesses(ctx, report)
        ctx.cov["axis_witnesses_reproduced"] = reproduced
        axis_today = "+z" in reproduced or "centre" in reproduced
        def guarded(kind, payload_key, payload, fn):
            """an exception of the implementation inside a case is a failure of that case with its concrete input"""
            try:
                fn()
            except Exception as e:  # noqa: BLE001
                import traceback

                report(0, "case_raises", f"exception:{kind}:" + json.dumps(payload, separators=(",", ":"), sort_keys=True, default=str), type(e).__name__,
                       f"{kind} case raised {type(e).__name__}: {e}", {"kind": kind, payload_key: payload, "what": "exception", "traceback": traceback.format_exc()[-1500:]})

        for t, cfg in enumerate(cfgs):
            B = Bucket(f"C09_case_{t}.v")
            guarded("atom", "cfg", cfg, lambda: check_atom(ctx, cfg, rec, B, report, t, axis_today))
            buckets.append(B)
            if t < 4:
                ctx.sample({"r": cfg["r"], "w": cfg["w"], "degrees": cfg["degrees"], "method": cfg["method"], "center": cfg["center"],
                            "rotate": cfg["rotate"], "L": cfg["L"], "coef_shell0": cfg["coef"][0], "mode": cfg["mode"]})
        for t, spec in enumerate(mols):
            B = Bucket(f"C09_mol_{t}.v")
            guarded("mol", "spec", spec, lambda: check_mol(ctx, spec, rec, B, report, t, axis_today))
            buckets.append(B)
        for bspec in batches:
            guarded("batch", "spec", bspec, lambda: batch_oracle(ctx, bspec, report))
    finally:
        ag.CubicSpline = old

    files = {B.name: (EXEC_HEADER + "\n".join(B.defs), B.cases) for B in buckets if B.cases}
    metas = {B.name: B.metas for B in buckets}
    ctx.cov["coq_cases"] = sum(len(B.cases) for B in buckets)
    for kind, cfg, trep in run_bool_files(ctx, files, metas):
        trep("corr_" + kind.split(":")[0], "tie:" + kind, None, f"tolerance correspondence `{kind}` fails")

    # ---- report: smallest inputs first, capped per obligation; a tie failure of a case whose property oracle already
    #      failed is implied by that failure and not reported separately
    #      A hypothesis / tie / source-pattern failure without an input of its own is reported through Ctx.broken_tie with the
    #      property failures found on the implementation as candidates (same configuration first), so that it carries a
    #      replay whenever one exists.
    per = {}
    ordered = sorted(pending, key=lambda t: (t[0], len(str(t[2]))))
    cands = [(key, obs, text, rp) for size, ob, key, obs, text, rp, found, dep in ordered if dep is None and found]

    def same_input(a, b):
        return (a.get("cfg") is not None and a.get("cfg") == b.get("cfg")) or (a.get("spec") is not None and a.get("spec") == b.get("spec"))

    for size, ob, key, obs, text, rp, found, dep in ordered:
        if dep is not None:
            if dep[0]:
                continue
            found = False
        if found and ctx.is_known(key, obs):
            ctx.fail(ob, key, obs, text, rp, found_input=True)      # a listed finding never uses up the quota of its kind
            continue
        cls_key = f"{ob}|{str((rp or {}).get('what', '')).split(':')[0]}"
        per[cls_key] = per.get(cls_key, 0) + 1
        if per[cls_key] > MAXREP:
            continue
        if found:
            ctx.fail(ob, key, obs, text, rp, found_input=True)
        else:
            mine = [c for c in cands if same_input(c[3], rp or {})] + [c for c in cands if not same_input(c[3], rp or {})]
            ctx.broken_tie(ob, f"{text} [{key}]", mine)
    if pending:
        ctx.notes.append(f"{len(pending)} disagreements in total; at most {MAXREP} reported per obligation: " + json.dumps(per))

    ctx.cov["rule"] = ("atomic grids on dyadic radial nodes (subset of {1/8..4}, optionally preceded by r = 0 and / or r = 2^-30 < 1e-8), dyadic radial "
                       "weights, uniform or mixed per-shell degrees (lebedev, spherical t-design, maxdet incl. even degrees; thorough also ahrens_beylkin) and "
                       "size-aliasing mixed sequences computed from each method's size table (sum of shell sizes = n_shells x size of the first / last / "
                       "another shell, e.g. Lebedev [9, 7, 11]), "
                       "three centres, rotation seeds {0, 1, 7, 2023}; f = sum_{l <= L} g_lm(r_i) Y_lm with integer tables g in [-3, 3], L <= min(3, min d_i / 2), "
                       "either single-valued at the centre or defined through the canonical angles there; in at least three grids per run (and a fifth of the others) "
                       "the rows are scaled by 2^(-9..-17 per shell), decaying or growing outwards, and every per-shell result (angular integral, spline nodes, "
                       "value at the shell's grid points) is checked relative to the size of the function on that shell; a second table exercises the cached basis and the "
                       "stacked (2, N) input; 14-16 evaluation points per grid (centre, both polar half-axes, coordinate planes, beyond the last shell, grid "
                       "points, random dyadic) x 8 call modes; molecular grids with 1, 2 and 3 centres (a one-centre molecule in every run), random dyadic aim weights "
                       "(not identically one) passed as an array or as a callable, arbitrary (not band-limited) function values, 6 call modes; per grid a history on "
                       "the same object (one value buffer refreshed / scaled in place between radial_component_splines / interpolate / spherical_average calls, "
                       "views refreshed through their base); one call with 8e4 .. 3e5 evaluation points per run compared entry by entry, in all layouts, with "
                       "the same points in batches of 997; distinct = (grid, routine / mode); every observed array is compared inside Coq with the model at "
                       "exact rationals and, independently, with the property's own oracle")
    ctx.cov["constants_from_source"] = consts
    ctx.cov["atomic_grids"] = len(cfgs)
    ctx.cov["molecular_grids"] = len(mols)
    ctx.trusted += [
        "hand model coq/C09/C09_model.v, tied on every run by tolerance correspondence (1e-9 relative to the data) evaluated at exact rationals",
        "oracle Y / dYt / dYp: rows of generate_real_spherical_harmonics / generate_derivative_real_spherical_harmonics (property C08); validated on every grid "
        "against an independent SciPy-based definition (1e-11) and, for the derivative rows, implicitly by the finite-difference oracle away from the poles",
        "hypothesis `ortho`: sum_a w_a Y_k(a) Y_k'(a) = delta for l, l' <= d_i / 2 on every shell (property C02 for the product degree); validated on every shell (1e-9)",
        "hypothesis `forall d, Y 0 d = / sqrt (4 * PI)`; validated (1e-14)",
        "oracle spl = scipy.interpolate.CubicSpline: spl_knots, spl_linear, spl_deriv validated on random data (knots 1e-12, linearity 1e-9, derivative by "
        "self-validating finite differences); everything between the knots depends on it",
        "convert_cart_to_sph (property C08) supplies the spherical coordinates of evaluation points; the radii at which splines are evaluated are checked against it",
        "ast extraction of the thresholds 1e-8 / 1e-10, of 4.0 * np.pi and of `self.l_max // 2` (fail closed)",
        "finite-difference oracle: central differences with steps 2^-9 and 2^-10; a disagreement is reported only if it exceeds 4 x the step-halving difference + 1e-6 x scale",
    ]
    ctx.assumptions += ["exact arithmetic in the theorems (R); floating-point rounding is covered by the tolerances of the correspondence",
                        "radial weights are non-zero; radial nodes are distinct (CubicSpline requires it)"]


# ====================================================================== replay
class _FakeCtx:
    quick = True

    def __init__(self):
        self.cov = {}

    def case(self, *a, **k):
        pass

    def count(self, *a, **k):
        pass


def replay(rp):
    print(json.dumps({k: v for k, v in rp.items() if k not in ("traceback", "coq_log_tail")}, indent=1, default=str)[:3500])
    kind = rp.get("kind")
    if kind not in ("atom", "mol", "witness", "batch"):
        print("reproduce:", rp.get("reproduce", "(see text)"))
        return 0
    got = []

    def report(size, obligation, key, observed, text, replay, found=True, dep=None):
        if dep is None and found:
            got.append((obligation, observed, text))

    rec = Recorder()
    ag, old = install_recorder(rec)
    try:
        ctx = _FakeCtx()
        if kind == "atom":
            check_atom(ctx, rp["cfg"], rec, Bucket("replay"), report, 0)
        elif kind == "mol":
            check_mol(ctx, rp["spec"], rec, Bucket("replay"), report, 0)
        elif kind == "batch":
            batch_oracle(ctx, rp["spec"], report)
        else:
            axis_witnesses(ctx, report)
    except Exception as e:  # noqa: BLE001
        got.append(("case_raises", type(e).__name__, f"the case raises {type(e).__name__}: {e}"))
    finally:
        ag.CubicSpline = old
    for ob, obs, text in got:
        print(f"REPRODUCED [{ob}] observed={obs}: {text}")
    if not got:
        print("the property oracle finds no failure on this input now")
    return 1 if got else 0
