"""C12 — degree/size requests resolve to the smallest supported angular grid not below.

gen:   the four NPOINTS / DEGREES tables are re-extracted from src/grid/angular.py (ast, evaluated in a
       closed namespace: dict literals, one dict comprehension over range, dict([(v,k) for k,v in X.items()]))
       and the data directory listing with npz array lengths.
prove: coq/C12/*.v against the generated tables.
tie:   exhaustive correspondence of the hand model `resolve` with AngularGrid._get_degree_and_size for every
       degree/size 0..max+50, run-length encoded, checked point by point by vm_compute; constructed grids.
"""
from __future__ import annotations

import ast
import warnings

import numpy as np

from vlib.core import SRC, Ctx, src_sha, z

METHODS = [
    ("lebedev", "LEBEDEV", "Lebedev", "lebedev"),
    ("spherical", "SPHERICAL", "Spherical", "spherical_design"),
    ("maxdet", "MAX_DET", "Maxdet", "maxdet"),
    ("ahrens_beylkin", "AHRENS_BEYLKIN", "AhrensBeylkin", "ahrens_beylkin"),
]


def extract_tables(ctx: Ctx):
    """Evaluate the eight table assignments of angular.py in a closed namespace (fail closed)."""
    src = (SRC / "angular.py").read_text()
    tree = ast.parse(src)
    wanted = [f"{p}_NPOINTS" for _, p, _, _ in METHODS] + [f"{p}_DEGREES" for _, p, _, _ in METHODS]
    ns: dict = {}
    units = []
    allowed_calls = {"dict", "range"}
    for node in tree.body:
        if isinstance(node, ast.Assign) and len(node.targets) == 1 and isinstance(node.targets[0], ast.Name):
            name = node.targets[0].id
            if name not in wanted:
                continue
            for sub in ast.walk(node.value):
                if isinstance(sub, ast.Call):
                    f = sub.func
                    ok = (isinstance(f, ast.Name) and f.id in allowed_calls) or (
                        isinstance(f, ast.Attribute) and f.attr == "items" and isinstance(f.value, ast.Name)
                    )
                    if not ok:
                        raise ValueError(f"unsupported call in table {name}")
                elif isinstance(sub, (ast.Attribute,)) and not (sub.attr == "items"):
                    raise ValueError(f"unsupported attribute in table {name}")
                elif isinstance(sub, (ast.Lambda, ast.Await, ast.Yield, ast.NamedExpr, ast.Subscript)):
                    raise ValueError(f"unsupported construct in table {name}")
            code = compile(ast.Expression(node.value), "angular.py", "eval")
            env = {"__builtins__": {}, "dict": dict, "range": range}
            env.update(ns)
            ns[name] = eval(code, env)  # noqa: S307 - closed namespace, literal tables only
            seg = ast.get_source_segment(src, node)
            units.append({"unit": name, "file": "src/grid/angular.py", "lines": [node.lineno, node.end_lineno], "sha": src_sha(seg)})
    missing = [w for w in wanted if w not in ns]
    if missing:
        raise ValueError(f"tables not found in angular.py: {missing}")
    for k, v in ns.items():
        if not isinstance(v, dict) or not all(isinstance(a, int) and isinstance(b, int) for a, b in v.items()):
            raise ValueError(f"table {k} is not an int->int dict")
    return ns, units


def list_files(ctx: Ctx):
    out = {}
    for meth, _, _, d in METHODS:
        rows = []
        for f in sorted((SRC / "data" / d).glob("*.npz")):
            parts = f.stem.split("_")
            try:
                deg, size = int(parts[-2]), int(parts[-1])
                prefix = "_".join(parts[:-2])
            except Exception:
                deg, size, prefix = -1, -1, f.stem
            if prefix != meth:
                deg, size = -1, -1
            with np.load(f) as data:
                npts = len(data["points"]) if "points" in data else -1
                nw = len(data["weights"]) if "weights" in data else -1
                ok3 = "points" in data and data["points"].ndim == 2 and data["points"].shape[1] == 3
            rows.append((deg, size, npts if ok3 else -2, nw))
        out[meth] = rows
    return out


def gen(ctx: Ctx):
    tabs, units = extract_tables(ctx)
    files = list_files(ctx)
    L = ["(* generated from /repo/src/grid/angular.py and the data directory on every run; do not edit *)",
         "From Coq Require Import ZArith List.", "Import ListNotations.", "Open Scope Z_scope."]
    for meth, P, _, _ in METHODS:
        for kind in ("NPOINTS", "DEGREES"):
            t = tabs[f"{P}_{kind}"]
            L.append(f"Definition {P.lower()}_{kind.lower()} : list (Z * Z) := [" + "; ".join(f"({a}, {b})" for a, b in t.items()) + "].")
        L.append(f"Definition files_{meth} : list (Z * Z * Z * Z) := [" + "; ".join(f"({z(a)}, {z(b)}, {z(c)}, {z(d)})" for a, b, c, d in files[meth]) + "].")
    ctx.gen("C12_gen.v", "\n".join(L) + "\n", units)
    return tabs, files


def impl_resolve(meth, degree=None, size=None):
    from grid.angular import AngularGrid

    with warnings.catch_warnings():
        warnings.simplefilter("ignore")
        try:
            d, s = AngularGrid._get_degree_and_size(degree=degree, size=size, method=meth)
            return (int(d), int(s))
        except ValueError:
            return None
        except Exception as e:  # crash
            return ("crash", type(e).__name__)


def rle(seq):
    runs = []
    for x, v in seq:
        if runs and runs[-1][2] == v and runs[-1][1] == x - 1:
            runs[-1][1] = x
        else:
            runs.append([x, x, v])
    return runs


def run(ctx: Ctx):
    import importlib

    import grid.angular as ga

    importlib.reload(ga)
    tabs, files = gen(ctx)
    # translation validation of the table extraction against the imported module
    for meth, P, _, _ in METHODS:
        for kind in ("NPOINTS", "DEGREES"):
            rt = getattr(ga, f"{P}_{kind}")
            if list(rt.items()) != list(tabs[f"{P}_{kind}"].items()):
                ctx.fail("gen_tables", f"table:{P}_{kind}", None, f"extracted table {P}_{kind} differs from the imported module's", found_input=False)
    ctx.copy_coq("C12")
    status = ctx.coq_build()
    ctx.register_props(status)

    # ---------------- exhaustive correspondence of resolve with the implementation
    hdr = ("From Coq Require Import ZArith List Bool.\nFrom VLib Require Import Tables.\n"
           "From P Require Import C12_gen C12_proofs.\nImport ListNotations.\nOpen Scope Z_scope.\n"
           "Definition oeq (a b : option (Z*Z)) : bool := match a, b with Some (x,y), Some (u,v) => (x =? u) && (y =? v) "
           "| None, None => true | _, _ => false end.\n"
           "Definition chk (f : Z -> option (Z*Z)) (lo : Z) (n : nat) (e : option (Z*Z)) : bool := forallb (fun x => oeq (f x) e) (zrange lo n).\n")
    cases, meta = [], []
    total = 0
    for meth, P, ctor, _ in METHODS:
        for kind in ("degree", "size"):
            t = tabs[f"{P}_DEGREES"] if kind == "degree" else tabs[f"{P}_NPOINTS"]
            hi = max(t) + 50
            seq = []
            for x in range(-3, hi + 1):
                r = impl_resolve(meth, degree=x) if kind == "degree" else impl_resolve(meth, size=x)
                if isinstance(r, tuple) and r and r[0] == "crash":
                    ctx.fail("corr_resolve", f"resolve:{meth}:{kind}:{x}", r[1], f"_get_degree_and_size({kind}={x}, {meth}) crashed with {r[1]}",
                             {"reproduce": f"AngularGrid._get_degree_and_size({kind}={x}, method='{meth}')"})
                    r = None
                seq.append((x, r))
                total += 1
            # numpy integer requests take the same path
            for x in ctx.rng.sample(range(0, hi), 25):
                r1 = impl_resolve(meth, degree=np.int64(x)) if kind == "degree" else impl_resolve(meth, size=np.int64(x))
                r0 = dict(seq)[x]
                if r1 != r0:
                    ctx.fail("corr_resolve", f"resolve-npint:{meth}:{kind}:{x}", str(r1), f"np.int64 request {kind}={x} gives {r1}, python int gives {r0}")
            for lo, hi_, v in rle(seq):
                e = f"Some ({z(v[0])}, {z(v[1])})" if v else "None"
                f = f"resolve_{kind} {ctor}"
                cases.append(f"chk ({f}) {z(lo)} {hi_ - lo + 1}%nat ({e})")
                meta.append((meth, kind, lo, hi_, v))
                ctx.case((meth, kind, lo, hi_), traces=hi_ - lo + 1)
            ctx.count(f"{meth}:{kind}:requests", len(seq))
    bad = ctx.coq_bool_cases("C12_cases", hdr, cases)
    for i in bad:
        meth, kind, lo, hi_, v = meta[i]
        # search a concrete failing input for the PROPERTY on the implementation
        t = tabs[[P for m, P, _, _ in METHODS if m == meth][0] + ("_DEGREES" if kind == "degree" else "_NPOINTS")]
        ks = sorted(t)
        found = None
        for x in range(lo, hi_ + 1):
            exp = None
            if 0 <= x <= ks[-1]:
                k = min(k for k in ks if k >= x)
                exp = (k, t[k]) if kind == "degree" else (t[k], k)
            if exp != v:
                found = (x, exp)
                break
        if found:
            x, exp = found
            ctx.fail("corr_resolve", f"resolve:{meth}:{kind}:{x}", str(v),
                     f"{meth} {kind}={x}: implementation resolves to {v}, least supported not below is {exp}",
                     {"reproduce": f"AngularGrid._get_degree_and_size({kind}={x}, method='{meth}')", "expected": exp})
        else:
            ctx.fail("corr_resolve", f"resolve-model:{meth}:{kind}:{lo}-{hi_}", str(v),
                     f"model and implementation disagree on {meth} {kind} in [{lo},{hi_}] (impl {v})", found_input=False)
    ctx.sample({"method": meta[3][0], "kind": meta[3][1], "range": [meta[3][2], meta[3][3]], "impl": meta[3][4]})
    ctx.sample({"method": meta[-1][0], "kind": meta[-1][1], "range": [meta[-1][2], meta[-1][3]], "impl": meta[-1][4]})

    # ---------------- constructed grids report a matching pair and have that many points
    from grid.angular import AngularGrid

    nbuilt = 0
    for meth, P, _, _ in METHODS:
        t = tabs[f"{P}_DEGREES"]
        degs = sorted(t)
        probe = degs if not ctx.quick else [d for d in degs if t[d] <= 6000]
        for d in probe:
            for req in {d, max(d - 1, 0)}:
                exp_d = min(k for k in degs if k >= req)
                with warnings.catch_warnings():
                    warnings.simplefilter("ignore")
                    try:
                        g = AngularGrid(degree=req, method=meth, cache=False)
                        obs = (int(g.degree), int(g.size), len(g.points), len(g.weights))
                    except Exception as e:
                        obs = ("crash", type(e).__name__, str(e)[:80])
                exp = (exp_d, t[exp_d], t[exp_d], t[exp_d])
                nbuilt += 1
                ctx.case(("built", meth, req))
                if obs != exp:
                    ctx.fail("corr_built", f"built:{meth}:{req}", str(obs),
                             f"AngularGrid(degree={req}, method={meth}) has (degree,size,npoints,nweights)={obs}, expected {exp}",
                             {"reproduce": f"AngularGrid(degree={req}, method='{meth}', cache=False)"})
    ctx.count("grids_built", nbuilt)

    # ---------------- the same with caching ON, all methods interleaved in both orders within one process
    # (the module-level caches are keyed by degree only: a grid must still carry its own method's table row and data)
    import grid.angular as ga2
    caches = [ga2.LEBEDEV_CACHE, ga2.SPHERICAL_CACHE, ga2.MAX_DET_CACHE, ga2.AHRENS_BEYLKIN_CACHE]
    for c in caches:
        c.clear()
    ncached = 0
    try:
        for order in (METHODS, METHODS[::-1]):
            for meth, P, _, ddir in order:
                t = tabs[f"{P}_DEGREES"]
                for d in [d for d in sorted(t) if t[d] <= (1500 if ctx.quick else 6000)]:
                    with warnings.catch_warnings():
                        warnings.simplefilter("ignore")
                        try:
                            g = AngularGrid(degree=d, method=meth)  # cache=True (default)
                            obs = (int(g.degree), int(g.size), len(g.points), len(g.weights))
                            with np.load(SRC / "data" / ddir / f"{meth}_{d}_{t[d]}.npz") as data:
                                same = np.array_equal(g.points, data["points"])
                        except Exception as e:  # noqa: BLE001
                            obs, same = ("crash", type(e).__name__, str(e)[:80]), False
                    exp = (d, t[d], t[d], t[d])
                    ncached += 1
                    ctx.case(("cached", meth, d, order is METHODS))
                    if obs != exp or not same:
                        ctx.fail("corr_built_cached", f"built-cached:{meth}:{d}", str(obs),
                                 f"with caching on and other methods built before, AngularGrid(degree={d}, method={meth}) has "
                                 f"(degree,size,npoints,nweights)={obs}, expected {exp}; points equal the data file: {same}",
                                 {"reproduce": "clear the four caches; for m in methods (then reversed): AngularGrid(degree=d, method=m) for every supported d; "
                                               f"then look at AngularGrid(degree={d}, method='{meth}')"})
    finally:
        for c in caches:
            c.clear()
    ctx.count("grids_built_cached", ncached)

    # ---------------- the public constructor by SIZE (incl. size=0 and the default degree left in place), and by both
    def least(t_keys, x):
        c = [k for k in t_keys if k >= x]
        return min(c) if c and x >= 0 else None
    nsz = 0
    for meth, P, _, _ in METHODS:
        tn = tabs[f"{P}_NPOINTS"]
        ks = sorted(k for k in tn if k <= (1500 if ctx.quick else 6000))
        reqs = {0, 1, 2} | {k for k in ks[:12]} | {k - 1 for k in ks[:12]} | {k + 1 for k in ks[:11]} | set(ctx.rng.sample(range(0, ks[-1]), 6))
        for sreq in sorted(reqs):
            k = least(sorted(tn), sreq)
            if k is None or k > ks[-1]:
                continue
            exp = (tn[k], k, k)
            for kw in (dict(size=sreq), dict(degree=None, size=sreq), dict(degree=7, size=sreq)):
                with warnings.catch_warnings():
                    warnings.simplefilter("ignore")
                    try:
                        g = AngularGrid(method=meth, cache=False, **kw)
                        obs = (int(g.degree), int(g.size), len(g.points))
                    except Exception as e:  # noqa: BLE001
                        obs = ("crash", type(e).__name__, str(e)[:60])
                nsz += 1
                ctx.case(("built-size", meth, sreq, tuple(kw)))
                if obs != exp:
                    ctx.fail("corr_built_size", f"built-size:{meth}:{kw}", str(obs),
                             f"AngularGrid({', '.join(f'{a}={b}' for a, b in kw.items())}, method='{meth}') has (degree,size,npoints)={obs}; "
                             f"the smallest supported size not below {sreq} is {k} (degree {tn[k]})",
                             {"reproduce": f"AngularGrid(method='{meth}', cache=False, **{kw})"})
    ctx.count("grids_built_by_size", nsz)

    # ---------------- atomic grids: every shell gets the smallest supported degree of the REQUESTED method not below the request
    from grid.atomgrid import AtomGrid
    from grid.basegrid import OneDGrid
    rg = OneDGrid(np.array([0.25, 0.5, 1.0, 2.0, 4.0, 8.0]), np.ones(6), (0, np.inf))
    nat = 0
    for meth, P, _, _ in METHODS:
        td, tn = tabs[f"{P}_DEGREES"], tabs[f"{P}_NPOINTS"]
        dmax = max(td)
        for trial in range(3 if ctx.quick else 12):
            hi = dmax if trial == 0 else min(dmax, 40)
            dreq = [ctx.rng.randint(0, 30) for _ in range(5)] + [ctx.rng.randint(max(0, hi - 8), hi) if trial == 0 and td[least(sorted(td), hi)] <= 20000 else ctx.rng.randint(0, 30)]
            sreq = [ctx.rng.randint(0, 300) for _ in range(6)]
            d_sec = [dreq[0], dreq[2], dreq[5], dreq[1]]
            s_sec = [sreq[0], sreq[2], sreq[4], sreq[1]]
            r_sec = [0.3, 1.5, 5.0]
            jobs = [("AtomGrid(degrees=...)", lambda: AtomGrid(rg, degrees=list(dreq), method=meth), [least(sorted(td), d) for d in dreq]),
                    ("AtomGrid(sizes=...)", lambda: AtomGrid(rg, sizes=list(sreq), method=meth), [tn[least(sorted(tn), s_)] for s_ in sreq]),
                    ("from_pruned(d_sectors=...)", lambda: AtomGrid.from_pruned(rg, 1.0, r_sectors=r_sec, d_sectors=d_sec, method=meth),
                     [least(sorted(td), d_sec[sum(1 for b in r_sec if r > b)]) for r in rg.points]),
                    ("from_pruned(s_sectors=...)", lambda: AtomGrid.from_pruned(rg, 1.0, r_sectors=r_sec, s_sectors=s_sec, method=meth),
                     [tn[least(sorted(tn), s_sec[sum(1 for b in r_sec if r > b)])] for r in rg.points])]
            for what, build, exp in jobs:
                with warnings.catch_warnings():
                    warnings.simplefilter("ignore")
                    try:
                        obs = [int(v) for v in build().degrees]
                    except Exception as e:  # noqa: BLE001
                        obs = ["crash", type(e).__name__, str(e)[:60]]
                nat += 1
                ctx.case(("atom-degrees", meth, what, trial))
                if obs != exp:
                    ctx.fail("corr_atom_degrees", f"atom-degrees:{meth}:{what}:{dreq}:{sreq}", str(obs),
                             f"{what} with method='{meth}', requests degrees={dreq} sizes={sreq} d_sectors={d_sec} s_sectors={s_sec} r_sectors={r_sec}: "
                             f"shell degrees {obs}, the smallest supported degrees not below the requests are {exp}",
                             {"reproduce": f"rg=OneDGrid([.25,.5,1,2,4,8], ones(6), (0,inf)); {what} as described, method='{meth}'"})
    ctx.count("atomic_grids_built", nat)

    # ---------------- convert_angular_sizes_to_degrees vs model (random sequences, incl. duplicates)
    cases, meta = [], []
    ctor = {m: c for m, _, c, _ in METHODS}
    for _ in range(60 if ctx.quick else 600):
        meth, P, _, _ = ctx.rng.choice(METHODS)
        ks = sorted(tabs[f"{P}_NPOINTS"])
        n = ctx.rng.randint(0, 12)
        pool = [ctx.rng.randint(0, ks[-1]) for _ in range(4)] + ctx.rng.sample(ks, min(3, len(ks)))
        sizes = [ctx.rng.choice(pool) for _ in range(n)]
        if ctx.rng.random() < 0.15:
            sizes.append(ks[-1] + ctx.rng.randint(1, 9))
        with warnings.catch_warnings():
            warnings.simplefilter("ignore")
            try:
                r = [int(v) for v in AngularGrid.convert_angular_sizes_to_degrees(np.array(sizes, dtype=int), meth)]
            except ValueError:
                r = None
        e = "None" if r is None else "Some [" + "; ".join(map(str, r)) + "]"
        cases.append(f"match convert {ctor[meth]} [{'; '.join(map(str, sizes))}], {e} with Some a, Some b => list_eqb a b | None, None => true | _, _ => false end")
        meta.append((meth, sizes, r))
        ctx.case(("convert", meth, tuple(sizes)))
    hdr2 = hdr + ("Fixpoint list_eqb (a b : list Z) : bool := match a, b with [], [] => true | x :: r, y :: s => (x =? y) && list_eqb r s | _, _ => false end.\n")
    for i in ctx.coq_bool_cases("C12_conv", hdr2, cases):
        meth, sizes, r = meta[i]
        ctx.fail("corr_convert", f"convert:{meth}:{sizes}", str(r),
                 f"convert_angular_sizes_to_degrees({sizes}, {meth}) = {r} differs from element-wise resolution",
                 {"reproduce": f"AngularGrid.convert_angular_sizes_to_degrees(np.array({sizes}), '{meth}')"})
    ctx.sample({"convert": meta[0][1], "method": meta[0][0], "impl": meta[0][2]})

    # ---------------- sequences of other container/dtype forms, and NON-INTEGRAL requests: a request is either rejected or gets the
    # smallest supported value not below it (never a coarser grid than asked for, never accepted above the maximum)
    import math as _m
    nform = 0
    for meth, P, _, _ in METHODS:
        td, tn = tabs[f"{P}_DEGREES"], tabs[f"{P}_NPOINTS"]
        ks, kd = sorted(tn), sorted(td)
        base = [ks[1], ks[2] + 1, ks[1], ks[min(6, len(ks) - 1)] - 1, 0]
        exp = [tn[least(ks, v)] for v in base]
        forms = [("list", list(base)), ("tuple", tuple(base)), ("int32 array", np.array(base, dtype=np.int32)), ("uint16 array", np.array(base, dtype=np.uint16)),
                 ("list of np.int64", [np.int64(v) for v in base]), ("read-only array", np.array(base))]
        forms[-1][1].setflags(write=False)
        for nm, seq in forms:
            nform += 1
            with warnings.catch_warnings():
                warnings.simplefilter("ignore")
                try:
                    obs = [int(v) for v in AngularGrid.convert_angular_sizes_to_degrees(seq, meth)]
                except Exception as e:  # noqa: BLE001
                    obs = ["crash", type(e).__name__, str(e)[:60]]
            if obs != exp:
                ctx.fail("corr_convert", f"convert-form:{meth}:{nm}", str(obs),
                         f"convert_angular_sizes_to_degrees({base} as {nm}, '{meth}') = {obs}; element-wise resolution gives {exp}",
                         {"reproduce": f"AngularGrid.convert_angular_sizes_to_degrees(<{base} as {nm}>, '{meth}')"})
        fr = [0.5, 0.75, 0.25, 0.999]
        picks = [ks[1], ks[3], ks[min(9, len(ks) - 1)], ks[-1]]
        for j, k0 in enumerate(picks):
            x = k0 + fr[j]  # just above a supported size (the last one: above the maximum)
            want_k = least(ks, _m.ceil(x))
            want = None if want_k is None else tn[want_k]
            d0 = kd[min(3 + 2 * j, len(kd) - 1)] if j < 3 else kd[-1]
            y = d0 + fr[j]
            want_d = least(kd, _m.ceil(y))
            jobs = [("convert_angular_sizes_to_degrees(float array)", lambda: AngularGrid.convert_angular_sizes_to_degrees(np.array([ks[0], x, ks[0]]), meth)[1], want, x, "size"),
                    ("convert_angular_sizes_to_degrees(list)", lambda: AngularGrid.convert_angular_sizes_to_degrees([x], meth)[0], want, x, "size"),
                    ("AngularGrid(size=...)", lambda: tn[AngularGrid(size=x, method=meth, cache=False).size], want, x, "size"),
                    ("AngularGrid(degree=...)", lambda: AngularGrid(degree=y, method=meth, cache=False).degree, want_d, y, "degree")]
            if k0 <= 1500 and j < 3:
                jobs += [("AtomGrid(sizes=...)", lambda: AtomGrid(rg, sizes=[ks[0]] * 5 + [x], method=meth).degrees[5], want, x, "size"),
                         ("AtomGrid(degrees=...)", lambda: AtomGrid(rg, degrees=[kd[0]] * 5 + [y], method=meth).degrees[5], want_d, y, "degree"),
                         ("from_pruned(s_sectors=...)", lambda: AtomGrid.from_pruned(rg, 1.0, r_sectors=[0.3], s_sectors=[ks[0], x], method=meth).degrees[5], want, x, "size"),
                         ("from_pruned(d_sectors=...)", lambda: AtomGrid.from_pruned(rg, 1.0, r_sectors=[0.3], d_sectors=[kd[0], y], method=meth).degrees[5], want_d, y, "degree")]
            for what, build, w, req, unit in jobs:
                nform += 1
                ctx.case(("non-integral", meth, what, req))
                with warnings.catch_warnings():
                    warnings.simplefilter("ignore")
                    try:
                        got = int(build())
                    except (ValueError, TypeError):
                        continue  # rejected: fine
                    except Exception as e:  # noqa: BLE001
                        got = f"crash {type(e).__name__}: {str(e)[:60]}"
                if got != w:
                    ctx.fail("corr_convert" if "convert" in what else ("corr_atom_degrees" if "Atom" in what or "pruned" in what else "corr_built_size"),
                             f"non-integral:{meth}:{what}:{req}", str(got),
                             f"{what} with method='{meth}' and the non-integral {unit} request {req} is accepted and resolves to degree {got}; it must be rejected or get "
                             f"the smallest supported grid not below the request ({'rejected: above the maximum' if w is None else 'degree ' + str(w)})",
                             {"reproduce": f"{what} with the {unit} {req!r}, method='{meth}'"})
    ctx.count("container_and_non_integral_requests", nform)
    ctx.cov["rule"] = ("every integer degree and size from -3 to max+50 for the 4 methods is resolved by the implementation, "
                       "run-length encoded, and each point of each run is compared with the Coq model by vm_compute (exhaustive); "
                       "distinct = runs + built grids + converter sequences")
    ctx.cov["exhaustive"] = True
    ctx.cov["requests_enumerated"] = total
    ctx.trusted += ["table extraction (ast + closed-namespace evaluation of 8 dict expressions), validated against the imported module",
                    "np.load header reading of the data directory", "hand model Tables.resolve, tied by exhaustive correspondence"]
