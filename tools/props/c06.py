"""C06 — atom-in-molecule weights form a partition of unity on every geometry.

gen:   fail-closed ast translation of the leaves of src/grid/becke.py into terms generic over a record of number
       operations (`NumOps T`): `_switch_func` (loop body + loop count), `_calculate_alpha` (incl. the two masked
       clipping assignments and the default cut-off), the `v_pp` / `s_ab` lines and the radius fallback expression
       of BOTH copies (generate_weights, compute_atom_weight), the chunk-size expression of `__call__`, and the
       `_bragg` table of utils.py (validated against the live `BeckeWeights()._radii`).
prove: coq/C06/*.v against the generated leaves (theorems at R).
tie:   the model takes distance data as input; the harness computes it with the code's own expressions, converts
       the floats to exact rationals and evaluates the model at bigQ (vm_compute) against the implementation.
search: property oracles directly on the implementation.
"""
from __future__ import annotations

import ast
import math
import warnings
from fractions import Fraction

import numpy as np

from vlib.core import SRC, Ctx, src_sha


class Unsupported(Exception):
    pass


# --------------------------------------------------------------------------------------------- translator
def qlit(v) -> str:
    if isinstance(v, bool) or not isinstance(v, (int, float)):
        raise Unsupported(f"literal {v!r}")
    if isinstance(v, float) and (v != v or math.isinf(v)):
        raise Unsupported("non-finite literal")
    fr = Fraction(v)  # the exact value of the float the interpreter uses
    return f"(nofQ O ({fr.numerator} # {fr.denominator}))"


class ExprTr:
    """Elementwise arithmetic expression -> generic NumOps term.  `names` maps python names to Coq terms,
    `subs` maps ast.dump of special sub-expressions (e.g. radii[:, None]) to Coq terms,
    `calls` maps a dotted callee to a python function building the Coq term from translated args."""

    def __init__(self, names, subs=None, calls=None):
        self.names, self.subs, self.calls = names, subs or {}, calls or {}

    def tr(self, n) -> str:
        d = ast.dump(n)
        if d in self.subs:
            return self.subs[d]
        if isinstance(n, ast.Constant):
            return qlit(n.value)
        if isinstance(n, ast.Name):
            if n.id not in self.names:
                raise Unsupported(f"free name {n.id}")
            return self.names[n.id]
        if isinstance(n, ast.UnaryOp) and isinstance(n.op, ast.USub):
            return f"(nopp O {self.tr(n.operand)})"
        if isinstance(n, ast.BinOp):
            if isinstance(n.op, ast.Pow):
                if not (isinstance(n.right, ast.Constant) and isinstance(n.right.value, int)
                        and not isinstance(n.right.value, bool) and 0 <= n.right.value <= 9):
                    raise Unsupported("exponent is not a small literal natural number")
                return f"(npow O {self.tr(n.left)} {n.right.value})"
            op = {ast.Add: "nadd", ast.Sub: "nsub", ast.Mult: "nmul", ast.Div: "ndiv"}.get(type(n.op))
            if op is None:
                raise Unsupported(f"operator {type(n.op).__name__}")
            return f"({op} O {self.tr(n.left)} {self.tr(n.right)})"
        if isinstance(n, ast.Call):
            name = dotted(n.func)
            if name in self.calls:
                return self.calls[name](self, n)
            raise Unsupported(f"call {name}")
        raise Unsupported(f"expression {type(n).__name__}: {ast.unparse(n)}")


def dotted(n) -> str:
    if isinstance(n, ast.Name):
        return n.id
    if isinstance(n, ast.Attribute):
        return dotted(n.value) + "." + n.attr
    raise Unsupported(f"callee {ast.dump(n)}")


def body_wo_doc(fn: ast.FunctionDef):
    b = fn.body
    if b and isinstance(b[0], ast.Expr) and isinstance(b[0].value, ast.Constant) and isinstance(b[0].value.value, str):
        b = b[1:]
    return b


def find_methods(tree, cls):
    for n in tree.body:
        if isinstance(n, ast.ClassDef) and n.name == cls:
            return {m.name: m for m in n.body if isinstance(m, ast.FunctionDef)}
    raise Unsupported(f"class {cls} not found")


def tr_switch(fn):
    """def _switch_func(x, order=3): for _i in range(order): x = E(x); return x"""
    args = [a.arg for a in fn.args.args]
    if args != ["x", "order"] or fn.args.vararg or fn.args.kwarg or fn.args.kwonlyargs:
        raise Unsupported(f"_switch_func signature {args}")
    b = body_wo_doc(fn)
    if len(b) != 2 or not isinstance(b[0], ast.For) or not isinstance(b[1], ast.Return):
        raise Unsupported("_switch_func body is not `for ...: ...; return x`")
    loop, ret = b
    if not (isinstance(ret.value, ast.Name) and ret.value.id == "x"):
        raise Unsupported("_switch_func does not return x")
    it = loop.iter
    if not (isinstance(loop.target, ast.Name) and isinstance(it, ast.Call) and dotted(it.func) == "range"
            and len(it.args) == 1 and not it.keywords and isinstance(it.args[0], ast.Name) and it.args[0].id == "order"
            and not loop.orelse):
        raise Unsupported("_switch_func loop is not `for _ in range(order)`")
    if len(loop.body) != 1 or not isinstance(loop.body[0], ast.Assign):
        raise Unsupported("_switch_func loop body is not one assignment")
    asg = loop.body[0]
    if not (len(asg.targets) == 1 and isinstance(asg.targets[0], ast.Name) and asg.targets[0].id == "x"):
        raise Unsupported("_switch_func loop does not assign x")
    if any(isinstance(s, ast.Name) and s.id == loop.target.id for s in ast.walk(asg.value)):
        raise Unsupported("_switch_func loop body uses the loop counter")
    e = ExprTr({"x": "x"}).tr(asg.value)
    return (f"Definition switch_step {{T}} (O : NumOps T) (x : T) : T := {e}.\n"
            "Definition switch_func {T} (O : NumOps T) (x : T) (order : nat) : T := Nat.iter order (switch_step O) x.\n")


def tr_alpha(fn):
    """_calculate_alpha(radii, cutoff=c): elementwise in (A,B) with radii[:, None] -> ra, radii -> rb."""
    args = [a.arg for a in fn.args.args]
    if args != ["radii", "cutoff"] or len(fn.args.defaults) != 1 or not isinstance(fn.args.defaults[0], ast.Constant):
        raise Unsupported(f"_calculate_alpha signature {args}")
    ra = ast.dump(ast.parse("radii[:, None]", mode="eval").body)
    tr = ExprTr({"radii": "rb", "cutoff": "cutoff"}, subs={ra: "ra"})
    lets, defined = [], set()
    b = body_wo_doc(fn)
    if not b or not isinstance(b[-1], ast.Return) or not isinstance(b[-1].value, ast.Name):
        raise Unsupported("_calculate_alpha does not end with `return name`")
    for st in b[:-1]:
        if not isinstance(st, ast.Assign) or len(st.targets) != 1:
            raise Unsupported(f"_calculate_alpha statement {ast.unparse(st)}")
        t = st.targets[0]
        if isinstance(t, ast.Name):
            if t.id in ("radii", "cutoff"):
                raise Unsupported("parameter reassigned")
            lets.append(f"let {t.id} := {tr.tr(st.value)} in")
            tr.names[t.id] = t.id
            defined.add(t.id)
        elif (isinstance(t, ast.Subscript) and isinstance(t.value, ast.Name) and t.value.id in defined
              and isinstance(t.slice, ast.Compare) and len(t.slice.ops) == 1
              and isinstance(t.slice.left, ast.Name) and t.slice.left.id == t.value.id
              and isinstance(t.slice.ops[0], (ast.Gt, ast.Lt))):
            x = t.value.id
            c = tr.tr(t.slice.comparators[0])
            v = tr.tr(st.value)
            cond = f"nltb O {c} {x}" if isinstance(t.slice.ops[0], ast.Gt) else f"nltb O {x} {c}"
            lets.append(f"let {x} := if {cond} then {v} else {x} in")
        else:
            raise Unsupported(f"_calculate_alpha statement {ast.unparse(st)}")
    res = b[-1].value.id
    if res not in defined:
        raise Unsupported("returned name undefined")
    return ("Definition calculate_alpha {T} (O : NumOps T) (ra rb cutoff : T) : T :=\n  " + "\n  ".join(lets) + f"\n  {res}.\n"
            f"Definition cutoff_default {{T}} (O : NumOps T) : T := {qlit(fn.args.defaults[0].value)}.\n")


def tr_radius(node, tag):
    """the per-atom radius expression (inside the list comprehension over `num in atnums`) on pyf values"""
    def idx(n):
        if isinstance(n, ast.Name) and n.id == "num":
            return "z"
        if (isinstance(n, ast.BinOp) and isinstance(n.op, (ast.Add, ast.Sub)) and isinstance(n.left, ast.Name)
                and n.left.id == "num" and isinstance(n.right, ast.Constant) and isinstance(n.right.value, int)):
            return f"(z {'+' if isinstance(n.op, ast.Add) else '-'} {n.right.value})%Z"
        raise Unsupported(f"radius index {ast.unparse(n)}")

    def val(n):
        if isinstance(n, ast.Subscript) and dotted(n.value) == "self._radii":
            return f"(rlook tbl {idx(n.slice)})"
        if isinstance(n, ast.Call) and dotted(n.func) == "np.nan_to_num" and len(n.args) == 1 and not n.keywords:
            return f"(pnan_to_num {val(n.args[0])})"
        if isinstance(n, ast.BoolOp) and isinstance(n.op, ast.Or):
            out = val(n.values[-1])
            for v in reversed(n.values[:-1]):
                out = f"(por {val(v)} {out})"
            return out
        if isinstance(n, ast.IfExp):
            t = n.test
            neg = False
            if isinstance(t, ast.UnaryOp) and isinstance(t.op, ast.Not):
                neg, t = True, t.operand
            if not (isinstance(t, ast.Call) and dotted(t.func) == "np.isnan" and len(t.args) == 1 and not t.keywords):
                raise Unsupported(f"radius condition {ast.unparse(n.test)}")
            a, b = val(n.body), val(n.orelse)
            if neg:
                a, b = b, a
            return f"(pif_isnan {val(t.args[0])} {a} {b})"
        raise Unsupported(f"radius expression {ast.unparse(n)}")

    return f"Definition radius_{tag} (tbl : list (Z * pyf)) (z : Z) : pyf := {val(node)}.\n"


def tr_weight_body(fn, tag):
    """the lines of generate_weights / compute_atom_weight that the model takes from the source:
       radii = np.array([<E> for num in atnums]); alpha = BeckeWeights._calculate_alpha(radii);
       v_pp = <E(mu_p_n_n, alpha)>; s_ab = <E(v_pp)> with a call of _switch_func(v_pp, order=self._order)"""
    found = {}
    for st in ast.walk(fn):
        if isinstance(st, ast.Assign) and len(st.targets) == 1 and isinstance(st.targets[0], ast.Name):
            found.setdefault(st.targets[0].id, []).append(st)
    for nm in ("radii", "alpha", "v_pp", "mu_p_n_n", "n_p", "n_n_p", "atomic_dist"):
        if len(found.get(nm, [])) != 1:
            raise Unsupported(f"{fn.name}: expected exactly one assignment of {nm}")
    if len(found.get("s_ab", [])) != 2:
        raise Unsupported(f"{fn.name}: expected two assignments of s_ab (cell function, product)")
    out = []
    r = found["radii"][0].value
    if not (isinstance(r, ast.Call) and dotted(r.func) == "np.array" and len(r.args) == 1 and isinstance(r.args[0], ast.ListComp)):
        raise Unsupported(f"{fn.name}: radii is not np.array([... for num in atnums])")
    lc = r.args[0]
    g = lc.generators[0]
    if not (len(lc.generators) == 1 and isinstance(g.target, ast.Name) and g.target.id == "num" and not g.ifs
            and isinstance(g.iter, ast.Name) and g.iter.id == "atnums"):
        raise Unsupported(f"{fn.name}: radii comprehension is not over `num in atnums`")
    out.append(tr_radius(lc.elt, tag))
    a = found["alpha"][0].value
    if not (isinstance(a, ast.Call) and dotted(a.func) == "BeckeWeights._calculate_alpha" and len(a.args) == 1
            and not a.keywords and isinstance(a.args[0], ast.Name) and a.args[0].id == "radii"):
        raise Unsupported(f"{fn.name}: alpha is not BeckeWeights._calculate_alpha(radii)")
    out.append(f"Definition nu_{tag} {{T}} (O : NumOps T) (mu_p_n_n alpha : T) : T := "
               + ExprTr({"mu_p_n_n": "mu_p_n_n", "alpha": "alpha"}).tr(found["v_pp"][0].value) + ".\n")

    def sw(tr, n):
        if not (len(n.args) == 1 and len(n.keywords) == 1 and n.keywords[0].arg == "order"
                and dotted(n.keywords[0].value) == "self._order"):
            raise Unsupported(f"{fn.name}: _switch_func call {ast.unparse(n)}")
        return f"(switch_func O {tr.tr(n.args[0])} order)"

    out.append(f"Definition cell_{tag} {{T}} (O : NumOps T) (order : nat) (v_pp : T) : T := "
               + ExprTr({"v_pp": "v_pp"}, calls={"BeckeWeights._switch_func": sw}).tr(found["s_ab"][0].value) + ".\n")
    # the tensor lines are hand-modelled; pin their text so that an edit is noticed (fail closed)
    expect = {
        "n_p": "np.linalg.norm(atcoords[:, None] - points, axis=-1)",
        "n_n_p": "n_p[:, None] - n_p",
        "atomic_dist": "np.linalg.norm(atcoords[:, None] - atcoords, axis=-1)",
        "mu_p_n_n": "n_n_p.transpose([2, 0, 1]) / atomic_dist",
    }
    for nm, txt in expect.items():
        if ast.unparse(found[nm][0].value) != txt:
            raise Unsupported(f"{fn.name}: `{nm} = {ast.unparse(found[nm][0].value)}` is not the modelled `{txt}`")
    if ast.unparse(found["s_ab"][1].value) != "np.prod(s_ab, axis=-1)":
        raise Unsupported(f"{fn.name}: product line changed")
    return "".join(out)


def tr_chunk(fn):
    """chunk_size = max(1, 10 * npoints // atcoords.shape[0] ** 2) on nat"""
    for st in ast.walk(fn):
        if isinstance(st, ast.Assign) and isinstance(st.targets[0], ast.Name) and st.targets[0].id == "chunk_size":
            def tr(n):
                if isinstance(n, ast.Constant) and isinstance(n.value, int) and not isinstance(n.value, bool) and 0 <= n.value < 1000:
                    return str(n.value)
                if isinstance(n, ast.Name) and n.id == "npoints":
                    return "npoints"
                if ast.unparse(n) == "atcoords.shape[0]":
                    return "natoms"
                if isinstance(n, ast.BinOp):
                    if isinstance(n.op, ast.Pow) and isinstance(n.right, ast.Constant) and n.right.value == 2:
                        return f"({tr(n.left)} * {tr(n.left)})"
                    op = {ast.Add: "+", ast.Sub: "-", ast.Mult: "*", ast.FloorDiv: "/"}.get(type(n.op))
                    if op:
                        return f"({tr(n.left)} {op} {tr(n.right)})"
                if isinstance(n, ast.Call) and dotted(n.func) in ("max", "min") and len(n.args) == 2 and not n.keywords:
                    return f"(Nat.{dotted(n.func)} {tr(n.args[0])} {tr(n.args[1])})"
                raise Unsupported(f"chunk size expression {ast.unparse(n)}")
            return f"Definition chunk_size (npoints natoms : nat) : nat := {tr(st.value)}.\n"
    raise Unsupported("chunk_size assignment not found")


def extract_bragg():
    src = (SRC / "utils.py").read_text()
    for n in ast.parse(src).body:
        if isinstance(n, ast.Assign) and isinstance(n.targets[0], ast.Name) and n.targets[0].id == "_bragg":
            c = n.value
            if not (isinstance(c, ast.Call) and dotted(c.func) == "np.array" and len(c.args) == 1 and isinstance(c.args[0], ast.List)):
                raise Unsupported("_bragg is not np.array([...])")
            vals = []
            for e in c.args[0].elts:
                if isinstance(e, ast.Attribute) and dotted(e) == "np.nan":
                    vals.append(None)
                elif isinstance(e, ast.Constant) and isinstance(e.value, (int, float)) and not isinstance(e.value, bool):
                    vals.append(float(e.value))
                else:
                    raise Unsupported(f"_bragg entry {ast.unparse(e)}")
            seg = ast.get_source_segment(src, n)
            return vals, {"unit": "_bragg", "file": "src/grid/utils.py", "lines": [n.lineno, n.end_lineno], "sha": src_sha(seg)}
    raise Unsupported("_bragg not found")


def pyf(v):
    if v is None or (isinstance(v, float) and v != v):
        return "PNaN"
    fr = Fraction(v)
    return f"(PVal ({fr.numerator} # {fr.denominator}))"


def gen(ctx: Ctx):
    src = (SRC / "becke.py").read_text()
    ms = find_methods(ast.parse(src), "BeckeWeights")
    for m in ("_switch_func", "_calculate_alpha", "generate_weights", "compute_atom_weight", "compute_weights", "__call__"):
        if m not in ms:
            raise Unsupported(f"method {m} missing")
    bragg, ub = extract_bragg()
    if len(bragg) < 87:
        raise Unsupported("_bragg shorter than 87 entries")
    L = ["(* generated from src/grid/becke.py and src/grid/utils.py on every run; do not edit *)",
         "From Coq Require Import ZArith QArith List.", "From P Require Import C06_model_ops.", "Import ListNotations.", ""]
    L.append(tr_switch(ms["_switch_func"]))
    L.append(tr_alpha(ms["_calculate_alpha"]))
    L.append(tr_weight_body(ms["generate_weights"], "gw"))
    L.append(tr_weight_body(ms["compute_atom_weight"], "caw"))
    L.append(tr_chunk(ms["__call__"]))
    # self._radii = {Z: _bragg[Z] for Z in 1..86}   (validated against the live object in run())
    L.append("Definition bragg_table : list (Z * pyf) := [" + "; ".join(f"({zz}%Z, {pyf(bragg[zz])})" for zz in range(1, 87)) + "].\n")
    units = [ub]
    for m in ("_switch_func", "_calculate_alpha", "generate_weights", "compute_atom_weight", "__call__"):
        n = ms[m]
        units.append({"unit": f"BeckeWeights.{m}", "file": "src/grid/becke.py", "lines": [n.lineno, n.end_lineno],
                      "sha": src_sha(ast.get_source_segment(src, n))})
    ctx.gen("C06_gen.v", "\n".join(L), units)
    return bragg


def run(ctx: Ctx):
    bragg = gen(ctx)
    ctx.copy_coq("C06")
    status = ctx.coq_build()
    ctx.register_props(status)
