"""C06 — atom-in-molecule weights form a partition of unity on every geometry.

gen:   fail-closed ast translation of the leaves of src/grid/becke.py into terms generic over a record of number
       operations (`NumOps T`): `_switch_func` (loop body + loop count), `_calculate_alpha` (incl. the two masked
       clipping assignments and the default cut-off), the `v_pp` / `s_ab` lines and the radius fallback expression
       of BOTH copies (generate_weights, compute_atom_weight), the chunk-size expression of `__call__`, and the
       `_bragg` table of utils.py (validated against the live `BeckeWeights()._radii`).
prove: coq/C06/*.v against the generated leaves (theorems at R).
tie:   the model takes distance data as input; the harness computes it with the code's own expressions, converts
       the floats to exact rationals and evaluates the model at bigQ (vm_compute) against the implementation.
search: property oracles directly on the implementation (random geometries, undefined-radius elements at every position,
        histories on one instance with in-place edits of the inputs, explicit select); they run even when the translator
        fails closed, and the first failing input becomes the replay (Ctx.broken_tie).
"""
from __future__ import annotations

import ast
import math
import warnings
from fractions import Fraction

import numpy as np

from vlib.core import SRC, Ctx, q_bigq, src_sha


class Unsupported(Exception):
    pass


# --------------------------------------------------------------------------------------------- translator
def qlit(v) -> str:
    if isinstance(v, bool) or not isinstance(v, (int, float)):
        raise Unsupported(f"literal {v!r}")
    if isinstance(v, float) and (v != v or math.isinf(v)):
        raise Unsupported("non-finite literal")
    fr = Fraction(v)  # the exact value of the float the interpreter uses
    return f"(nofQ O ({fr.numerator} # {fr.denominator}))"


class ExprTr:
    """Elementwise arithmetic expression -> generic NumOps term.  `names` maps python names to Coq terms,
    `subs` maps ast.dump of special sub-expressions (e.g. radii[:, None]) to Coq terms,
    `calls` maps a dotted callee to a python function building the Coq term from translated args."""

    def __init__(self, names, subs=None, calls=None):
        self.names, self.subs, self.calls = names, subs or {}, calls or {}

    def tr(self, n) -> str:
        d = ast.dump(n)
        if d in self.subs:
            return self.subs[d]
        if isinstance(n, ast.Constant):
            return qlit(n.value)
        if isinstance(n, ast.Name):
            if n.id not in self.names:
                raise Unsupported(f"free name {n.id}")
            return self.names[n.id]
        if isinstance(n, ast.UnaryOp) and isinstance(n.op, ast.USub):
            return f"(nopp O {self.tr(n.operand)})"
        if isinstance(n, ast.BinOp):
            if isinstance(n.op, ast.Pow):
                if not (isinstance(n.right, ast.Constant) and isinstance(n.right.value, int)
                        and not isinstance(n.right.value, bool) and 0 <= n.right.value <= 9):
                    raise Unsupported("exponent is not a small literal natural number")
                return f"(npow O {self.tr(n.left)} {n.right.value})"
            op = {ast.Add: "nadd", ast.Sub: "nsub", ast.Mult: "nmul", ast.Div: "ndiv"}.get(type(n.op))
            if op is None:
                raise Unsupported(f"operator {type(n.op).__name__}")
            return f"({op} O {self.tr(n.left)} {self.tr(n.right)})"
        if isinstance(n, ast.Call):
            name = dotted(n.func)
            if name in self.calls:
                return self.calls[name](self, n)
            raise Unsupported(f"call {name}")
        raise Unsupported(f"expression {type(n).__name__}: {ast.unparse(n)}")


def dotted(n) -> str:
    if isinstance(n, ast.Name):
        return n.id
    if isinstance(n, ast.Attribute):
        return dotted(n.value) + "." + n.attr
    raise Unsupported(f"callee {ast.dump(n)}")


def body_wo_doc(fn: ast.FunctionDef):
    b = fn.body
    if b and isinstance(b[0], ast.Expr) and isinstance(b[0].value, ast.Constant) and isinstance(b[0].value.value, str):
        b = b[1:]
    return b


def find_methods(tree, cls):
    for n in tree.body:
        if isinstance(n, ast.ClassDef) and n.name == cls:
            return {m.name: m for m in n.body if isinstance(m, ast.FunctionDef)}
    raise Unsupported(f"class {cls} not found")


def tr_switch(fn):
    """def _switch_func(x, order=3): for _i in range(order): x = E(x); return x"""
    args = [a.arg for a in fn.args.args]
    if args != ["x", "order"] or fn.args.vararg or fn.args.kwarg or fn.args.kwonlyargs:
        raise Unsupported(f"_switch_func signature {args}")
    b = body_wo_doc(fn)
    if len(b) != 2 or not isinstance(b[0], ast.For) or not isinstance(b[1], ast.Return):
        raise Unsupported("_switch_func body is not `for ...: ...; return x`")
    loop, ret = b
    if not (isinstance(ret.value, ast.Name) and ret.value.id == "x"):
        raise Unsupported("_switch_func does not return x")
    it = loop.iter
    if not (isinstance(loop.target, ast.Name) and isinstance(it, ast.Call) and dotted(it.func) == "range"
            and len(it.args) == 1 and not it.keywords and isinstance(it.args[0], ast.Name) and it.args[0].id == "order"
            and not loop.orelse):
        raise Unsupported("_switch_func loop is not `for _ in range(order)`")
    if len(loop.body) != 1 or not isinstance(loop.body[0], ast.Assign):
        raise Unsupported("_switch_func loop body is not one assignment")
    asg = loop.body[0]
    if not (len(asg.targets) == 1 and isinstance(asg.targets[0], ast.Name) and asg.targets[0].id == "x"):
        raise Unsupported("_switch_func loop does not assign x")
    if any(isinstance(s, ast.Name) and s.id == loop.target.id for s in ast.walk(asg.value)):
        raise Unsupported("_switch_func loop body uses the loop counter")
    e = ExprTr({"x": "x"}).tr(asg.value)
    return (f"Definition switch_step {{T}} (O : NumOps T) (x : T) : T := {e}.\n"
            "Definition switch_func {T} (O : NumOps T) (x : T) (order : nat) : T := Nat.iter order (switch_step O) x.\n")


def tr_alpha(fn):
    """_calculate_alpha(radii, cutoff=c): elementwise in (A,B) with radii[:, None] -> ra, radii -> rb."""
    args = [a.arg for a in fn.args.args]
    if args != ["radii", "cutoff"] or len(fn.args.defaults) != 1 or not isinstance(fn.args.defaults[0], ast.Constant):
        raise Unsupported(f"_calculate_alpha signature {args}")
    ra = ast.dump(ast.parse("radii[:, None]", mode="eval").body)
    tr = ExprTr({"radii": "rb", "cutoff": "cutoff"}, subs={ra: "ra"})
    lets, defined = [], set()
    b = body_wo_doc(fn)
    if not b or not isinstance(b[-1], ast.Return) or not isinstance(b[-1].value, ast.Name):
        raise Unsupported("_calculate_alpha does not end with `return name`")
    for st in b[:-1]:
        if not isinstance(st, ast.Assign) or len(st.targets) != 1:
            raise Unsupported(f"_calculate_alpha statement {ast.unparse(st)}")
        t = st.targets[0]
        if isinstance(t, ast.Name):
            if t.id in ("radii", "cutoff"):
                raise Unsupported("parameter reassigned")
            lets.append(f"let {t.id} := {tr.tr(st.value)} in")
            tr.names[t.id] = t.id
            defined.add(t.id)
        elif (isinstance(t, ast.Subscript) and isinstance(t.value, ast.Name) and t.value.id in defined
              and isinstance(t.slice, ast.Compare) and len(t.slice.ops) == 1
              and isinstance(t.slice.left, ast.Name) and t.slice.left.id == t.value.id
              and isinstance(t.slice.ops[0], (ast.Gt, ast.Lt))):
            x = t.value.id
            c = tr.tr(t.slice.comparators[0])
            v = tr.tr(st.value)
            cond = f"nltb O {c} {x}" if isinstance(t.slice.ops[0], ast.Gt) else f"nltb O {x} {c}"
            lets.append(f"let {x} := if {cond} then {v} else {x} in")
        else:
            raise Unsupported(f"_calculate_alpha statement {ast.unparse(st)}")
    res = b[-1].value.id
    if res not in defined:
        raise Unsupported("returned name undefined")
    return ("Definition calculate_alpha {T} (O : NumOps T) (ra rb cutoff : T) : T :=\n  " + "\n  ".join(lets) + f"\n  {res}.\n"
            f"Definition cutoff_default {{T}} (O : NumOps T) : T := {qlit(fn.args.defaults[0].value)}.\n")


def tr_radius(node, tag):
    """the per-atom radius expression (inside the list comprehension over `num in atnums`) on pyf values"""
    def idx(n):
        if isinstance(n, ast.Name) and n.id == "num":
            return "z"
        if (isinstance(n, ast.BinOp) and isinstance(n.op, (ast.Add, ast.Sub)) and isinstance(n.left, ast.Name)
                and n.left.id == "num" and isinstance(n.right, ast.Constant) and isinstance(n.right.value, int)):
            return f"(z {'+' if isinstance(n.op, ast.Add) else '-'} {n.right.value})%Z"
        raise Unsupported(f"radius index {ast.unparse(n)}")

    def val(n):
        if isinstance(n, ast.Subscript) and dotted(n.value) == "self._radii":
            return f"(rlook tbl {idx(n.slice)})"
        if isinstance(n, ast.Call) and dotted(n.func) == "np.nan_to_num" and len(n.args) == 1 and not n.keywords:
            return f"(pnan_to_num {val(n.args[0])})"
        if isinstance(n, ast.BoolOp) and isinstance(n.op, ast.Or):
            out = val(n.values[-1])
            for v in reversed(n.values[:-1]):
                out = f"(por {val(v)} {out})"
            return out
        if isinstance(n, ast.IfExp):
            t = n.test
            neg = False
            if isinstance(t, ast.UnaryOp) and isinstance(t.op, ast.Not):
                neg, t = True, t.operand
            if not (isinstance(t, ast.Call) and dotted(t.func) == "np.isnan" and len(t.args) == 1 and not t.keywords):
                raise Unsupported(f"radius condition {ast.unparse(n.test)}")
            a, b = val(n.body), val(n.orelse)
            if neg:
                a, b = b, a
            return f"(pif_isnan {val(t.args[0])} {a} {b})"
        raise Unsupported(f"radius expression {ast.unparse(n)}")

    return f"Definition radius_{tag} (tbl : list (Z * pyf)) (z : Z) : pyf := {val(node)}.\n"


def tr_weight_body(fn, tag):
    """the lines of generate_weights / compute_atom_weight that the model takes from the source:
       radii = np.array([<E> for num in atnums]); alpha = BeckeWeights._calculate_alpha(radii);
       v_pp = <E(mu_p_n_n, alpha)>; s_ab = <E(v_pp)> with a call of _switch_func(v_pp, order=self._order)"""
    found = {}
    for st in ast.walk(fn):
        if isinstance(st, ast.Assign) and len(st.targets) == 1 and isinstance(st.targets[0], ast.Name):
            found.setdefault(st.targets[0].id, []).append(st)
    for nm in ("radii", "alpha", "v_pp", "mu_p_n_n", "n_p", "n_n_p", "atomic_dist"):
        if len(found.get(nm, [])) != 1:
            raise Unsupported(f"{fn.name}: expected exactly one assignment of {nm}")
    if len(found.get("s_ab", [])) != 2:
        raise Unsupported(f"{fn.name}: expected two assignments of s_ab (cell function, product)")
    out = []
    r = found["radii"][0].value
    if not (isinstance(r, ast.Call) and dotted(r.func) == "np.array" and len(r.args) == 1 and isinstance(r.args[0], ast.ListComp)):
        raise Unsupported(f"{fn.name}: radii is not np.array([... for num in atnums])")
    lc = r.args[0]
    g = lc.generators[0]
    if not (len(lc.generators) == 1 and isinstance(g.target, ast.Name) and g.target.id == "num" and not g.ifs
            and isinstance(g.iter, ast.Name) and g.iter.id == "atnums"):
        raise Unsupported(f"{fn.name}: radii comprehension is not over `num in atnums`")
    out.append(tr_radius(lc.elt, tag))
    a = found["alpha"][0].value
    if not (isinstance(a, ast.Call) and dotted(a.func) == "BeckeWeights._calculate_alpha" and len(a.args) == 1
            and not a.keywords and isinstance(a.args[0], ast.Name) and a.args[0].id == "radii"):
        raise Unsupported(f"{fn.name}: alpha is not BeckeWeights._calculate_alpha(radii)")
    out.append(f"Definition nu_{tag} {{T}} (O : NumOps T) (mu_p_n_n alpha : T) : T := "
               + ExprTr({"mu_p_n_n": "mu_p_n_n", "alpha": "alpha"}).tr(found["v_pp"][0].value) + ".\n")

    def sw(tr, n):
        if not (len(n.args) == 1 and len(n.keywords) == 1 and n.keywords[0].arg == "order"
                and dotted(n.keywords[0].value) == "self._order"):
            raise Unsupported(f"{fn.name}: _switch_func call {ast.unparse(n)}")
        return f"(switch_func O {tr.tr(n.args[0])} order)"

    out.append(f"Definition cell_{tag} {{T}} (O : NumOps T) (order : nat) (v_pp : T) : T := "
               + ExprTr({"v_pp": "v_pp"}, calls={"BeckeWeights._switch_func": sw}).tr(found["s_ab"][0].value) + ".\n")
    # the tensor lines are hand-modelled; pin their text so that an edit is noticed (fail closed)
    expect = {
        "n_p": "np.linalg.norm(atcoords[:, None] - points, axis=-1)",
        "n_n_p": "n_p[:, None] - n_p",
        "atomic_dist": "np.linalg.norm(atcoords[:, None] - atcoords, axis=-1)",
        "mu_p_n_n": "n_n_p.transpose([2, 0, 1]) / atomic_dist",
    }
    for nm, txt in expect.items():
        if ast.unparse(found[nm][0].value) != txt:
            raise Unsupported(f"{fn.name}: `{nm} = {ast.unparse(found[nm][0].value)}` is not the modelled `{txt}`")
    if ast.unparse(found["s_ab"][1].value) != "np.prod(s_ab, axis=-1)":
        raise Unsupported(f"{fn.name}: product line changed")
    return "".join(out)


def tr_chunk(fn):
    """chunk_size = max(1, 10 * npoints // atcoords.shape[0] ** 2) on nat"""
    for st in ast.walk(fn):
        if isinstance(st, ast.Assign) and isinstance(st.targets[0], ast.Name) and st.targets[0].id == "chunk_size":
            def tr(n):
                if isinstance(n, ast.Constant) and isinstance(n.value, int) and not isinstance(n.value, bool) and 0 <= n.value < 1000:
                    return str(n.value)
                if isinstance(n, ast.Name) and n.id == "npoints":
                    return "npoints"
                if ast.unparse(n) == "atcoords.shape[0]":
                    return "natoms"
                if isinstance(n, ast.BinOp):
                    if isinstance(n.op, ast.Pow) and isinstance(n.right, ast.Constant) and n.right.value == 2:
                        return f"({tr(n.left)} * {tr(n.left)})"
                    op = {ast.Add: "+", ast.Sub: "-", ast.Mult: "*", ast.FloorDiv: "/"}.get(type(n.op))
                    if op:
                        return f"({tr(n.left)} {op} {tr(n.right)})"
                if isinstance(n, ast.Call) and dotted(n.func) in ("max", "min") and len(n.args) == 2 and not n.keywords:
                    return f"(Nat.{dotted(n.func)} {tr(n.args[0])} {tr(n.args[1])})"
                raise Unsupported(f"chunk size expression {ast.unparse(n)}")
            return f"Definition chunk_size (npoints natoms : nat) : nat := {tr(st.value)}.\n"
    raise Unsupported("chunk_size assignment not found")


PINNED_LOOPS = {
    "generate_weights": ("""for i in range(sectors):
    sub_s_ab = s_ab[pt_ind[i]:pt_ind[i + 1]]
    weights[pt_ind[i]:pt_ind[i + 1]] += sub_s_ab[:, select[i]] / np.sum(sub_s_ab, axis=-1)""",),
    "compute_weights": ("""for k, i in enumerate(select):
    ind_start = pt_ind[k]
    ind_end = pt_ind[k + 1]
    weights[ind_start:ind_end] += self.compute_atom_weight(points[ind_start:ind_end], atcoords, atnums, i)""",),
    "__call__": ("""aim_weights = np.concatenate([self.generate_weights(points[ibegin:ibegin + chunk_size], atcoords, atnums, pt_ind=(indices - ibegin).clip(min=0)) for ibegin in range(0, npoints, chunk_size)])""",),
}


def check_pins(ms):
    """the slicing / accumulation structure is hand-modelled: its source text must be the modelled one"""
    for m, pins in PINNED_LOOPS.items():
        have = {ast.dump(n) for n in ast.walk(ms[m]) if isinstance(n, (ast.For, ast.Assign))}
        for pin in pins:
            if ast.dump(ast.parse(pin).body[0]) not in have:
                raise Unsupported(f"{m}: the modelled statement `{pin.splitlines()[0]} ...` is no longer in the source")
    # every method may only use the instance state the model knows about
    for m in ("generate_weights", "compute_atom_weight", "compute_weights", "__call__"):
        for n in ast.walk(ms[m]):
            if isinstance(n, ast.Attribute) and isinstance(n.value, ast.Name) and n.value.id == "self" \
                    and n.attr not in ("_radii", "_order", "generate_weights", "compute_atom_weight", "compute_weights"):
                raise Unsupported(f"{m}: uses self.{n.attr}, which the model does not know")


def extract_bragg():
    src = (SRC / "utils.py").read_text()
    for n in ast.parse(src).body:
        if isinstance(n, ast.Assign) and isinstance(n.targets[0], ast.Name) and n.targets[0].id == "_bragg":
            c = n.value
            if not (isinstance(c, ast.Call) and dotted(c.func) == "np.array" and len(c.args) == 1 and isinstance(c.args[0], ast.List)):
                raise Unsupported("_bragg is not np.array([...])")
            vals = []
            for e in c.args[0].elts:
                if isinstance(e, ast.Attribute) and dotted(e) == "np.nan":
                    vals.append(None)
                elif isinstance(e, ast.Constant) and isinstance(e.value, (int, float)) and not isinstance(e.value, bool):
                    vals.append(float(e.value))
                else:
                    raise Unsupported(f"_bragg entry {ast.unparse(e)}")
            seg = ast.get_source_segment(src, n)
            return vals, {"unit": "_bragg", "file": "src/grid/utils.py", "lines": [n.lineno, n.end_lineno], "sha": src_sha(seg)}
    raise Unsupported("_bragg not found")


def pyf(v):
    if v is None or (isinstance(v, float) and v != v):
        return "PNaN"
    fr = Fraction(v)
    return f"(PVal ({fr.numerator} # {fr.denominator}))"


def gen(ctx: Ctx):
    src = (SRC / "becke.py").read_text()
    ms = find_methods(ast.parse(src), "BeckeWeights")
    for m in ("_switch_func", "_calculate_alpha", "generate_weights", "compute_atom_weight", "compute_weights", "__call__"):
        if m not in ms:
            raise Unsupported(f"method {m} missing")
    check_pins(ms)
    bragg, ub = extract_bragg()
    if len(bragg) < 87:
        raise Unsupported("_bragg shorter than 87 entries")
    L = ["(* generated from src/grid/becke.py and src/grid/utils.py on every run; do not edit *)",
         "From Coq Require Import ZArith QArith List.", "From P Require Import C06_model_ops.", "Import ListNotations.", ""]
    L.append(tr_switch(ms["_switch_func"]))
    L.append(tr_alpha(ms["_calculate_alpha"]))
    L.append(tr_weight_body(ms["generate_weights"], "gw"))
    L.append(tr_weight_body(ms["compute_atom_weight"], "caw"))
    L.append(tr_chunk(ms["__call__"]))
    # self._radii = {Z: _bragg[Z] for Z in 1..86}   (validated against the live object in run())
    L.append("Definition bragg_table : list (Z * pyf) := [" + "; ".join(f"({zz}%Z, {pyf(bragg[zz])})" for zz in range(1, 87)) + "].\n")
    units = [ub]
    for m in ("_switch_func", "_calculate_alpha", "generate_weights", "compute_atom_weight", "__call__"):
        n = ms[m]
        units.append({"unit": f"BeckeWeights.{m}", "file": "src/grid/becke.py", "lines": [n.lineno, n.end_lineno],
                      "sha": src_sha(ast.get_source_segment(src, n))})
    ctx.gen("C06_gen.v", "\n".join(L), units)
    return bragg


# --------------------------------------------------------------------------------------------- harness
ABS_TOL = 1e-12      # oracle tolerance for exact identities evaluated in float (observed deviations <= 1e-15)
NAN_Z = [2, 10, 18, 36, 54, 85, 86]


def ql(xs) -> str:
    return "[" + "; ".join(q_bigq(float(x)) for x in xs) + "]"


def qll(rows) -> str:
    return "[" + "; ".join(ql(r) for r in rows) + "]"


def nl(xs) -> str:
    return "[" + "; ".join(f"{int(x)}%nat" for x in xs) + "]"


def tbl_term(radii: dict | None) -> str:
    t = "bragg_table"
    for zz, r in (radii or {}).items():
        t = f"(tbl_update {t} {zz}%Z {pyf(float(r))})"
    return t


def code_distances(at, pts):
    """the code's own expressions for n_p and atomic_dist"""
    n_p = np.linalg.norm(at[:, None] - pts, axis=-1)
    atomic_dist = np.linalg.norm(at[:, None] - at, axis=-1)
    return n_p, atomic_dist


def rand_rotation(rng):
    a = np.array([[rng.gauss(0, 1) for _ in range(3)] for _ in range(3)])
    qm, r = np.linalg.qr(a)
    return qm * np.sign(np.diag(r))


def make_case(ctx: Ctx, i: int, small: bool):
    """one random molecule + points + segmentation + order (+ custom radii)"""
    rng = ctx.rng
    if small:
        M = rng.choice([1, 2, 2, 3])
    else:
        M = rng.choice([1, 2, 3, 4, 4, 5, 6, 7, 8, 9, 9])
    order = rng.choice([1, 2, 3, 3, 4, 5]) if rng.random() > 0.04 else 0
    scale = rng.choice([0.8, 1.5, 2.5, 4.0])
    while True:
        at = np.array([[rng.gauss(0, scale) for _ in range(3)] for _ in range(M)])
        dm = np.linalg.norm(at[:, None] - at, axis=-1) + np.eye(M) * 10
        if dm.min() > 0.3:
            break
    nums = []
    for _ in range(M):
        r = rng.random()
        nums.append(rng.choice(NAN_Z) if r < 0.3 else rng.choice([1, 6, 7, 8]) if r < 0.55 else rng.randint(1, 86))
    nums = np.array(nums, dtype=int)
    radii = None
    r = rng.random()
    if r < 0.12:
        radii = {int(z): round(rng.uniform(0.3, 4.0), 3) for z in set(nums.tolist()) if rng.random() < 0.7}
    elif r < 0.2:
        z = int(rng.choice([int(x) for x in nums if x >= 4] or [26]))
        radii = {z: float("nan")}            # user-declared missing radius -> fallback to z-1 / z-2
        if z not in nums:
            nums[0] = z
    N = rng.choice([1, 2, 3, 5, 6, 8, 10, 12]) if not small else rng.choice([2, 3, 4])
    pts = []
    for _ in range(N):
        t = rng.random()
        if t < 0.2:
            pts.append(at[rng.randrange(M)].copy())                                  # exactly a nucleus
        elif t < 0.3:
            pts.append(at[rng.randrange(M)] + np.array([rng.gauss(0, 1e-3) for _ in range(3)]))
        elif t < 0.4:
            pts.append(np.array([rng.gauss(0, 1) for _ in range(3)]) * rng.choice([1e2, 1e4, 1e6]))   # far away
        elif t < 0.5 and M >= 2:
            a, b = rng.sample(range(M), 2)
            lam = rng.choice([0.5, rng.random(), -0.5, 1.5])
            pts.append(at[a] + lam * (at[b] - at[a]))                                # on the line through two nuclei
        else:
            pts.append(at[rng.randrange(M)] + np.array([rng.gauss(0, scale) for _ in range(3)]))
    pts = np.array(pts)
    cuts = sorted(rng.randint(0, N) for _ in range(M - 1))
    idx = np.array([0] + cuts + [N], dtype=int)
    return {"i": i, "M": M, "order": order, "at": at, "nums": nums, "radii": radii, "pts": pts, "idx": idx, "N": N}


def impl_eval(c, b=None, first=None):
    """every route of the implementation on one case; exceptions are returned, not raised.
    `b`: an existing BeckeWeights instance to reuse (histories); `first`: name of the route evaluated first."""
    from grid.becke import BeckeWeights

    out = {}
    with warnings.catch_warnings():
        warnings.simplefilter("ignore")
        if b is None:
            b = BeckeWeights(radii=c["radii"], order=c["order"])
        at, nums, pts, idx, M = c["at"], c["nums"], c["pts"], c["idx"], c["M"]
        jobs = [("call", lambda: b(pts, at, nums, idx)),
                ("gen", lambda: b.generate_weights(pts, at, nums, pt_ind=idx)),
                ("comp", lambda: b.compute_weights(pts, at, nums, pt_ind=idx))]
        for A in range(M):
            jobs.append((("atom", A), lambda A=A: b.compute_atom_weight(pts, at, nums, A)))
            jobs.append((("gsel", A), lambda A=A: b.generate_weights(pts, at, nums, select=A)))
            jobs.append((("csel", A), lambda A=A: b.compute_weights(pts, at, nums, select=A)))
        if first is not None:
            jobs.sort(key=lambda j: 0 if (j[0] == first or (isinstance(j[0], tuple) and j[0][0] == first)) else 1)
        for name, f in jobs:
            try:
                out[name] = np.asarray(f(), dtype=float)
            except Exception as e:  # noqa: BLE001
                out[name] = e
    return out


def report(ctx: Ctx, obligation, key, observed, text, replay):
    """a failure of the PROPERTY found on the implementation: collected first; run() decides at the end whether it is
    reported on its own or as the replay of a broken translator / theorem (Ctx.broken_tie)"""
    ctx.c06_cands.append((obligation, key, observed, text, replay))


def reference(c, cutoff=0.45):
    """independent oracle: Becke weights from the same float distances in 60-digit arithmetic (mpmath)"""
    import mpmath as mp

    from grid.becke import BeckeWeights

    mp.mp.dps = 60
    with warnings.catch_warnings():
        warnings.simplefilter("ignore")
        rd = BeckeWeights(radii=c["radii"])._radii

    def rad(z):
        for k in (z, z - 1, z - 2):
            v = rd[k]
            if v == v and (k == z or v != 0):
                return mp.mpf(float(v))
        return mp.mpf(0)

    n_p, Rm = code_distances(c["at"], c["pts"])
    M, N = n_p.shape
    r = [rad(int(z)) for z in c["nums"]]
    W = [[None] * N for _ in range(M)]
    cm = mp.mpf(cutoff)
    for p in range(N):
        P = []
        for A in range(M):
            pr = mp.mpf(1)
            for B in range(M):
                if A == B:
                    continue
                u = (r[A] - r[B]) / (r[A] + r[B])
                a = u / (u * u - 1)
                a = min(max(a, -cm), cm)
                mu = (mp.mpf(float(n_p[A, p])) - mp.mpf(float(n_p[B, p]))) / mp.mpf(float(Rm[A, B]))
                x = mu + a * (1 - mu * mu)
                for _ in range(c["order"]):
                    x = mp.mpf(3) / 2 * x - x ** 3 / 2
                pr *= (1 - x) / 2
            P.append(pr)
        S = sum(P)
        for A in range(M):
            W[A][p] = float(P[A] / S)
    return np.array(W)


def owner_of(idx, N):
    own = np.full(N, -1, dtype=int)
    for A in range(len(idx) - 1):
        own[idx[A]:idx[A + 1]] = A
    return own


def case_key(c):
    return f"case{c['i']}:M{c['M']}:k{c['order']}:Z{'-'.join(map(str, c['nums'].tolist()))}"


def case_replay(c, extra=None):
    d = {"atcoords": c["at"].tolist(), "atnums": c["nums"].tolist(), "points": c["pts"].tolist(),
         "indices": c["idx"].tolist(), "order": c["order"], "radii": c["radii"],
         "reproduce": "b = BeckeWeights(radii, order); b(points, atcoords, atnums, indices); b.generate_weights(points, atcoords, atnums, pt_ind=indices); "
                      "b.compute_weights(...); b.compute_atom_weight(points, atcoords, atnums, A)"}
    if c.get("hist") is not None:
        d["history_before"] = c["hist"]
        d["first_route"] = c.get("first")
        d["reproduce"] = ("ONE instance b = BeckeWeights(radii, order); arrays atcoords/atnums are created once and edited IN PLACE to the values of each "
                          "entry of history_before (evaluating all routes each time), then to atcoords/atnums of this record; " + d["reproduce"])
    d.update(extra or {})
    return d


def oracle_checks(ctx: Ctx, c, out, budget):
    """property oracles directly on the implementation; returns number of failures reported for this case"""
    from grid.becke import BeckeWeights

    M, N, idx = c["M"], c["N"], c["idx"]
    nfail = 0

    def fail(kind, observed, text, extra=None):
        nonlocal nfail
        nfail += 1
        if budget[0] > 0:
            budget[0] -= 1
            report(ctx, f"oracle_{kind}", f"{kind}:{case_key(c)}", observed, text, case_replay(c, extra))

    for k, v in out.items():
        if isinstance(v, Exception):
            fail("crash", type(v).__name__, f"route {k} raised {type(v).__name__}: {v}", {"route": str(k)})
            return nfail
    for k, v in out.items():
        if v.shape != (N,):
            fail("shape", list(v.shape), f"route {k} returned shape {v.shape}, expected ({N},)", {"route": str(k)})
            return nfail
    for k, v in out.items():
        if not np.all(np.isfinite(v)):
            fail("finite", None, f"route {k} returns nan/inf on a geometry with distinct atoms: {v.tolist()}", {"route": str(k)})
            return nfail
    W = np.array([out[("atom", A)] for A in range(M)])
    if not np.all(np.isfinite(W)):
        fail("finite", None, "a weight is nan/inf on a geometry with distinct atoms", {"weights": W.tolist()})
        return nfail
    s = W.sum(axis=0)
    j = int(np.argmax(np.abs(s - 1)))
    if abs(s[j] - 1) > ABS_TOL:
        fail("sum", float(s[j]), f"sum of the Becke weights of all atoms at point {j} is {s[j]!r}, not 1", {"point": j})
    if W.min() < -ABS_TOL or W.max() > 1 + ABS_TOL:
        A, j = np.unravel_index(int(np.argmax(np.maximum(-W, W - 1))), W.shape)
        fail("range", float(W[A, j]), f"weight of atom {A} at point {j} is {W[A, j]!r}, outside [0,1]", {"atom": int(A), "point": int(j)})
    for j in range(N):
        for A in range(M):
            if np.array_equal(c["pts"][j], c["at"][A]):
                exp = np.zeros(M)
                exp[A] = 1
                if np.max(np.abs(W[:, j] - exp)) > ABS_TOL:
                    fail("nucleus", W[:, j].tolist(), f"weights at the nucleus of atom {A} are {W[:, j].tolist()}, expected {exp.tolist()}",
                         {"point": j, "atom": A})
    own = owner_of(idx, N)
    exp_seg = np.array([W[own[j], j] if own[j] >= 0 else 0.0 for j in range(N)])
    for name in ("call", "gen", "comp"):
        d = np.abs(out[name] - exp_seg)
        if d.max() > ABS_TOL:
            j = int(np.argmax(d))
            fail("routes", [float(out[name][j]), float(exp_seg[j])],
                 f"route {name} at point {j} (segment of atom {own[j]}) gives {out[name][j]!r}, per-atom route gives {exp_seg[j]!r}",
                 {"route": name, "point": j})
    for A in range(M):
        for name in ("gsel", "csel"):
            d = np.abs(out[(name, A)] - W[A])
            if d.max() > ABS_TOL:
                j = int(np.argmax(d))
                fail("routes", [float(out[(name, A)][j]), float(W[A, j])],
                     f"route {name}(select={A}) at point {j} gives {out[(name, A)][j]!r}, compute_atom_weight gives {W[A, j]!r}",
                     {"route": name, "atom": A, "point": j})
    # rigid motion and relabeling (float distances change by rounding: tolerance 1e-8)
    with warnings.catch_warnings():
        warnings.simplefilter("ignore")
        b = BeckeWeights(radii=c["radii"], order=c["order"])
        qm, t = rand_rotation(ctx.rng), np.array([ctx.rng.gauss(0, 3) for _ in range(3)])
        near = np.linalg.norm(c["pts"], axis=1) < 1e3          # far points lose absolute position accuracy
        if near.any():
            at2, pts2 = c["at"] @ qm.T + t, c["pts"][near] @ qm.T + t
            try:
                W2 = np.array([b.compute_atom_weight(pts2, at2, c["nums"], A) for A in range(M)])
                d = np.abs(W2 - W[:, near])
                if not np.all(np.isfinite(W2)) or d.max() > 1e-8:
                    fail("rigid", float(np.nanmax(d)), f"weights change by {np.nanmax(d)!r} under a rotation+translation of atoms and points",
                         {"rotation": qm.tolist(), "translation": t.tolist()})
            except Exception as e:  # noqa: BLE001
                fail("crash", type(e).__name__, f"compute_atom_weight raised {e} on the rotated system")
        perm = list(range(M))
        ctx.rng.shuffle(perm)
        try:
            W3 = np.array([b.compute_atom_weight(c["pts"], c["at"][perm], c["nums"][perm], A) for A in range(M)])
            d = np.abs(W3 - W[perm])
            if not np.all(np.isfinite(W3)) or d.max() > 1e-10:
                fail("relabel", float(np.nanmax(d)), f"weights change by {np.nanmax(d)!r} under relabeling {perm}", {"perm": perm})
        except Exception as e:  # noqa: BLE001
            fail("crash", type(e).__name__, f"compute_atom_weight raised {e} on the relabeled system")
    return nfail


def coq_case(c, out, ops, atoms):
    n_p, Rm = code_distances(c["at"], c["pts"])
    M, N = c["M"], c["N"]
    z = "[" + "; ".join(f"{int(v)}%Z" for v in c["nums"]) + "]"
    return (f"run_case {ops} {c['order']}%nat {M}%nat {tbl_term(c['radii'])} {z} {qll(Rm)} {qll(n_p.T)} {nl(c['idx'])} "
            f"{ql(out['call'])} {ql(out['gen'])} {ql(out['comp'])} {nl(atoms)} "
            f"{qll([out[('atom', A)] for A in atoms])} {qll([out[('gsel', A)] for A in atoms])} {qll([out[('csel', A)] for A in atoms])}")


HDR = ("From Coq Require Import ZArith QArith List Bool.\nFrom Bignums Require Import BigQ.\n"
       "From P Require Import C06_model_ops C06_gen C06_model.\nImport ListNotations.\n")


def est_cost(m):
    """rough vm_compute seconds of one model case (measured: exact 1.1e-3 * M^2 N 4^k, rounded 4.7e-4 * M^2 N k per route)"""
    c, _, kind = m
    base = c["M"] ** 2 * c["N"]
    if kind == "rounded":
        return 4.7e-4 * base * max(c["order"], 1) * 6
    return 1.1e-3 * base * 4 ** c["order"] * (6 if kind == "exact" else 1.2)


def balance(exprs, meta, nbins):
    """reorder the cases so that consecutive shards of equal size have similar cost (snake distribution)"""
    order = sorted(range(len(exprs)), key=lambda i: -est_cost(meta[i]))
    bins = [[] for _ in range(nbins)]
    for r, i in enumerate(order):
        k = r % (2 * nbins)
        bins[k if k < nbins else 2 * nbins - 1 - k].append(i)
    flat = [i for b in bins for i in b]
    return [exprs[i] for i in flat], [meta[i] for i in flat], max(1, -(-len(exprs) // nbins))


def diagnose(c, out):
    """which route/point deviates from the 60-digit reference (for the failure text)"""
    try:
        W = reference(c)
    except Exception as e:  # noqa: BLE001
        return f"(reference oracle failed: {e})", None
    own = owner_of(c["idx"], c["N"])
    worst = (0.0, "")
    for k, v in out.items():
        if isinstance(v, Exception) or v.shape != (c["N"],):
            return f"route {k} raised/shape", None
        for j in range(c["N"]):
            A = k[1] if isinstance(k, tuple) else own[j]
            e = W[A, j] if A >= 0 else 0.0
            d = abs(v[j] - e)
            if d > worst[0]:
                worst = (d, f"route {k} point {j} atom {A}: implementation {v[j]!r}, reference {e!r}")
    return worst[1] or "(implementation agrees with the reference oracle: the Coq model deviates)", worst[0]


def run(ctx: Ctx):
    import importlib

    import grid.becke as gb
    import grid.utils as gu

    importlib.reload(gu)
    importlib.reload(gb)
    ctx.c06_cands = []
    gen_err, bragg, status, model_ok = None, None, {}, False
    try:
        bragg = gen(ctx)
    except Exception as e:  # translator fails closed: the search below still runs on the implementation
        gen_err = e
    if gen_err is None:
        # translation validation of the table: the live default dictionary is {Z: _bragg[Z]} for Z = 1..86
        with warnings.catch_warnings():
            warnings.simplefilter("ignore")
            live = gb.BeckeWeights()._radii
        same = sorted(live) == list(range(1, 87)) and all(
            (live[zz] != live[zz] and bragg[zz] is None) or (bragg[zz] is not None and float(live[zz]) == bragg[zz]) for zz in range(1, 87))
        if not same:
            ctx.fail("gen_tables", "table:_radii", None, "BeckeWeights()._radii is not {Z: _bragg[Z] for Z in 1..86} as extracted from utils.py", found_input=False)
        ctx.copy_coq("C06")
        status = ctx.coq_build()
        ctx.register_props(status)
        model_ok = all(status.get(f, False) for f in ("C06_model_ops.v", "C06_gen.v", "C06_model.v"))

    # ------------------------------------------------------------------ cases: implementation + oracles
    n_main = 50 if ctx.quick else 400
    n_small = 30 if ctx.quick else 150
    cases = [make_case(ctx, i, False) for i in range(n_main)] + [make_case(ctx, n_main + i, True) for i in range(n_small)]
    budget = [6]
    outs, oracle_failed = [], set()
    for c in cases:
        out = impl_eval(c)
        outs.append(out)
        if oracle_checks(ctx, c, out, budget):
            oracle_failed.add(c["i"])
        nchunks = -(-c["N"] // max(1, (10 * c["N"]) // c["M"] ** 2))
        ctx.count(f"atoms={c['M']}")
        ctx.count(f"order={c['order']}")
        ctx.count("chunks>1" if nchunks > 1 else "chunks=1")
        ctx.count("has_nan_radius_element" if any(int(zz) in NAN_Z for zz in c["nums"]) else "all_radii_tabulated")
        if c["radii"]:
            ctx.count("custom_radii")
    ctx.sample({k: (v.tolist() if hasattr(v, "tolist") else v) for k, v in cases[0].items()})

    # ------------------------------------------------------------------ correspondence with the Coq model
    if model_ok:
        exprs, meta = [], []
        for c, out in zip(cases, outs):
            if any(isinstance(v, Exception) or v.shape != (c["N"],) or not np.all(np.isfinite(v)) for v in out.values()):
                continue  # already reported by the oracles; nothing to compare
            atoms = sorted(ctx.rng.sample(range(c["M"]), min(c["M"], 2 if c["M"] < 5 else 1)))
            exprs.append(coq_case(c, out, "QOpsR", atoms))
            meta.append((c, out, "rounded"))
            ctx.case((case_key(c), "rounded"), traces=c["N"] * (3 + 3 * len(atoms)))
            cost = c["M"] ** 2 * 4 ** c["order"] * c["N"]
            if cost <= (500 if ctx.quick else 1200):
                exprs.append(coq_case(c, out, "QOps", atoms[:1]))
                meta.append((c, out, "exact"))
                ctx.case((case_key(c), "exact"), traces=c["N"] * 6)
                n_p, Rm = code_distances(c["at"], c["pts"])
                z = "[" + "; ".join(f"{int(v)}%Z" for v in c["nums"]) + "]"
                exprs.append(f"run_exact_vs_rounded {c['order']}%nat {c['M']}%nat {tbl_term(c['radii'])} {z} {qll(Rm)} {qll(n_p.T)} {nl(c['idx'])}")
                meta.append((c, out, "exact-vs-rounded"))
                ctx.case((case_key(c), "xr"))
        ctx.count("model_cases_exact", sum(1 for m in meta if m[2] == "exact"))
        ctx.count("model_cases_rounded", sum(1 for m in meta if m[2] == "rounded"))
        exprs, meta, shard = balance(exprs, meta, 16 if ctx.quick else 96)
        bad = ctx.coq_bool_cases("C06_cases", HDR, exprs, shard=shard, timeout=2400)
        rep = 0
        for bi in bad:
            c, out, kind = meta[bi]
            if kind == "exact-vs-rounded":
                ctx.fail("model_rounding", f"xr:{case_key(c)}", None,
                         "the 2^-256-rounded bigQ instance deviates from the exact bigQ instance of the model", case_replay(c), found_input=False)
                continue
            if c["i"] in oracle_failed or rep >= 4:
                continue  # a concrete failing input for the property was already reported for this geometry
            rep += 1
            txt, dev = diagnose(c, out)
            ctx.fail("corr_becke", f"model:{case_key(c)}", dev,
                     f"Coq model ({kind} bigQ) and implementation disagree beyond 1e-10 on {case_key(c)}; {txt}; "
                     "no violation of the partition-of-unity property itself found on this geometry", case_replay(c), found_input=False)
        if meta:
            s = meta[len(meta) // 2]
            ctx.sample({"case": case_key(s[0]), "instance": s[2], "impl_call": s[1]["call"].tolist()})

    # ------------------------------------------------------------------ many more geometries: oracles only
    n_extra = 800 if ctx.quick else 8000
    for i in range(n_extra):
        c = make_case(ctx, 100000 + i, False)
        out = impl_eval(c)
        oracle_checks(ctx, c, out, budget)
        ctx.case(("oracle", i))
    ctx.count("oracle_only_geometries", n_extra)
    # ------------------------------------------------------------------ undefined-radius elements at every position
    directed_cases(ctx, budget)
    # ------------------------------------------------------------------ histories on ONE BeckeWeights instance
    history_cases(ctx, budget)
    # ------------------------------------------------------------------ explicit `select` with a segment table
    select_cases(ctx, cases, model_ok, budget)
    # ------------------------------------------------------------------ Hirshfeld
    hirshfeld_cases(ctx, model_ok, budget)

    # ------------------------------------------------------------------ verdict
    cands = [(k, o, t, r) for (_, k, o, t, r) in ctx.c06_cands]
    broken = [n for n, ob in ctx.obligations.items() if ob["status"] != "discharged"]
    if gen_err is not None:
        # the translator fails closed: the concrete failing input found by the search (if any) is the replay
        ctx.broken_tie("translator(becke.py)", f"{type(gen_err).__name__}: {gen_err}", cands)
    elif not model_ok:
        ctx.broken_tie("model_build", "the generated leaves / model no longer compile: " +
                       "; ".join(f"{k}: {ctx.logs.get(k, '')[-300:]}" for k, v in status.items() if not v and "proofs" not in k and "props" not in k),
                       cands)
    elif broken:
        for n in broken:
            ctx.broken_tie(n, f"theorem {n} ({ctx.obligations[n]['file']}) no longer checks", cands)
    else:
        for ob, k, o, t, r in ctx.c06_cands:
            ctx.fail(ob, k, o, t, r)

    ctx.cov["rule"] = (
        "random molecules of 1-9 atoms (Z uniformly from 1..86, 30% forced to elements with undefined Bragg radius, optional custom "
        "radii incl. user-declared nan), points at nuclei / near nuclei / on internuclear lines / far away (1e2..1e6), orders 0-5, random "
        "monotone segment tables with empty segments; for every geometry ALL routes of the implementation are evaluated "
        "(__call__, generate_weights, compute_weights with pt_ind; the three per-atom routes for every atom) and checked by property "
        "oracles (sum=1, [0,1], nucleus values, route equality, rigid motion, relabeling); a subset is compared with the Coq model "
        "evaluated by vm_compute on the exact rational values of the code's own float distances (tolerance 1e-10 relative + 1e-13). "
        "Directed: 15 molecules with undefined-radius elements (He..Rn, At) in every ordering, points = all nuclei (+ relabeling across orderings). "
        "Histories: ONE BeckeWeights instance evaluated, atcoords/atnums edited in place (same array objects), evaluated again (3 steps, random first "
        "route), each step checked by the oracles and against a fresh instance. Explicit select: generate_weights and compute_weights with the same "
        "select/pt_ind against the per-atom route and the model. If the translator fails closed or a theorem breaks, the search still runs and its first "
        "failing input (not a listed known finding) is the replay (Ctx.broken_tie). "
        "distinct = (geometry, model instance)")
    ctx.trusted += [
        "translator tools/props/c06.py (ast -> NumOps terms) for _switch_func, _calculate_alpha, the v_pp/s_ab/radius lines, chunk_size, _bragg; "
        "the tensor lines (n_p, n_n_p, atomic_dist, mu_p_n_n, np.prod) are hand-modelled and their source text is pinned",
        "hand model of slicing/accumulation in generate_weights / compute_weights / __call__ / HirshfeldWeights.__call__, tied by correspondence",
        "distance data is an INPUT of the model: computed by the harness with the code's expressions np.linalg.norm(atcoords[:, None] - points, axis=-1) "
        "and np.linalg.norm(atcoords[:, None] - atcoords, axis=-1); the Euclidean hypotheses (triangle inequality, positive separation) are proved for real "
        "coordinates, float distances satisfy them up to rounding",
        "bulk correspondence uses bigQ arithmetic rounded to 2^-256 after every operation (instance QOpsR); exact bigQ (QOps) on small cases; "
        "QOpsR is cross-checked against QOps on those cases",
        "tolerances: model vs implementation 1e-10 relative + 1e-13 absolute; oracles 1e-12 (exact identities), 1e-8 rigid motion, 1e-10 relabeling",
        "Hirshfeld pro-atom spline (scipy CubicSpline) is a Section variable; the harness passes its values at the sampled distances as a finite table "
        "and validates that generate_proatom depends on the distance only",
        "60-digit mpmath re-implementation of the Becke formula (diagnosis of model/implementation disagreements only)",
    ]
    ctx.assumptions += [
        "atoms at pairwise distinct positions (nan-driven control flow for coincident atoms is outside the property)",
        "atomic numbers 1..86 with the default Bragg table or finite positive custom radii; float overflow of distances (|r| > 1e150) not considered",
        "indices is a NumPy integer array of length M+1 (monotone for the ownership theorem; the chunking theorem needs no monotonicity)",
    ]


def select_cases(ctx: Ctx, cases, model_ok, budget):
    """generate_weights AND compute_weights with the same explicit select + segment table (theorem routes_agree)"""
    from grid.becke import BeckeWeights

    exprs, meta = [], []
    fixed = {"i": "H2", "M": 2, "order": 3, "at": np.array([[0.0, 0.0, 0.0], [0.0, 0.0, 1.4]]), "nums": np.array([1, 1]), "radii": None,
             "pts": np.array([[0.0, 0.0, 0.0], [0.0, 0.0, 1.4]]), "idx": np.array([0, 1, 2]), "N": 2, "sel": [1, 0]}
    todo = [fixed]
    for c in cases:
        if c["M"] >= 2 and len(todo) < (26 if ctx.quick else 250):
            M = c["M"]
            todo.append(dict(c, sel=[ctx.rng.randrange(M) for _ in range(M)] if ctx.rng.random() < 0.5 else ctx.rng.sample(range(M), M)))
    for c in todo:
        M, N, idx, sel = c["M"], c["N"], c["idx"], c["sel"]
        with warnings.catch_warnings():
            warnings.simplefilter("ignore")
            b = BeckeWeights(radii=c["radii"], order=c["order"])
            try:
                g = np.asarray(b.generate_weights(c["pts"], c["at"], c["nums"], select=sel, pt_ind=idx), dtype=float)
                cw = np.asarray(b.compute_weights(c["pts"], c["at"], c["nums"], select=sel, pt_ind=idx), dtype=float)
                W = np.array([b.compute_atom_weight(c["pts"], c["at"], c["nums"], A) for A in range(M)])
            except Exception as e:  # noqa: BLE001
                if budget[0] > 0:
                    budget[0] -= 1
                    report(ctx, "oracle_crash", f"select-crash:{case_key(c)}:{sel}", type(e).__name__,
                           f"generate_weights / compute_weights(select={sel}, pt_ind=indices) raised {type(e).__name__}: {e}", case_replay(c, {"select": sel}))
                continue
        own = owner_of(idx, N)
        exp = np.array([W[sel[own[j]], j] for j in range(N)])
        ctx.case(("select", case_key(c), tuple(sel)))
        badr = [nm for nm, v in (("generate_weights", g), ("compute_weights", cw))
                if v.shape != (N,) or not np.all(np.isfinite(v)) or np.max(np.abs(v - exp)) > ABS_TOL]
        if badr:
            if budget[0] > 0:
                budget[0] -= 1
                report(ctx, "oracle_routes", f"select:{case_key(c)}:{sel}", g.tolist() + cw.tolist(),
                       f"{' and '.join(badr)}(select={sel}, pt_ind={idx.tolist()}) differ from the per-atom weights of the selected atoms on their "
                       f"segments: generate_weights {g.tolist()}, compute_weights {cw.tolist()}, per-atom route {exp.tolist()}",
                       case_replay(c, {"select": sel, "expected": exp.tolist()}))
            continue
        if model_ok and c["M"] ** 2 * c["N"] <= 400:
            n_p, Rm = code_distances(c["at"], c["pts"])
            z = "[" + "; ".join(f"{int(v)}%Z" for v in c["nums"]) + "]"
            exprs.append(f"run_select QOpsR {c['order']}%nat {M}%nat {tbl_term(c['radii'])} {z} {qll(Rm)} {qll(n_p.T)} {nl(sel)} {nl(idx)} {ql(g)} {ql(cw)}")
            meta.append((c, sel))
    if exprs:
        for bi in ctx.coq_bool_cases("C06_select", HDR, exprs, shard=max(2, len(exprs) // 16 + 1))[:3]:
            c, sel = meta[bi]
            ctx.fail("corr_select", f"model-select:{case_key(c)}:{sel}", None,
                     f"Coq model and implementation of generate_weights / compute_weights(select={sel}, pt_ind=indices) disagree; the oracle found no property violation",
                     case_replay(c, {"select": sel}), found_input=False)


DIRECTED = [[8, 86], [9, 86, 9], [84, 85, 86], [86, 84], [2, 1], [10, 18], [9, 54, 9], [36, 9, 9], [1, 85], [54, 86], [86, 2, 10],
            [2, 10, 18, 36], [54, 85, 86, 1], [86, 86, 8], [85, 85, 86]]


def directed_cases(ctx: Ctx, budget):
    """molecules with undefined-radius elements (He Ne Ar Kr Xe At Rn) at EVERY position: all orderings of each
    multiset; points = all nuclei + a few others; oracles: nucleus values, sum, range, routes, rigid motion, and the
    weights of one ordering against another (relabeling)"""
    import itertools

    rng = ctx.rng
    for mi, zs in enumerate(DIRECTED):
        M = len(zs)
        while True:
            at0 = np.array([[rng.gauss(0, 2.5) for _ in range(3)] for _ in range(M)])
            if (np.linalg.norm(at0[:, None] - at0, axis=-1) + np.eye(M) * 10).min() > 1.0:
                break
        extra = np.array([at0[rng.randrange(M)] + np.array([rng.gauss(0, 2.0) for _ in range(3)]) for _ in range(3)])
        pts = np.vstack([at0, extra])
        N = len(pts)
        perms = sorted(set(itertools.permutations(range(M))))
        if len(perms) > 6:
            perms = [perms[0]] + rng.sample(perms[1:], 5 if ctx.quick else 11)
        base = None
        order = rng.choice([1, 2, 3, 3, 4])
        for perm in perms:
            perm = list(perm)
            cuts = sorted(rng.randint(0, N) for _ in range(M - 1))
            c = {"i": f"dir{mi}", "M": M, "order": order, "at": at0[perm].copy(), "nums": np.array(zs, dtype=int)[perm], "radii": None,
                 "pts": pts, "idx": np.array([0] + cuts + [N], dtype=int), "N": N}
            out = impl_eval(c)
            ctx.case(("directed", mi, tuple(perm)))
            if oracle_checks(ctx, c, out, budget):
                continue
            W = np.array([out[("atom", A)] for A in range(M)])
            un = np.empty_like(W)
            un[perm] = W                      # back to the labels of the first ordering
            if base is None:
                base = (un, c)
            elif np.max(np.abs(un - base[0])) > 1e-10 and budget[0] > 0:
                budget[0] -= 1
                d = float(np.max(np.abs(un - base[0])))
                report(ctx, "oracle_relabel", f"relabel:{case_key(c)}", d,
                       f"atoms {c['nums'].tolist()} vs the same molecule listed as {base[1]['nums'].tolist()}: the weights of the same atoms differ by {d!r}",
                       case_replay(c, {"other_order_atnums": base[1]["nums"].tolist(), "other_order_atcoords": base[1]["at"].tolist()}))
    ctx.count("directed_molecules", len(DIRECTED))


def history_cases(ctx: Ctx, budget):
    """ONE BeckeWeights instance along a history: evaluate, edit atcoords and/or atnums IN PLACE (same array objects),
    evaluate again; every step is checked by the property oracles and against a fresh instance on copies"""
    from grid.becke import BeckeWeights

    rng = ctx.rng
    nh = 24 if ctx.quick else 240
    for hi in range(nh):
        c = make_case(ctx, 200000 + hi, False)
        if c["M"] < 2:
            continue
        c["i"] = f"hist{hi}"
        first = rng.choice(["call", "gen", "comp", "atom", "gsel", "csel"])
        with warnings.catch_warnings():
            warnings.simplefilter("ignore")
            b = BeckeWeights(radii=c["radii"], order=c["order"])
        hist = []
        for step in range(3):
            if step > 0:
                kind = rng.choice(["coords", "coords", "nums", "both"])
                j = rng.randrange(c["M"])
                if kind in ("coords", "both"):
                    c["at"][j] += np.array([rng.gauss(0, 0.8) for _ in range(3)])        # in place: same array object
                if kind in ("nums", "both"):
                    c["nums"][j] = rng.choice([1, 6, 8, 2, 17, 26, 55, 86, 35])            # in place
                dm = np.linalg.norm(c["at"][:, None] - c["at"], axis=-1) + np.eye(c["M"]) * 10
                if dm.min() < 0.3:
                    break
                # points follow the new geometry: nuclei exactly, plus points near the atoms
                c["pts"] = np.array([c["at"][rng.randrange(c["M"])].copy() if rng.random() < 0.4 else
                                     c["at"][rng.randrange(c["M"])] + np.array([rng.gauss(0, 1.5) for _ in range(3)]) for _ in range(c["N"])])
            hist.append({"atcoords": c["at"].tolist(), "atnums": c["nums"].tolist(), "points": c["pts"].tolist(), "indices": c["idx"].tolist()})
            c["hist"] = hist[:-1]
            c["first"] = first
            out = impl_eval(c, b=b, first=first)
            ctx.case(("history", hi, step))
            if oracle_checks(ctx, c, out, budget):
                break
            fresh = impl_eval(dict(c, at=c["at"].copy(), nums=c["nums"].copy()))
            worst = None
            for k, v in out.items():
                f = fresh[k]
                if isinstance(f, Exception) or isinstance(v, Exception):
                    continue
                d = float(np.max(np.abs(v - f))) if v.shape == f.shape else float("inf")
                if d > ABS_TOL and (worst is None or d > worst[0]):
                    worst = (d, k)
            if worst and budget[0] > 0:
                budget[0] -= 1
                report(ctx, "oracle_history", f"history:{case_key(c)}:step{step}", worst[0],
                       f"route {worst[1]} on a BeckeWeights instance that was used before (atcoords/atnums edited in place since) differs by {worst[0]!r} "
                       f"from a fresh instance on the same inputs (step {step} of the history)", case_replay(c))
                break
    ctx.count("histories", nh)


def hirshfeld_cases(ctx: Ctx, model_ok, budget):
    from grid.hirshfeld import HirshfeldWeights

    rng = ctx.rng
    exprs, meta = [], []
    for i in range(40 if ctx.quick else 400):
        M = rng.randint(1, 5)
        while True:
            at = np.array([[rng.gauss(0, 1.5) for _ in range(3)] for _ in range(M)])
            if (np.linalg.norm(at[:, None] - at, axis=-1) + np.eye(M) * 10).min() > 0.5:
                break
        nums = np.array([rng.choice([1, 6, 7, 8]) for _ in range(M)], dtype=int)
        N = rng.randint(1, 9)
        pts = np.array([at[rng.randrange(M)] + (0 if rng.random() < 0.15 else 1) * np.array([rng.gauss(0, 1.2) for _ in range(3)])
                        for _ in range(N)])
        idx = np.array([0] + sorted(rng.randint(0, N) for _ in range(M - 1)) + [N], dtype=int)
        key = f"hirshfeld{i}:Z{'-'.join(map(str, nums.tolist()))}"
        rp = {"atcoords": at.tolist(), "atnums": nums.tolist(), "points": pts.tolist(), "indices": idx.tolist(),
              "reproduce": "HirshfeldWeights()(points, atcoords, atnums, indices)"}
        ctx.case(("hirshfeld", i))
        try:
            with warnings.catch_warnings():
                warnings.simplefilter("ignore")
                w = np.asarray(HirshfeldWeights()(pts, at, nums, idx), dtype=float)
                pro = np.array([HirshfeldWeights.generate_proatom(pts, at[A], nums[A]) for A in range(M)])
                dist = np.array([np.linalg.norm(pts[:, None] - at[A], axis=-1).flatten() for A in range(M)])
                # oracle hypothesis: the pro-atom density is a function of (element, distance) only
                pro2 = np.array([HirshfeldWeights._get_proatom_density(nums[A], dist[A]) for A in range(M)])
                # all atoms' weights at all points through the public call (atom A owns every point)
                Wall = np.array([HirshfeldWeights()(pts, at, nums, np.array([0] * (A + 1) + [N] * (M - A))) for A in range(M)])
        except Exception as e:  # noqa: BLE001
            if budget[0] > 0:
                budget[0] -= 1
                report(ctx, "oracle_crash", f"crash:{key}", type(e).__name__, f"HirshfeldWeights raised {e}", rp)
            continue
        bad = None
        tot = pro.sum(axis=0)
        if not np.array_equal(pro, pro2):
            bad = ("hirshfeld_oracle", "generate_proatom is not spline(distance)")
        elif np.all(tot > 1e-9):
            own = owner_of(idx, N)
            share = np.array([pro[own[j], j] / tot[j] for j in range(N)])
            if w.shape != (N,) or np.max(np.abs(w - share)) > 1e-12 * max(1.0, np.max(np.abs(share))):
                bad = ("hirshfeld_share", f"HirshfeldWeights()(...) = {w.tolist()} is not the pro-atom density share {share.tolist()}")
            elif np.max(np.abs(Wall.sum(axis=0) - 1)) > 1e-10:
                bad = ("hirshfeld_sum", f"Hirshfeld weights of all atoms sum to {Wall.sum(axis=0).tolist()}, not 1")
        if bad:
            if budget[0] > 0:
                budget[0] -= 1
                report(ctx, f"oracle_{bad[0]}", f"{bad[0]}:{key}", w.tolist(), bad[1], rp)
            continue
        if model_ok and np.all(tot > 1e-9):
            tab = "[" + "; ".join("[" + "; ".join(f"({q_bigq(float(dist[A, j]))}, {q_bigq(float(pro[A, j]))})" for j in range(N)) + "]" for A in range(M)) + "]"
            exprs.append(f"run_hirshfeld {M}%nat {tab} {qll(dist.T)} {nl(idx)} {ql(w)}")
            meta.append((key, rp))
    ctx.count("hirshfeld_cases", len(exprs))
    if exprs:
        for bi in ctx.coq_bool_cases("C06_hirsh", HDR, exprs, shard=max(2, len(exprs) // 16 + 1))[:3]:
            key, rp = meta[bi]
            ctx.fail("corr_hirshfeld", f"model:{key}", None,
                     "Coq model of HirshfeldWeights.__call__ and the implementation disagree; the oracle found no property violation", rp, found_input=False)


def replay(rp: dict) -> int:
    """./check C06 --replay file : re-run the implementation on the stored input and re-apply the oracles."""
    import json
    import random

    print(json.dumps({k: v for k, v in rp.items() if k not in ("traceback", "coq_log_tail")}, indent=1)[:3000])
    if "atcoords" not in rp or "points" not in rp or "order" not in rp:
        print("reproduce:", rp.get("reproduce", "(see text)"))
        return 0
    c = {"i": -1, "M": len(rp["atcoords"]), "order": rp["order"], "at": np.array(rp["atcoords"], dtype=float),
         "nums": np.array(rp["atnums"], dtype=int), "radii": {int(k): v for k, v in (rp.get("radii") or {}).items()} or None,
         "pts": np.array(rp["points"], dtype=float), "idx": np.array(rp["indices"], dtype=int), "N": len(rp["points"])}

    class Stub:
        rng = random.Random(0)
        fails = []

        def fail(self, ob, key, observed, text, replay=None, found_input=True):
            self.fails.append(text)

    st = Stub()
    st.c06_cands = []
    if rp.get("history_before") is not None:
        from grid.becke import BeckeWeights

        with warnings.catch_warnings():
            warnings.simplefilter("ignore")
            b = BeckeWeights(radii=c["radii"], order=c["order"])
        final_at, final_nums, final_pts, final_idx = c["at"].copy(), c["nums"].copy(), c["pts"], c["idx"]
        steps = rp["history_before"]
        if steps:
            c["at"], c["nums"] = np.array(steps[0]["atcoords"], dtype=float), np.array(steps[0]["atnums"], dtype=int)
        for h in steps:
            c["at"][...] = np.array(h["atcoords"], dtype=float)          # in place: the same array objects throughout
            c["nums"][...] = np.array(h["atnums"], dtype=int)
            c["pts"], c["idx"], c["N"] = np.array(h["points"], dtype=float), np.array(h["indices"], dtype=int), len(h["points"])
            impl_eval(c, b=b, first=rp.get("first_route"))
        c["at"][...] = final_at
        c["nums"][...] = final_nums
        c["pts"], c["idx"], c["N"] = final_pts, final_idx, len(final_pts)
        out = impl_eval(c, b=b, first=rp.get("first_route"))
        fresh = impl_eval(dict(c, at=c["at"].copy(), nums=c["nums"].copy()))
        for k, v in out.items():
            if not isinstance(v, Exception) and not isinstance(fresh[k], Exception) and v.shape == fresh[k].shape \
                    and np.max(np.abs(v - fresh[k])) > ABS_TOL:
                st.fails.append(f"route {k} on the reused instance differs from a fresh instance by {np.max(np.abs(v - fresh[k]))!r}")
    else:
        out = impl_eval(c)
    if rp.get("select") is not None:
        from grid.becke import BeckeWeights

        with warnings.catch_warnings():
            warnings.simplefilter("ignore")
            b2 = BeckeWeights(radii=c["radii"], order=c["order"])
            try:
                g = b2.generate_weights(c["pts"], c["at"], c["nums"], select=rp["select"], pt_ind=c["idx"])
                cw = b2.compute_weights(c["pts"], c["at"], c["nums"], select=rp["select"], pt_ind=c["idx"])
                if np.max(np.abs(np.asarray(g) - np.asarray(cw))) > ABS_TOL:
                    st.fails.append(f"generate_weights {np.asarray(g).tolist()} != compute_weights {np.asarray(cw).tolist()} for select={rp['select']}")
            except Exception as e:  # noqa: BLE001
                st.fails.append(f"explicit select raised {type(e).__name__}: {e}")
    oracle_checks(st, c, out, [100])
    st.fails += [t for (_, _, _, t, _) in st.c06_cands]
    for t in st.fails:
        print("STILL FAILS:", t)
    if not st.fails:
        print("all property oracles pass on this input now")
    return 1 if st.fails else 0
