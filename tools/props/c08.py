"""C08 — real spherical harmonics, their derivatives, solid harmonics, Cartesian<->spherical conversion.

gen:   tools/props/c08_translate.py re-translates, on every run and fail-closed, the loop body of
       generate_real_spherical_harmonics (Legendre buffer + running normalisation + rows written), the loop body of
       generate_derivative_real_spherical_harmonics (index arithmetic, cotangent convention, complex arithmetic; SciPy's
       sph_harm_y is a parameter), the element-wise formula of solid_harmonics, convert_cart_to_sph and the matrix of
       convert_derivative_from_spherical_to_cartesian into build/C08/C08_gen.v.
prove: coq/C08/*.v against the generated definitions (all l_max: output order, azimuthal factor, theta-derivative,
       periodicity, normalisation constant, solid harmonics, round trip, Jacobian, phi-derivative reduction, pole convention;
       l <= 3: closed forms, addition theorem, phi-derivative).
tie:   `interval` enclosures of the generated model at exact dyadic inputs against BOTH implementations (all (l, m) up to
       l = 6 / 10), the derivative routine, solid harmonics, convert_cart_to_sph, the gradient conversion; the SciPy oracle
       hypothesis of the phi-derivative theorems is validated against scipy.special.sph_harm_y.
search: an independent multiprecision oracle (explicit Legendre sum, mpmath, 60 digits — shares neither the recursion nor
       SciPy): values of both implementations (l <= 20 / 40), both against each other (l <= 80 / 200), addition theorem
       (l <= 30 / 60), both derivative blocks (l <= 12 / 30), solid harmonics, round trips incl. origin and z-axis; high degree: both routines at l_max = 170, 220
       (thorough: 300, 400) against each other on every row, addition theorem per degree, mpmath on the rows |m| >= l-2 and a sample.
       When the translator fails closed or proofs about generated definitions break, every broken unit is reported with the first
       failing input found by these searches (Ctx.broken_tie).
"""
from __future__ import annotations

import importlib
import json
import math
from fractions import Fraction
from math import comb, factorial

import numpy as np

from props import c08_translate as T
from vlib.core import SRC, Ctx, r_lit

MAXREP = 3
TOL = 1e-9


# ====================================================================== independent oracle (mpmath)
def _mp():
    import mpmath as mp

    mp.mp.dps = 60
    return mp


_LEG = {}


def legcoef(l, m):
    """coefficients {power: Fraction} of d^m/dx^m P_l(x) from the explicit sum (no recursion)"""
    key = (l, m)
    if key not in _LEG:
        c = {}
        for k in range(l // 2 + 1):
            p = l - 2 * k
            if p < m:
                continue
            a = Fraction((-1) ** k * comb(l, k) * comb(2 * l - 2 * k, l), 2 ** l)
            for j in range(m):
                a *= p - j
            c[p - m] = a
        _LEG[key] = c
    return _LEG[key]


def o_norm(mp, l, am):
    n = mp.sqrt(mp.mpf(2 * l + 1) / (4 * mp.pi) * mp.mpf(factorial(l - am)) / factorial(l + am))
    return n * (mp.sqrt(2) if am > 0 else 1)


def o_Q(mp, l, am, x, deriv=0):
    """d^deriv/dx^deriv of (d^am/dx^am P_l)(x)"""
    tot = mp.mpf(0)
    for p, v in legcoef(l, am).items():
        if p < deriv:
            continue
        f = 1
        for j in range(deriv):
            f *= p - j
        tot += mp.mpf(v.numerator) / v.denominator * f * x ** (p - deriv)
    return tot


def o_F(mp, l, am, ph):
    """polar factor N_lm sin^m(phi) (d^m P_l)(cos phi) (signed sine: analytic in phi, no Condon-Shortley phase)"""
    if am > l:
        return mp.mpf(0)
    return o_norm(mp, l, am) * mp.sin(ph) ** am * o_Q(mp, l, am, mp.cos(ph))


def o_dF(mp, l, am, ph):
    if am > l:
        return mp.mpf(0)
    s, c = mp.sin(ph), mp.cos(ph)
    a = am * s ** (am - 1) * c * o_Q(mp, l, am, c) if am > 0 else 0
    return o_norm(mp, l, am) * (a - s ** (am + 1) * o_Q(mp, l, am, c, 1))


def o_az(mp, m, th):
    return mp.cos(m * th) if m > 0 else (mp.sin(-m * th) if m < 0 else mp.mpf(1))


def o_Y(mp, l, m, th, ph):
    return o_F(mp, l, abs(m), ph) * o_az(mp, m, th)


def m_order(l):
    return [0] + [s * x for x in range(1, l + 1) for s in (1, -1)]


def row(l, m):
    return l * l + (2 * m - 1 if m > 0 else 2 * (-m))


def lm_of(i):
    l = math.isqrt(i)
    return l, m_order(l)[i - l * l]


# ====================================================================== inputs
def dy(x, bits=20):
    """nearby dyadic with a short literal"""
    return float(Fraction(round(x * 2 ** bits), 2 ** bits))


def structured_angles(rng, nrand):
    pi = math.pi
    a = [("pole0", 0.3125, 0.0), ("pole0-negtheta", -2.5, 0.0), ("polepi", 1.0, pi), ("polepi-bigtheta", 7.5, pi),
         ("equator", 0.6875, pi / 2), ("equator-thetapi", pi, pi / 2), ("theta-negative", -2.5, 1.125),
         ("theta>2pi", 7.90625, 2.0), ("theta0", 0.0, 0.6875), ("theta-far", -11.25, 2.75), ("near-pole", 2.0, 0.015625)]
    for k in range(nrand):
        a.append((f"random{k}", dy(rng.uniform(-7, 14)), dy(rng.uniform(0.05, pi - 0.05))))
    return a


def lit(x):
    return r_lit(Fraction(float(x)))


def tol_lit(y, scale=Fraction(1, 2 * 10 ** 9)):
    return r_lit(scale * (1 + abs(Fraction(float(y)))))


HEADER = """From Coq Require Import Reals ZArith List Bool Lra.
From Interval Require Import Tactic.
From P Require Import C08_model_base C08_gen C08_model_spec C08_model.
Import ListNotations.
Open Scope R_scope.
Ltac ev := cbv -[IZR Rminus Rdiv sqrt cos sin PI pow Rabs tan atan acos Rinv Rplus Rmult Ropp Rle Rlt Rgt Rge Rlt_dec Rle_dec Req_EM_T].
Ltac dec1 a b H := destruct (Rlt_dec a b) as [H|H];
  [ try (exfalso; revert H; apply Rle_not_lt; interval with (i_prec 80)) | try (exfalso; apply H; interval with (i_prec 80)) ].
Ltac dec2 a b H := destruct (Rle_dec a b) as [H|H];
  [ try (exfalso; revert H; apply Rlt_not_le; interval with (i_prec 80)) | try (exfalso; apply H; interval with (i_prec 80)) ].
Ltac dec3 a b H := destruct (Req_EM_T a b) as [H|H];
  [ try (exfalso; revert H; first [ apply Rgt_not_eq; interval with (i_prec 80) | apply Rlt_not_eq; interval with (i_prec 80) ])
  | try (exfalso; apply H; match goal with |- sqrt ?x = 0 => replace x with 0 by field; apply sqrt_0 end) ].
Ltac decs := repeat (match goal with
  | |- context [Rlt_dec ?a ?b] => let H := fresh "H" in dec1 a b H
  | |- context [Rle_dec ?a ?b] => let H := fresh "H" in dec2 a b H
  | |- context [Req_EM_T ?a ?b] => let H := fresh "H" in dec3 a b H
  end; cbv beta iota).
(* cos(acos x) is x clipped to [-1, 1]; clipping is 1-Lipschitz and fixes every cosine *)
Lemma cos_acos_near x c t : Rabs (x - c) <= t -> -1 <= c <= 1 -> Rabs (cos (acos x) - c) <= t.
Proof.
  intros H Hc. unfold acos. destruct (Rle_dec x (-1)) as [H1|H1]; [|destruct (Rle_dec 1 x) as [H2|H2]].
  - rewrite cos_PI. revert H. unfold Rabs. repeat destruct Rcase_abs; lra.
  - rewrite cos_0. revert H. unfold Rabs. repeat destruct Rcase_abs; lra.
  - fold (acos x). assert (E : PI / 2 - atan (x / sqrt (1 - x²)) = acos x) by (unfold acos; destruct (Rle_dec x (-1)); [lra|]; destruct (Rle_dec 1 x); [lra|reflexivity]).
    rewrite E, cos_acos by lra. exact H.
Qed.
Ltac enc := ev; decs; cbv iota beta; interval with (i_prec 120).
Ltac enc_acos := ev; decs; cbv iota beta; try (apply cos_acos_near; [|apply COS_bound]); interval with (i_prec 120).
"""


class Pending:
    def __init__(self, ctx):
        self.ctx = ctx
        self.items = []
        self.seen = set()

    def add(self, size, ob, key, obs, text, rp, found=True):
        if (ob, key) in self.seen:      # the same input reached by two searches is one finding
            return
        self.seen.add((ob, key))
        self.items.append((size, ob, key, obs, text, rp, found))

    def candidates(self):
        """concrete failing inputs found on the implementation, smallest degree first: (key, observed, text, replay)"""
        return [(key, obs, text, rp) for size, ob, key, obs, text, rp, found in sorted(self.items, key=lambda t: (t[0], len(t[2]))) if found]

    def flush(self):
        per = {}
        cands = self.candidates()
        tied = set()
        for size, ob, key, obs, text, rp, found in sorted(self.items, key=lambda t: (t[0], len(t[2]))):
            if not found:
                # model and implementation disagree but the definition is met at this input: the tie is broken; report it with
                # the first failing input the searches found (one line per kind)
                if ob not in tied:
                    tied.add(ob)
                    self.ctx.broken_tie(ob, text, cands)
                continue
            if self.ctx.is_known(key, obs):      # a listed finding is re-derived but never uses up the cap of its kind
                self.ctx.fail(ob, key, obs, text, rp)
                continue
            per[ob] = per.get(ob, 0) + 1
            if per[ob] <= MAXREP:
                self.ctx.fail(ob, key, obs, text, rp)
        if self.items:
            self.ctx.notes.append(f"{len(self.items)} disagreements in total; at most {MAXREP} reported per kind: " + json.dumps(per))


def root_cause(ctx, fname, depth=0):
    """the file whose own compilation error makes `fname` fail (follows 'skipped: dependency failed: ...')"""
    log = ctx.logs.get(fname, "")
    if log.startswith("skipped: dependency failed:") and depth < 20:
        dep = log.split(":", 2)[2].split(",")[0].strip()
        return root_cause(ctx, dep, depth + 1)
    return fname


def first_error(log):
    lines = [x.strip() for x in log.splitlines() if x.strip()]
    for i, x in enumerate(lines):
        if x.startswith("Error"):
            return " ".join(lines[max(0, i - 1):i + 3])[:300]
    return (lines[-1] if lines else "")[:300]


def close(a, b, tol=TOL):
    a, b = float(a), float(b)
    if a != a or b != b or abs(a) == float("inf"):
        return False
    return abs(a - b) <= tol * (1 + abs(b))


# ====================================================================== run
def run(ctx: Ctx):
    import grid.utils as gu

    importlib.reload(gu)
    import time

    mp = _mp()
    pend = Pending(ctx)
    quick = ctx.quick
    t0 = time.time()
    phases = ctx.cov.setdefault("phase_s", {})

    def mark(name):
        nonlocal t0
        phases[name] = round(time.time() - t0, 1)
        t0 = time.time()

    # ------------------------------------------------------------------ gen
    src = (SRC / "utils.py").read_text()
    gen_ok = True
    broken_units = []     # (what, error): units of the tie that no longer check; each gets the first failing input of the searches
    try:
        text, units, info = T.translate(src)
        ctx.gen("C08_gen.v", text, units)
        ctx.cov["oracle_calls"] = info["oracle_calls"]
    except T.Unsupported as e:   # translator fails closed: the tie is broken; the implementation-side searches still run
        gen_ok = False
        broken_units.append(("translator(utils.py)", f"src/grid/utils.py left the shape the C08 model is generated from: {e}"))

    # ------------------------------------------------------------------ prove
    status = {}
    if gen_ok:
        ctx.copy_coq("C08")
        status = ctx.coq_build()
        ctx.register_props(status)
        # theorems that no longer check are grouped by the file whose proofs broke (one unit per cause)
        groups = {}
        for name, ob in list(ctx.obligations.items()):
            if ob["status"] != "discharged":
                groups.setdefault(root_cause(ctx, ob["file"]), []).append(name)
                del ctx.obligations[name]
        for root, names in groups.items():
            what = f"proofs({root})"
            ctx.add_obligation(what, False, file=root)
            broken_units.append((what, f"{first_error(ctx.logs.get(root, ''))}; theorems affected: {', '.join(names)}"))
            ctx.notes.append(f"{what}: {len(names)} theorems no longer check: {', '.join(names)}")
    mark("coq_build")
    model_ok = gen_ok and all(status.get(f, False) for f in
                              ("C08_gen.v", "C08_model_base.v", "C08_model_spec.v", "C08_model.v"))
    if gen_ok and not model_ok:
        bad = [f for f in sorted(status) if not status[f]]
        ctx.notes.append("files that no longer compile: " + ", ".join(bad))

    # ------------------------------------------------------------------ implementation wrappers
    def impl_A(L, th, ph):
        return np.asarray(gu.generate_real_spherical_harmonics(L, np.array(th, dtype=float), np.array(ph, dtype=float)), dtype=float)

    def impl_B(L, th, ph):
        return np.asarray(gu.generate_real_spherical_harmonics_scipy(L, np.array(th, dtype=float), np.array(ph, dtype=float)), dtype=float)

    def impl_D(L, th, ph):
        return np.asarray(gu.generate_derivative_real_spherical_harmonics(L, np.array(th, dtype=float), np.array(ph, dtype=float)), dtype=float)

    def impl_S(L, pts):
        return np.asarray(gu.solid_harmonics(L, np.array(pts, dtype=float)), dtype=float)

    def safe(fn, *a):
        try:
            return fn(*a), None
        except Exception as e:  # noqa: BLE001
            return None, f"{type(e).__name__}: {str(e)[:100]}"

    # ================================================================== 1. interval correspondence, harmonics
    Lc = 6 if quick else 10
    angles = structured_angles(ctx.rng, 3 if quick else 8)
    # every (l, m) up to l = 6 at every angle pair; thorough: additionally l = 7..10 at a sub-list of the angles
    hi_angles = [a for a in angles if a[0] in ("pole0-negtheta", "polepi", "equator", "theta-negative", "theta>2pi", "near-pole", "random0")]
    # quick: two of the structured pairs are left to the numerical searches (they stay in `angles` for those)
    coq_angles = [a for a in angles if not (quick and a[0] in ("equator-thetapi", "theta-far", "polepi-bigtheta", "random1", "random2"))]
    passes = [(6, coq_angles, 0)] + ([] if quick else [(Lc, hi_angles, 7)])
    cases, meta = [], []
    for Lp, angs, lmin in passes:
        th = [a[1] for a in angs]
        ph = [a[2] for a in angs]
        A, errA = safe(impl_A, Lp, th, ph)
        B, errB = safe(impl_B, Lp, th, ph)
        n = (Lp + 1) ** 2
        for nm, arr, err in (("generate_real_spherical_harmonics", A, errA), ("generate_real_spherical_harmonics_scipy", B, errB)):
            if arr is None or arr.shape != (n, len(angs)):
                pend.add(0, "corr_shape", f"shape:{nm}:{Lp}", err or str(getattr(arr, "shape", None)),
                         f"{nm}({Lp}, theta, phi) with {len(angs)} points: {err or 'shape ' + str(arr.shape)}, expected shape {(n, len(angs))}",
                         {"kind": "shape", "fn": nm, "l_max": Lp, "theta": th, "phi": ph})
        if A is None or A.shape != (n, len(angs)):
            continue
        for j, (tag, t, p) in enumerate(angs):
            for i in range(lmin * lmin, n):
                l, m = lm_of(i)
                y = float(A[i, j])
                ctx.case(("sph", tag, l, m))
                ctx.count("sph:" + tag.rstrip("0123456789"))
                if y != y or abs(y) == float("inf"):
                    pend.add(l, "corr_sph_recursion", f"sph:A:{l}:{m}:{t!r}:{p!r}", repr(y), f"generate_real_spherical_harmonics: (l,m)=({l},{m}) at theta={t!r}, phi={p!r} is {y!r}",
                             {"kind": "sph", "impl": "A", "l_max": Lp, "l": l, "m": m, "theta": t, "phi": p})
                    continue
                cases.append((f"Rabs (nth {i} (sph_model {Lp} {lit(t)} {lit(p)}) 0 - {lit(y)}) <= {tol_lit(y)}", "enc"))
                meta.append(("sph", Lp, t, p, i, y))
                # both implementations against each other, exactly (rationals): |A - B| <= 5e-10 (1 + |A|)
                if B is not None and B.shape == A.shape:
                    yb = float(B[i, j])
                    if not (yb == yb) or abs(Fraction(yb) - Fraction(y)) > Fraction(1, 2 * 10 ** 9) * (1 + abs(Fraction(y))):
                        yo = float(o_Y(mp, l, m, mp.mpf(t), mp.mpf(p)))
                        who = "scipy" if not close(yb, yo) else "recursion"
                        pend.add(l, "corr_sph_scipy", f"sph:B:{l}:{m}:{t!r}:{p!r}", yb,
                                 f"(l,m)=({l},{m}) at theta={t!r}, phi={p!r}: SciPy-based routine gives {yb!r}, recursion gives {y!r}, definition {yo!r} ({who} is off)",
                                 {"kind": "sph", "impl": "B", "l_max": Lp, "l": l, "m": m, "theta": t, "phi": p, "expected": yo})
        if Lp == 6:
            ctx.sample({"l_max": Lp, "theta": th[3], "phi": ph[3], "row": 7, "(l,m)": lm_of(7), "recursion": float(A[7, 3]), "scipy": None if B is None else float(B[7, 3]),
                        "goal": cases[0][0][:160] if cases else None})

    # ================================================================== 2. derivative routine vs model
    Ld = 3 if quick else 6
    dang = [a for a in angles if a[0] in ("pole0", "polepi", "equator", "theta-negative", "near-pole") or (a[0] == "theta>2pi" and not quick)] + angles[-(1 if quick else 2):]
    dang += [("near-pole-2^-28", 1.25, 2.0 ** -28)]      # just outside the pole band of the routine (|tan phi| < 1e-10)
    dth, dph = [a[1] for a in dang], [a[2] for a in dang]
    D, errD = safe(impl_D, Ld, dth, dph)
    nd = (Ld + 1) ** 2
    if D is None or D.shape != (2, nd, len(dang)):
        pend.add(0, "corr_shape", f"shape:derivative:{Ld}", errD or str(getattr(D, "shape", None)),
                 f"generate_derivative_real_spherical_harmonics({Ld}, ...) : {errD or 'shape ' + str(D.shape)}", {"kind": "shape", "fn": "derivative", "l_max": Ld, "theta": dth, "phi": dph})
    else:
        for j, (tag, t, p) in enumerate(dang):
            for i in range(nd):
                l, m = lm_of(i)
                for k, proj in ((0, "fst"), (1, "snd")):
                    y = float(D[k, i, j])
                    ctx.case(("der", tag, l, m, k))
                    if y != y or abs(y) == float("inf"):
                        pend.add(l, "corr_derivative", f"der:{k}:{l}:{m}:{t!r}:{p!r}", repr(y), f"derivative block {k}, (l,m)=({l},{m}) at theta={t!r}, phi={p!r} is {y!r}",
                                 {"kind": "der", "block": k, "l_max": Ld, "l": l, "m": m, "theta": t, "phi": p})
                        continue
                    cases.append((f"Rabs ({proj} (nth {i} (dsph_model sre0 sim0 {Ld} {lit(t)} {lit(p)}) (0, 0)) - {lit(y)}) <= {tol_lit(y, Fraction(1, 10 ** 9))}", "enc"))
                    meta.append(("der", j, i, k))
        ctx.count("derivative_entries", 2 * nd * len(dang))
        ctx.sample({"routine": "generate_derivative_real_spherical_harmonics", "l_max": Ld, "theta": dth[3], "phi": dph[3], "(l,m)": lm_of(6),
                    "d/dtheta": float(D[0, 6, 3]), "d/dphi": float(D[1, 6, 3])})

    # ================================================================== 3. solid harmonics vs model
    Ls = 4
    spts = [(0.0, 0.5, 1.0), (2.5, -2.5, 0.0), (0.3125, 7.90625, math.pi / 2), (dy(ctx.rng.uniform(0.1, 3)), dy(ctx.rng.uniform(-7, 7)), dy(ctx.rng.uniform(0.1, 3.0)))]
    S, errS = safe(impl_S, Ls, spts)
    if S is None or S.shape != ((Ls + 1) ** 2, len(spts)):
        pend.add(0, "corr_shape", f"shape:solid:{Ls}", errS or str(getattr(S, "shape", None)), f"solid_harmonics({Ls}, ...): {errS or 'shape ' + str(S.shape)}",
                 {"kind": "shape", "fn": "solid", "l_max": Ls, "pts": spts})
    else:
        for j, (r, t, p) in enumerate(spts):
            for i in range((Ls + 1) ** 2):
                y = float(S[i, j])
                ctx.case(("solid", j, i))
                if y != y or abs(y) == float("inf"):
                    l, m = lm_of(i)
                    yo = float(mp.sqrt(4 * mp.pi / (2 * l + 1)) * mp.mpf(r) ** l * o_Y(mp, l, m, mp.mpf(t), mp.mpf(p)))
                    pend.add(l, "corr_solid", f"solid:{l}:{m}:{r!r}:{t!r}:{p!r}", repr(y), f"solid_harmonics (l,m)=({l},{m}) at (r,theta,phi)=({r!r},{t!r},{p!r}) is {y!r}; sqrt(4pi/(2l+1)) r^l Y_lm = {yo!r}",
                             {"kind": "solid", "l_max": Ls, "l": l, "m": m, "pt": (r, t, p), "expected": yo})
                    continue
                cases.append((f"Rabs (nth {i} (solid_model {Ls} {lit(r)} {lit(t)} {lit(p)}) 0 - {lit(y)}) <= {tol_lit(y, Fraction(1, 10 ** 9))}", "enc"))
                meta.append(("solid", j, i))
        ctx.count("solid_entries", (Ls + 1) ** 2 * len(spts))

    # ================================================================== 4. convert_cart_to_sph vs model
    cpts = []
    centres = [(0.0, 0.0, 0.0), (1.5, -2.25, 0.75)]
    for c in centres:
        cpts += [(c, c), ((c[0], c[1], c[2] + 2.5), c), ((c[0], c[1], c[2] - 1.25), c), ((c[0] + 1.0, c[1], c[2]), c), ((c[0] - 2.0, c[1], c[2]), c),
                 ((c[0], c[1] - 0.5, c[2]), c), ((c[0], c[1] + 3.0, c[2] + 1.0), c)]
    for _ in range(6 if quick else 20):
        c = tuple(dy(ctx.rng.uniform(-3, 3), 10) for _ in range(3)) if ctx.rng.random() < 0.7 else None
        cpts.append((tuple(dy(ctx.rng.uniform(-4, 4), 10) for _ in range(3)), c))
    cpts = [(pt, c, "float64", "float64") for pt, c in cpts]
    # integer / single-precision points with fractional, integer, list and tuple centres: the model is evaluated at the exact numbers
    cpts += [((3, -2, 5), (0.25, 0.5, -0.75), "int64", "list"), ((1, 1, 1), (1, 0, 2), "int32", "int64"),
             ((0.25, -1.5, 2.0), (1.5, -2.25, 0.75), "float32", "float64"), ((1, 0, 0), (0.25, 0.5, -0.75), "int64", "tuple")]
    for pt, c, pdt, cdt in cpts:
        cc = (0.0, 0.0, 0.0) if c is None else c
        key = f"cart:{pt}:{c}" + ("" if (pdt, cdt) == ("float64", "float64") else f":{pdt}:{cdt}")
        out, err = safe(lambda: np.asarray(gu.convert_cart_to_sph(make_array([pt], pdt, "C"), make_center(c, cdt)), dtype=float))
        ctx.case(("cart", pt, c))
        if out is None or out.shape != (1, 3) or not np.all(np.isfinite(out)):
            pend.add(0, "corr_cart_to_sph", key, err or str(out), f"convert_cart_to_sph({pt}, center={c}) gave {err or out}", {"kind": "cart", "point": pt, "center": c})
            continue
        r, t, p = (float(v) for v in out[0])
        if not (0.0 <= p <= math.pi):
            pend.add(0, "corr_cart_to_sph", key, [r, t, p], f"convert_cart_to_sph({pt}, center={c}): polar angle {p!r} outside [0, pi]", {"kind": "cart", "point": pt, "center": c})
            continue
        args = " ".join(lit(v) for v in (*pt, *cc))
        g = f"g_cart_to_sph {args}"
        tol = r_lit(Fraction(1, 10 ** 9))
        cases.append((f"Rabs (fst (fst ({g})) - {lit(r)}) <= {tol} /\\ Rabs (snd (fst ({g})) - {lit(t)}) <= {tol} /\\ "
                      f"Rabs (cos (snd ({g})) - cos {lit(p)}) <= {tol}", "repeat split; enc_acos"))
        meta.append(("cart", pt, c, [r, t, p]))
        if len(meta) % 7 == 0:
            ctx.sample({"routine": "convert_cart_to_sph", "point": pt, "center": c, "(r,theta,phi)": [r, t, p]})
    ctx.count("cart_points", len(cpts))

    # ================================================================== 5. gradient conversion vs model
    jpts = [(1.0, 0.5, 1.0), (2.5, -2.0, 0.25), (0.0, 1.0, 1.0), (1.5, 0.75, 0.0), (0.75, 4.0, 3.0)]
    for r, t, p in jpts:
        d = (0.5, -1.25, 2.0)
        out, err = safe(lambda: np.asarray(gu.convert_derivative_from_spherical_to_cartesian(d[0], d[1], d[2], r, t, p), dtype=float))
        ctx.case(("jac", r, t, p))
        if out is None or out.shape != (3,) or not np.all(np.isfinite(out)):
            pend.add(0, "corr_jacobian", f"jac:{(r, t, p)}", err or str(out), f"convert_derivative_from_spherical_to_cartesian{(*d, r, t, p)} gave {err or out}",
                     {"kind": "jac", "d": d, "sph": (r, t, p)})
            continue
        g = "g_sph_to_cart_deriv " + " ".join(lit(v) for v in (*d, r, t, p))
        cases.append((" /\\ ".join(f"Rabs ({proj} - {lit(float(v))}) <= {tol_lit(float(v), Fraction(1, 10 ** 9))}"
                                   for proj, v in ((f"fst (fst ({g}))", out[0]), (f"snd (fst ({g}))", out[1]), (f"snd ({g})", out[2]))), "repeat split; enc"))
        meta.append(("jac", d, (r, t, p), [float(v) for v in out]))

    # ---------------------------------------------------------------- run the Coq cases
    bad = []
    if model_ok and cases:
        bad = ctx.coq_tactic_cases("C08_cases", HEADER, cases, shard=40 if quick else 16, timeout=3000)
    elif cases:
        ctx.notes.append("model does not compile: interval correspondence skipped, implementation checked against the oracle only")
    mark("coq_cases")
    ctx.cov["coq_cases"] = len(cases)
    ctx.cov["coq_cases_failed"] = len(bad)
    for idx in bad:
        mt = meta[idx]
        if mt[0] == "sph":
            _, Lp, t, p, i, y = mt
            l, m = lm_of(i)
            yo = float(o_Y(mp, l, m, mp.mpf(t), mp.mpf(p)))
            pend.add(l, "corr_sph_recursion", f"sph:A:{l}:{m}:{t!r}:{p!r}", y,
                     f"generate_real_spherical_harmonics: (l,m)=({l},{m}) at theta={t!r}, phi={p!r} is {y!r}; model enclosure fails; definition gives {yo!r}",
                     {"kind": "sph", "impl": "A", "l_max": Lp, "l": l, "m": m, "theta": t, "phi": p, "expected": yo}, found=not close(y, yo))
        elif mt[0] == "der":
            _, j, i, k = mt
            l, m = lm_of(i)
            tag, t, p = dang[j]
            y = float(D[k, i, j])
            yo = float(-m * o_Y(mp, l, -m, mp.mpf(t), mp.mpf(p))) if k == 0 else float(o_dF(mp, l, abs(m), mp.mpf(p)) * o_az(mp, m, mp.mpf(t)))
            at_pole = k == 1 and abs(math.tan(p)) < 1e-10
            if at_pole:
                yo = 0.0
            pend.add(l, "corr_derivative", f"der:{k}:{l}:{m}:{t!r}:{p!r}", y,
                     f"derivative routine block {k} ({'d/dtheta' if k == 0 else 'd/dphi'}), (l,m)=({l},{m}) at theta={t!r}, phi={p!r} is {y!r}; model enclosure fails; true value {yo!r}",
                     {"kind": "der", "block": k, "l_max": Ld, "l": l, "m": m, "theta": t, "phi": p, "expected": yo}, found=not close(y, yo, 1e-8))
        elif mt[0] == "solid":
            _, j, i = mt
            l, m = lm_of(i)
            r, t, p = spts[j]
            y = float(S[i, j])
            yo = float(mp.sqrt(4 * mp.pi / (2 * l + 1)) * mp.mpf(r) ** l * o_Y(mp, l, m, mp.mpf(t), mp.mpf(p)))
            pend.add(l, "corr_solid", f"solid:{l}:{m}:{r!r}:{t!r}:{p!r}", y, f"solid_harmonics (l,m)=({l},{m}) at (r,theta,phi)=({r!r},{t!r},{p!r}) is {y!r}; sqrt(4pi/(2l+1)) r^l Y_lm = {yo!r}",
                     {"kind": "solid", "l_max": Ls, "l": l, "m": m, "pt": (r, t, p), "expected": yo}, found=not close(y, yo))
        elif mt[0] == "cart":
            _, pt, c, obs = mt
            exp = cart_expected(pt, c)
            pend.add(0, "corr_cart_to_sph", f"cart:{pt}:{c}", obs, f"convert_cart_to_sph({pt}, center={c}) = {obs}; expected (r, theta, phi) = {exp}",
                     {"kind": "cart", "point": pt, "center": c, "expected": exp}, found=not all(close(a, b) for a, b in zip(obs, exp)))
        elif mt[0] == "jac":
            _, d, sp, obs = mt
            exp = jac_expected(d, sp)
            pend.add(0, "corr_jacobian", f"jac:{sp}", obs, f"convert_derivative_from_spherical_to_cartesian{(*d, *sp)} = {obs}; expected {exp}",
                     {"kind": "jac", "d": d, "sph": sp, "expected": exp}, found=not all(close(a, b) for a, b in zip(obs, exp)))

    # ================================================================== 6. SciPy oracle hypothesis of the Polar section
    from scipy.special import sph_harm_y

    Lo = 8 if quick else 16
    oph = [0.0, math.pi, math.pi / 2, 0.6875, 2.0, 3.0, 0.015625]
    oth = [0.3125, -2.5, 7.90625, 1.0, 0.0, -11.25, 2.0]
    nval = 0
    for l in range(Lo + 1):
        for m in range(1, l + 3):
            z = sph_harm_y(l, m, np.array(oph), np.array(oth))
            for j in range(len(oph)):
                f = o_F(mp, l, m, mp.mpf(oph[j])) / mp.sqrt(2) * (-1) ** m
                er, ei = float(f * mp.cos(m * mp.mpf(oth[j]))), float(f * mp.sin(m * mp.mpf(oth[j])))
                nval += 1
                if not (close(z[j].real, er) and close(z[j].imag, ei)):
                    pend.add(l, "oracle_sph_harm_y", f"sph_harm_y:{l}:{m}:{oph[j]!r}:{oth[j]!r}", [float(z[j].real), float(z[j].imag)],
                             f"scipy.special.sph_harm_y({l},{m},{oph[j]!r},{oth[j]!r}) = {z[j]!r}; the hypothesis of polar_reduction/polar_derivative needs ({er!r}, {ei!r})",
                             {"kind": "oracle", "l": l, "m": m, "polar": oph[j], "azimuth": oth[j], "expected": [er, ei]})
    ctx.case(("oracle", Lo), traces=nval)
    ctx.count("oracle_sph_harm_y_values", nval)

    # ================================================================== 7. search on the implementation (independent oracle)
    mark("oracle_validation")
    search(ctx, gu, mp, pend, angles)
    high_degree(ctx, gu, mp, pend)
    dtype_layout(ctx, gu, mp, pend)
    solid_range(ctx, gu, mp, pend)
    outside_principal_range(ctx, gu, mp, pend)
    mark("search")

    cands = pend.candidates()
    for what, err in broken_units:
        ctx.broken_tie(what, err, cands)
    pend.flush()
    ctx.cov["rule"] = (
        f"interval correspondence: every (l,m) with l <= 6 at {len(coq_angles)} angle pairs{'' if quick else f' and 7 <= l <= {Lc} at {len(hi_angles)} of them'} (both poles with several azimuths, equator, negative azimuth, azimuth > 2 pi, "
        f"azimuth 0, near-pole, {3 if quick else 8} random; all exact dyadics) - Coq goal |model entry - observed| <= 5e-10 (1+|y|) proved by `interval` on the generated loop, "
        "SciPy-based routine compared with the recursion exactly in rationals with the same bound; both derivative blocks for l <= "
        f"{Ld}; solid harmonics l <= 4 incl. r = 0; convert_cart_to_sph at centres/axis/random points; gradient conversion incl. the r < 1e-10 and phi < 1e-10 branches; "
        "search: mpmath (60 digits) explicit-sum oracle for values, derivatives, addition theorem, solid harmonics and round trips; distinct = (routine, angle, l, m)")
    ctx.trusted += [
        "tools/props/c08_translate.py (fail-closed ast translator, loop headers/allocations compared verbatim with the skeleton in C08_model.v)",
        "np.longdouble results are compared after rounding to float64; tolerance 5e-10 (1+|y|) for values, 1e-9 (1+|y|) for derivatives/solid/conversions",
        "hypothesis sphy_spec (scipy.special.sph_harm_y(l,m,polar,azimuth) = (-1)^m F_lm(polar)/sqrt(2) exp(i m azimuth), 1 <= m, polar in [0, pi]) - validated above against mpmath on every run",
        "np.arctan2 = the piecewise atan definition `atan2` of C08_model_base.v on finite non-signed-zero inputs; np.arccos = acos; np.linalg.norm = sqrt of the sum of squares",
        "mpmath oracle: explicit sum P_l(x) = 2^-l sum_k (-1)^k C(l,k) C(2l-2k,l) x^(l-2k), differentiated term by term (exact rational coefficients)",
    ]
    ctx.assumptions += ["exact real arithmetic in the theorems; floating-point rounding is covered only by the tolerances of the correspondence",
                        "theta-derivative, ordering, periodicity, solid harmonics, phi-derivative reduction and pole convention are proved for every l_max; closed forms, "
                        "addition theorem and the Legendre derivative identity only for l <= 3 (beyond: numerical)"]


# ====================================================================== expectations for the small routines
def cart_expected(pt, c):
    cc = (0.0, 0.0, 0.0) if c is None else c
    x, y, z = (Fraction(a) - Fraction(b) for a, b in zip(pt, cc))
    r2 = x * x + y * y + z * z
    if r2 == 0:
        return [0.0, 0.0, 0.0]
    r = math.sqrt(r2)
    return [r, math.atan2(float(y), float(x)) if (x != 0 or y != 0) else 0.0, math.acos(max(-1.0, min(1.0, float(z) / r)))]


def jac_expected(d, sp):
    r, t, p = sp
    dr, dt, dp = d
    if abs(r) < 1e-10:
        dt = dp = 0.0
        r_ = 1.0
    else:
        r_ = r
    if abs(p) < 1e-10:
        dt = 0.0
    st, ct, s, c = math.sin(t), math.cos(t), math.sin(p), math.cos(p)
    a = (-st / (r_ * s) * dt) if dt != 0.0 else 0.0
    b = (ct / (r_ * s) * dt) if dt != 0.0 else 0.0
    return [ct * s * dr + a + ct * c / r_ * dp, st * s * dr + b + st * c / r_ * dp, c * dr - s / r_ * dp]


# ====================================================================== search
def search(ctx: Ctx, gu, mp, pend: Pending, angles):
    quick = ctx.quick
    rng = ctx.rng
    pi = math.pi

    def run2(fn, L, th, ph):
        try:
            return np.asarray(fn(L, np.array(th, dtype=float), np.array(ph, dtype=float)), dtype=float)
        except Exception as e:  # noqa: BLE001
            return f"{type(e).__name__}: {str(e)[:100]}"

    # ---- (a) values of both implementations against the definition
    Lv = 20 if quick else 40
    sub = [a for a in angles if a[0] in ("pole0-negtheta", "polepi-bigtheta", "equator", "theta-negative", "theta>2pi", "near-pole")] + angles[-2:]
    th, ph = [a[1] for a in sub], [a[2] for a in sub]
    outs = {"A": run2(gu.generate_real_spherical_harmonics, Lv, th, ph), "B": run2(gu.generate_real_spherical_harmonics_scipy, Lv, th, ph)}
    names = {"A": "generate_real_spherical_harmonics", "B": "generate_real_spherical_harmonics_scipy"}
    obl = {"A": "search_values_recursion", "B": "search_values_scipy"}
    for w, arr in outs.items():
        if isinstance(arr, str) or arr.shape != ((Lv + 1) ** 2, len(sub)):
            pend.add(0, obl[w], f"values:{w}:{Lv}", str(arr)[:120], f"{names[w]}({Lv}, ...) failed: {str(arr)[:120]}", {"kind": "shape", "fn": names[w], "l_max": Lv, "theta": th, "phi": ph})
    for j, (tag, t, p) in enumerate(sub):
        tm, pm = mp.mpf(t), mp.mpf(p)
        for l in range(Lv + 1):
            for am in range(l + 1):
                f = o_F(mp, l, am, pm)
                for m in ([0] if am == 0 else [am, -am]):
                    yo = float(f * o_az(mp, m, tm))
                    i = row(l, m)
                    for w, arr in outs.items():
                        if isinstance(arr, str) or arr.shape[0] <= i:
                            continue
                        ctx.case(("val", w, tag, l, m))
                        if not close(arr[i, j], yo):
                            pend.add(l, obl[w], f"sph:{w}:{l}:{m}:{t!r}:{p!r}", float(arr[i, j]),
                                     f"{names[w]}: (l,m)=({l},{m}) [row {i}] at theta={t!r}, phi={p!r} is {float(arr[i, j])!r}, the definition gives {yo!r}",
                                     {"kind": "sph", "impl": w, "l_max": Lv, "l": l, "m": m, "theta": t, "phi": p, "expected": yo})
    ctx.count("search_values", 2 * (Lv + 1) ** 2 * len(sub))

    # ---- (b) both implementations against each other, higher degree, more angles
    Lb = 80 if quick else 200
    nb = 24 if quick else 60
    th = [a[1] for a in angles] + [rng.uniform(-10, 20) for _ in range(nb)]
    ph = [a[2] for a in angles] + [rng.uniform(0, pi) for _ in range(nb)]
    A, B = run2(gu.generate_real_spherical_harmonics, Lb, th, ph), run2(gu.generate_real_spherical_harmonics_scipy, Lb, th, ph)
    if not isinstance(A, str) and not isinstance(B, str) and A.shape == B.shape:
        diff = np.abs(A - B) - TOL * (1 + np.abs(A))
        diff[~np.isfinite(diff)] = 1.0
        ctx.case(("AvsB", Lb), traces=A.size)
        for i, j in sorted(zip(*np.where(diff > 0)))[:MAXREP * 4]:
            l, m = lm_of(int(i))
            yo = float(o_Y(mp, l, m, mp.mpf(th[j]), mp.mpf(ph[j])))
            w = "B" if not close(B[i, j], yo) else "A"
            pend.add(l, obl[w], f"sph:{w}:{l}:{m}:{th[j]!r}:{ph[j]!r}", float((B if w == 'B' else A)[i, j]),
                     f"(l,m)=({l},{m}) at theta={th[j]!r}, phi={ph[j]!r}: recursion {float(A[i, j])!r}, SciPy-based {float(B[i, j])!r}, definition {yo!r}",
                     {"kind": "sph", "impl": w, "l_max": Lb, "l": l, "m": m, "theta": th[j], "phi": ph[j], "expected": yo})
    elif not isinstance(A, str) and not isinstance(B, str):
        pend.add(0, "search_values_scipy", f"shape:AvsB:{Lb}", str(B.shape), f"the two implementations return different shapes {A.shape} vs {B.shape} for l_max={Lb}",
                 {"kind": "shape", "fn": "both", "l_max": Lb, "theta": th[:3], "phi": ph[:3]})

    # ---- (c) addition theorem on both implementations
    La = 30 if quick else 60
    na = 6 if quick else 16
    pairs = [((0.3125, 0.0), (1.0, pi)), ((-2.5, 1.125), (7.90625, 2.0)), ((0.0, pi / 2), (pi, pi / 2))]
    pairs += [((rng.uniform(-7, 14), rng.uniform(0, pi)), (rng.uniform(-7, 14), rng.uniform(0, pi))) for _ in range(na)]
    ta, pa = [q[0][0] for q in pairs], [q[0][1] for q in pairs]
    tb, pb = [q[1][0] for q in pairs], [q[1][1] for q in pairs]
    for w, fn in (("A", gu.generate_real_spherical_harmonics), ("B", gu.generate_real_spherical_harmonics_scipy)):
        Ya, Yb = run2(fn, La, ta, pa), run2(fn, La, tb, pb)
        if isinstance(Ya, str) or isinstance(Yb, str) or Ya.shape != ((La + 1) ** 2, len(pairs)) or Yb.shape != Ya.shape:
            continue
        for j in range(len(pairs)):
            cg = (mp.cos(mp.mpf(pa[j])) * mp.cos(mp.mpf(pb[j])) + mp.sin(mp.mpf(pa[j])) * mp.sin(mp.mpf(pb[j])) * mp.cos(mp.mpf(ta[j]) - mp.mpf(tb[j])))
            for l in range(La + 1):
                s = float(np.dot(Ya[l * l:(l + 1) ** 2, j], Yb[l * l:(l + 1) ** 2, j]))
                exp = float((2 * l + 1) / (4 * mp.pi) * o_Q(mp, l, 0, cg))
                ctx.case(("add", w, j, l))
                if not (abs(s - exp) <= 1e-9 * (2 * l + 1)):
                    pend.add(l, "search_addition_theorem", f"add:{w}:{l}:{ta[j]!r}:{pa[j]!r}:{tb[j]!r}:{pb[j]!r}", s,
                             f"{names[w]}: sum_m Y_{l}m(a) Y_{l}m(b) = {s!r} at a=({ta[j]!r},{pa[j]!r}), b=({tb[j]!r},{pb[j]!r}); (2l+1)/(4pi) P_l(cos gamma) = {exp!r}",
                             {"kind": "add", "impl": w, "l": l, "a": [ta[j], pa[j]], "b": [tb[j], pb[j]], "expected": exp})
    ctx.count("search_addition", 2 * (La + 1) * len(pairs))

    # ---- (d) derivative routine against the true derivatives
    Ld = 12 if quick else 30
    dsub = [a for a in angles if a[0] in ("pole0", "polepi", "equator", "theta-negative", "theta>2pi", "theta-far", "near-pole")] + angles[-3:]
    dsub += [("near-pole-pi", -1.25, pi - 0.0078125), ("near-pole-tiny", 0.5, 2.0 ** -20)]
    # "away from the poles" means: not inside the routine's documented pole band |tan(phi)| < 1e-10.  Polar angles at graded tiny
    # distances from BOTH poles, down to just outside that band, and periodic images of them (negative, beyond pi, near 2 pi): the
    # |m| cot(phi) Y term is the whole derivative for |m| = 1 there, so a widened band or a lost cotangent shows as an O(1) error.
    for k, d in enumerate((1e-3, 1e-5, 1e-7, 2.0 ** -28, 3e-9, 2.5e-10)):
        tk = (0.75, -2.0, 4.0, 1.25, 8.5, -0.5)[k]
        dsub += [(f"pole0+{d:g}", tk, d), (f"polepi-{d:g}", -tk, pi - d)]
    dsub += [("pole0-3e-9", 1.0, -3e-9), ("polepi+5e-9", 2.0, pi + 5e-9), ("pole2pi-1e-7", -1.5, 2 * pi - 1e-7), ("pole-pi+1e-8", 0.5, -pi + 1e-8)]
    th, ph = [a[1] for a in dsub], [a[2] for a in dsub]
    D = run2(gu.generate_derivative_real_spherical_harmonics, Ld, th, ph)
    if isinstance(D, str) or D.shape != (2, (Ld + 1) ** 2, len(dsub)):
        pend.add(0, "search_derivative", f"shape:derivative:{Ld}", str(D)[:120] if isinstance(D, str) else str(D.shape),
                 f"generate_derivative_real_spherical_harmonics({Ld}, ...) failed or has the wrong shape", {"kind": "shape", "fn": "derivative", "l_max": Ld, "theta": th, "phi": ph})
    else:
        for j, (tag, t, p) in enumerate(dsub):
            tm, pm = mp.mpf(t), mp.mpf(p)
            pole = abs(math.tan(p)) < 1e-10
            for l in range(Ld + 1):
                for am in range(l + 1):
                    f, df = o_F(mp, l, am, pm), o_dF(mp, l, am, pm)
                    for m in ([0] if am == 0 else [am, -am]):
                        i = row(l, m)
                        e0 = float(-m * f * o_az(mp, -m, tm))
                        e1 = 0.0 if pole else float(df * o_az(mp, m, tm))
                        ctx.case(("dsearch", tag, l, m))
                        for k, e in ((0, e0), (1, e1)):
                            if not close(D[k, i, j], e, 1e-8):
                                pend.add(l, "search_derivative", f"der:{k}:{l}:{m}:{t!r}:{p!r}", float(D[k, i, j]),
                                         f"derivative routine block {k} ({'d/dtheta' if k == 0 else 'd/dphi'}), (l,m)=({l},{m}) at theta={t!r}, phi={p!r} is {float(D[k, i, j])!r}; "
                                         f"true {'(pole convention) ' if pole and k == 1 else ''}value {e!r}",
                                         {"kind": "der", "block": k, "l_max": Ld, "l": l, "m": m, "theta": t, "phi": p, "expected": e})
    ctx.count("search_derivative", 2 * (Ld + 1) ** 2 * len(dsub))

    # ---- (e) solid harmonics
    Ls = 8 if quick else 14
    pts = [(0.0, 0.5, 1.0), (2.5, -2.5, 0.0), (0.5, 7.9, pi)] + [(rng.uniform(0.05, 3), rng.uniform(-7, 7), rng.uniform(0, pi)) for _ in range(4)]
    try:
        S = np.asarray(gu.solid_harmonics(Ls, np.array(pts, dtype=float)), dtype=float)
    except Exception as e:  # noqa: BLE001
        S = f"{type(e).__name__}: {e}"
    if isinstance(S, str) or S.shape != ((Ls + 1) ** 2, len(pts)):
        pend.add(0, "search_solid", f"shape:solid:{Ls}", str(S)[:120] if isinstance(S, str) else str(S.shape), "solid_harmonics failed or has the wrong shape",
                 {"kind": "shape", "fn": "solid", "l_max": Ls, "pts": pts})
    else:
        for j, (r, t, p) in enumerate(pts):
            for l in range(Ls + 1):
                for m in m_order(l):
                    yo = float(mp.sqrt(4 * mp.pi / (2 * l + 1)) * mp.mpf(r) ** l * o_Y(mp, l, m, mp.mpf(t), mp.mpf(p)))
                    ctx.case(("ssearch", j, l, m))
                    if not close(S[row(l, m), j], yo):
                        pend.add(l, "search_solid", f"solid:{l}:{m}:{r!r}:{t!r}:{p!r}", float(S[row(l, m), j]),
                                 f"solid_harmonics (l,m)=({l},{m}) at (r,theta,phi)=({r!r},{t!r},{p!r}) is {float(S[row(l, m), j])!r}; sqrt(4pi/(2l+1)) r^l Y_lm = {yo!r}",
                                 {"kind": "solid", "l_max": Ls, "l": l, "m": m, "pt": (r, t, p), "expected": yo})

    # ---- (f) round trip of convert_cart_to_sph, any centre
    nrt = 200 if quick else 2000
    for k in range(nrt):
        r, t, p = rng.uniform(0.1, 5), rng.uniform(-pi, pi) * 0.999, rng.uniform(0.05, pi - 0.05)
        c = [rng.uniform(-10, 10) for _ in range(3)] if k % 4 else None
        cc = [0.0, 0.0, 0.0] if c is None else c
        pt = [cc[0] + r * math.sin(p) * math.cos(t), cc[1] + r * math.sin(p) * math.sin(t), cc[2] + r * math.cos(p)]
        try:
            out = [float(v) for v in np.asarray(gu.convert_cart_to_sph(np.array([pt]), None if c is None else np.array(c)))[0]]
        except Exception as e:  # noqa: BLE001
            out = [float("nan")] * 3
        ctx.case(("roundtrip", k))
        if not all(abs(a - b) <= 1e-9 * (1 + abs(b)) + 1e-12 * 20 / r for a, b in zip(out, (r, t, p))):
            pend.add(1, "search_roundtrip", f"roundtrip:{pt}:{c}", out, f"convert_cart_to_sph({pt}, center={c}) = {out}; the point is centre + r(sin phi cos theta, sin phi sin theta, cos phi) with (r,theta,phi)=({r!r},{t!r},{p!r})",
                     {"kind": "cart", "point": pt, "center": c, "expected": [r, t, p]})
    for c in (None, [1.5, -2.25, 0.75]):
        cc = [0.0, 0.0, 0.0] if c is None else c
        for pt, exp in ((cc, [0.0, 0.0, 0.0]), ([cc[0], cc[1], cc[2] + 2.0], [2.0, 0.0, 0.0]), ([cc[0], cc[1], cc[2] - 2.0], [2.0, 0.0, pi]),
                        ([cc[0] - 1.0, cc[1], cc[2]], [1.0, pi, pi / 2])):
            try:
                out = [float(v) for v in np.asarray(gu.convert_cart_to_sph(np.array([pt], dtype=float), None if c is None else np.array(c)))[0]]
            except Exception as e:  # noqa: BLE001
                out = [float("nan")] * 3
            ctx.case(("convention", str(pt), str(c)))
            if not all(close(a, b) for a, b in zip(out, exp)):
                pend.add(0, "search_roundtrip", f"roundtrip:{pt}:{c}", out, f"convert_cart_to_sph({pt}, center={c}) = {out}; expected {exp} (origin / polar-axis convention)",
                         {"kind": "cart", "point": pt, "center": c, "expected": exp})

    # ---- (g) gradient conversion: spherical gradient of a polynomial -> its Cartesian gradient
    for k in range(20 if quick else 200):
        r = rng.uniform(0.2, 4) if k % 3 else 10.0 ** rng.uniform(-6, -0.7)     # also small radii (the routine zeroes the angular part only below 1e-10)
        t, p = rng.uniform(-7, 7), rng.uniform(0.1, pi - 0.1)
        a = [rng.uniform(-2, 2) for _ in range(6)]
        s, c, st, ct = math.sin(p), math.cos(p), math.sin(t), math.cos(t)
        x, y, z = r * s * ct, r * s * st, r * c
        g = [a[0] + 2 * a[3] * x + a[4] * y, a[1] + a[4] * x + a[5] * z, a[2] + a[5] * y]   # f = a0 x + a1 y + a2 z + a3 x^2 + a4 xy + a5 yz
        d = [g[0] * s * ct + g[1] * s * st + g[2] * c, g[0] * (-r * s * st) + g[1] * (r * s * ct), g[0] * r * c * ct + g[1] * r * c * st - g[2] * r * s]
        try:
            out = [float(v) for v in gu.convert_derivative_from_spherical_to_cartesian(d[0], d[1], d[2], r, t, p)]
        except Exception as e:  # noqa: BLE001
            out = [float("nan")] * 3
        ctx.case(("grad", k))
        if not all(abs(u - v) <= 1e-8 * (1 + abs(v)) for u, v in zip(out, g)):
            pend.add(1, "search_jacobian", f"jac:{(r, t, p)}:{d}", out, f"convert_derivative_from_spherical_to_cartesian({d}, r={r!r}, theta={t!r}, phi={p!r}) = {out}; the Cartesian gradient is {g}",
                     {"kind": "jac", "d": d, "sph": (r, t, p), "expected": g})


def high_degree(ctx: Ctx, gu, mp, pend: Pending):
    """High degrees, cheaply: both routines at l_max = 170, 220 (thorough: also 300, 400) on a handful of angle pairs - every row of one
    against the other, the addition theorem for every degree, and the multiprecision reference on the rows with |m| >= l-2 (where an
    overflow/underflow of the running normalisation shows first) and on a random sample of the other rows."""
    quick = ctx.quick
    rng = ctx.rng
    pi = math.pi
    Ls = [170, 220] if quick else [170, 220, 300, 400]
    pts = [(0.6875, pi / 2), (-2.5, 1.5), (7.90625, 1.75), (1.0, 1.125), (2.0, 0.4375), (0.3125, 0.0)]
    th, ph = [q[0] for q in pts], [q[1] for q in pts]
    names = {"A": "generate_real_spherical_harmonics", "B": "generate_real_spherical_harmonics_scipy"}
    obl = {"A": "search_values_recursion", "B": "search_values_scipy"}
    fns = {"A": gu.generate_real_spherical_harmonics, "B": gu.generate_real_spherical_harmonics_scipy}

    def ref(l, m, t, p):
        with mp.workdps(max(120, l)):
            return float(o_Y(mp, l, m, mp.mpf(t), mp.mpf(p)))

    def report(w, L, l, m, j, val, yo, extra=""):
        i = row(l, m)
        pend.add(l, obl[w], f"sph:{w}:{l}:{m}:{th[j]!r}:{ph[j]!r}", float(val),
                 f"{names[w]}(l_max={L}): (l,m)=({l},{m}) [row {i}] at theta={th[j]!r}, phi={ph[j]!r} is {float(val)!r}, the definition gives {yo!r}{extra}",
                 {"kind": "sph", "impl": w, "l_max": L, "l": l, "m": m, "theta": th[j], "phi": ph[j], "expected": yo})

    for L in Ls:
        outs = {}
        for w in ("A", "B"):
            try:
                arr = np.asarray(fns[w](L, np.array(th, dtype=float), np.array(ph, dtype=float)), dtype=float)
            except Exception as e:  # noqa: BLE001
                arr = f"{type(e).__name__}: {str(e)[:100]}"
            if isinstance(arr, str) or arr.shape != ((L + 1) ** 2, len(pts)):
                pend.add(L, obl[w], f"values:{w}:{L}", str(arr)[:120] if isinstance(arr, str) else str(arr.shape),
                         f"{names[w]}({L}, ...) failed or has the wrong shape: {str(arr)[:120] if isinstance(arr, str) else arr.shape}",
                         {"kind": "shape", "fn": names[w], "l_max": L, "theta": th, "phi": ph})
                continue
            outs[w] = arr
        # (i) every row of one routine against the other
        if len(outs) == 2:
            A, B = outs["A"], outs["B"]
            d = np.abs(A - B) - TOL * (1 + np.abs(A))
            d[~np.isfinite(d)] = 1.0
            ctx.case(("hi-AvsB", L), traces=A.size)
            for i, j in sorted(zip(*np.where(d > 0)))[:MAXREP * 2]:
                l, m = lm_of(int(i))
                yo = ref(l, m, th[j], ph[j])
                w = "B" if not close(B[i, j], yo) else "A"
                report(w, L, l, m, j, outs[w][i, j], yo, f" (recursion {float(A[i, j])!r}, SciPy-based {float(B[i, j])!r})")
        # (ii) addition theorem for every degree (Legendre polynomials by the stable three-term recurrence, 60 digits)
        pairs = [(0, 1), (2, 3), (4, 0), (5, 2)]
        for a, b in pairs:
            cg = (mp.cos(mp.mpf(ph[a])) * mp.cos(mp.mpf(ph[b])) + mp.sin(mp.mpf(ph[a])) * mp.sin(mp.mpf(ph[b])) * mp.cos(mp.mpf(th[a]) - mp.mpf(th[b])))
            P = [mp.mpf(1), cg]
            for k in range(1, L):
                P.append(((2 * k + 1) * cg * P[k] - k * P[k - 1]) / (k + 1))
            for w, arr in outs.items():
                for l in range(L + 1):
                    sm = float(np.dot(arr[l * l:(l + 1) ** 2, a], arr[l * l:(l + 1) ** 2, b]))
                    exp = float((2 * l + 1) / (4 * mp.pi) * P[l])
                    if not (abs(sm - exp) <= 1e-9 * (2 * l + 1)):
                        pend.add(l, "search_addition_theorem", f"add:{w}:{l}:{th[a]!r}:{ph[a]!r}:{th[b]!r}:{ph[b]!r}", sm,
                                 f"{names[w]}(l_max={L}): sum_m Y_{l}m(a) Y_{l}m(b) = {sm!r} at a=({th[a]!r},{ph[a]!r}), b=({th[b]!r},{ph[b]!r}); (2l+1)/(4pi) P_l(cos gamma) = {exp!r}",
                                 {"kind": "add", "impl": w, "l": l, "a": [th[a], ph[a]], "b": [th[b], ph[b]], "expected": exp})
                        break      # the first failing degree of this pair is enough
            ctx.case(("hi-add", L, a, b), traces=2 * (L + 1))
    # (iii) multiprecision reference, largest l_max of the tier: rows with |m| >= l-2 for every l, and a random sample of the others
    L = Ls[-1]
    outs = {}
    for w in ("A", "B"):
        try:
            arr = np.asarray(fns[w](L, np.array(th, dtype=float), np.array(ph, dtype=float)), dtype=float)
            if arr.shape == ((L + 1) ** 2, len(pts)):
                outs[w] = arr
        except Exception:  # noqa: BLE001 - already reported above
            pass
    sel = [(l, m) for l in range(100, L + 1) for am in range(max(0, l - 2), l + 1) for m in ((am, -am) if am else (0,))]
    for _ in range(40 if quick else 120):
        l = rng.randint(100, L)
        am = rng.randint(0, l - 3)
        sel.append((l, rng.choice([am, -am])))
    nrep = {"A": 0, "B": 0}
    for l, m in sel:
        with mp.workdps(max(120, l)):
            fl = [o_F(mp, l, abs(m), mp.mpf(p)) for p in ph]
            ys = [float(f * o_az(mp, m, mp.mpf(t))) for f, t in zip(fl, th)]
        ctx.case(("hi-ref", l, m))
        for w, arr in outs.items():
            for j in range(len(pts)):
                if not close(arr[row(l, m), j], ys[j]) and nrep[w] < MAXREP * 2:
                    nrep[w] += 0 if ctx.is_known(f"sph:{w}:{l}:{m}:{th[j]!r}:{ph[j]!r}", float(arr[row(l, m), j])) else 1
                    report(w, L, l, m, j, arr[row(l, m), j], ys[j])
    ctx.count("high_degree_reference_rows", len(sel) * len(pts) * 2)


# ====================================================================== dtype / memory-layout variety of the inputs
def make_array(values, dtype, layout):
    """the same numbers as an ndarray of the given dtype and memory layout (values are exactly representable in dtype)"""
    a = np.array(values, dtype=dtype)
    if layout == "F":
        a = np.asfortranarray(a)
    elif layout == "strided":        # non-contiguous view: every second row/element of a larger buffer
        big = np.zeros((2 * a.shape[0],) + a.shape[1:], dtype=dtype)
        big[::2] = a
        a = big[::2]
    elif layout == "readonly":
        a.setflags(write=False)
    return a


def make_center(values, ctype):
    if values is None:
        return None
    if ctype == "list":
        return list(values)
    if ctype == "tuple":
        return tuple(values)
    return np.array(values, dtype=ctype)


def dtype_layout(ctx: Ctx, gu, mp, pend: Pending):
    """The routines are called with integer / float32 / longdouble / non-contiguous / read-only arrays (and list, tuple, integer and
    float32 centres); the expected values are those of the exact real numbers the arrays hold."""
    rng = ctx.rng
    # ---- convert_cart_to_sph
    ipts = [[1, 0, 0], [0, 2, 0], [1, 1, 1], [0, 0, 0], [3, -2, 5], [-4, 1, -2], [2, 2, 0], [0, 0, -3]]
    fpts = [[0.25, -1.5, 2.0], [1.0, 0.0, 0.0], [-0.75, 0.5, -0.125], [3.5, 2.25, -1.0], [0.25, 0.5, -0.75]]
    pvars = [(ipts, "int64", "C"), (ipts, "int32", "C"), ([[abs(v) for v in q] for q in ipts], "uint8", "C"), (ipts, "int64", "strided"),
             (fpts, "float32", "C"), (fpts, "float64", "F"), (fpts, "float64", "strided"), (fpts, "float64", "readonly"), (fpts, "longdouble", "C"),
             (ipts, "int16", "readonly")]
    cvars = [(None, None), ([0.25, 0.5, -0.75], "list"), ([0.25, 0.5, -0.75], "tuple"), ([1, 0, 2], "int64"), ([1, 0, 2], "list"),
             ([0.25, 0.5, -0.75], "float64"), ([0.5, -1.25, 0.125], "float32"), ([1.5, -2.25, 0.75], "float64")]
    for values, dt, lay in pvars:
        for cv, ct in cvars:
            P = make_array(values, dt, lay)
            before = np.array(P, copy=True)
            c = make_center(cv, ct)
            key = f"cart[{dt},{lay}]:center[{ct}]={cv}"
            rp = {"kind": "cartv", "points": values, "pdtype": dt, "layout": lay, "center": cv, "ctype": ct}
            ctx.case(("cartv", dt, lay, ct, str(cv)))
            ctx.count("cart_dtype_layout")
            try:
                out = np.asarray(gu.convert_cart_to_sph(P, c))
                single = out.dtype == np.float32
                out = np.asarray(out, dtype=float)
            except Exception as e:  # noqa: BLE001
                pend.add(0, "search_roundtrip", key, f"{type(e).__name__}", f"convert_cart_to_sph({dt} points [{lay}], center={cv} as {ct}) raised {type(e).__name__}: {str(e)[:100]}", rp)
                continue
            if not np.array_equal(np.asarray(P), before):
                pend.add(0, "search_roundtrip", key + ":mutated", "input modified", f"convert_cart_to_sph modified its {dt} input array", rp)
            tol = 1e-5 if single else TOL
            for k, pt in enumerate(values):
                exp = cart_expected(pt, cv)
                got = [float(v) for v in out[k]] if out.shape == (len(values), 3) else [float("nan")] * 3
                if not all(close(a, b, tol) for a, b in zip(got, exp)):
                    pend.add(0, "search_roundtrip", f"{key}:point={pt}", got,
                             f"convert_cart_to_sph(points of dtype {dt} [{lay}] containing {pt}, center={cv} given as {ct}) = {got}; the exact point minus the exact centre has (r,theta,phi) = {exp}",
                             {**rp, "index": k, "expected": exp})
                    break
    # ---- harmonics and their derivatives
    L = 6
    ith, iph = [0, -2, 7, 1, 2, -11], [0, 1, 2, 3, 1, 2]
    fth, fph = [0.3125, -2.5, 7.90625, 1.0, 2.0, 0.0], [0.0, 1.125, 2.0, 0.5, 3.0, 1.5]
    hvars = [(ith, iph, "int64", "C"), (ith, iph, "int32", "strided"), (fth, fph, "float32", "C"), (fth, fph, "float64", "strided"),
             (fth, fph, "float64", "readonly"), (ith, iph, "int16", "readonly")]
    refs = {}
    for tv, pv, dt, lay in hvars:
        kref = (tuple(tv), tuple(pv))
        if kref not in refs:
            Y = np.zeros(((L + 1) ** 2, len(tv)))
            D0, D1 = np.zeros_like(Y), np.zeros_like(Y)
            for j, (t, p) in enumerate(zip(tv, pv)):
                tm, pm = mp.mpf(t), mp.mpf(p)
                pole = abs(math.tan(p)) < 1e-10
                for l in range(L + 1):
                    for am in range(l + 1):
                        f, df = o_F(mp, l, am, pm), o_dF(mp, l, am, pm)
                        for m in ([0] if am == 0 else [am, -am]):
                            Y[row(l, m), j] = float(f * o_az(mp, m, tm))
                            D0[row(l, m), j] = float(-m * f * o_az(mp, -m, tm))
                            D1[row(l, m), j] = 0.0 if pole else float(df * o_az(mp, m, tm))
            refs[kref] = (Y, D0, D1)
        Y, D0, D1 = refs[kref]
        loose = dt in ("float32", "int16")     # NumPy/SciPy ufuncs compute these in single precision: single-precision accuracy is what the inputs carry
        for nm, fn, obl_, exp, tol in (
                ("generate_real_spherical_harmonics", gu.generate_real_spherical_harmonics, "search_values_recursion", Y, 1e-5 if loose else TOL),
                ("generate_real_spherical_harmonics_scipy", gu.generate_real_spherical_harmonics_scipy, "search_values_scipy", Y, 1e-4 if loose else TOL),
                ("generate_derivative_real_spherical_harmonics", gu.generate_derivative_real_spherical_harmonics, "search_derivative", np.stack([D0, D1]), 1e-3 if loose else 1e-8)):
            T_, P_ = make_array(tv, dt, lay), make_array(pv, dt, lay)
            bt, bp = np.array(T_, copy=True), np.array(P_, copy=True)
            key = f"{nm}({L})[{dt},{lay}]:theta={tv}:phi={pv}"
            rp = {"kind": "sphv", "fn": nm, "l_max": L, "theta": tv, "phi": pv, "dtype": dt, "layout": lay}
            ctx.case(("sphv", nm, dt, lay))
            ctx.count("harmonics_dtype_layout")
            try:
                out = np.asarray(fn(L, T_, P_), dtype=float)
            except Exception as e:  # noqa: BLE001
                pend.add(0, obl_, key, f"{type(e).__name__}", f"{nm}({L}, theta, phi) with {dt} arrays [{lay}] raised {type(e).__name__}: {str(e)[:100]}", rp)
                continue
            if not (np.array_equal(np.asarray(T_), bt) and np.array_equal(np.asarray(P_), bp)):
                pend.add(0, obl_, key + ":mutated", "input modified", f"{nm} modified its {dt} input arrays", rp)
            if out.shape != exp.shape:
                pend.add(0, obl_, key, str(out.shape), f"{nm}({L}, ...) with {dt} arrays [{lay}] has shape {out.shape}, expected {exp.shape}", rp)
                continue
            d = np.abs(out - exp) - tol * (1 + np.abs(exp))
            d[~np.isfinite(d)] = 1.0
            if np.any(d > 0):
                idx = tuple(int(v) for v in np.argwhere(d > 0)[0])
                l, m = lm_of(idx[-2])
                pend.add(l, obl_, f"{key}:{idx}", float(out[idx]),
                         f"{nm}({L}, theta={tv}, phi={pv} as {dt} arrays [{lay}]){list(idx)} = {float(out[idx])!r}, (l,m)=({l},{m}); for the exact angles {tv[idx[-1]]}, {pv[idx[-1]]} the value is {float(exp[idx])!r}",
                         {**rp, "index": list(idx), "expected": float(exp[idx])})
    # ---- solid harmonics
    Ls = 4
    isph = [[0, 1, 1], [2, -2, 3], [1, 7, 0], [3, 0, 2]]
    fsph = [[0.0, 0.5, 1.0], [2.5, -2.5, 0.5], [0.3125, 7.90625, 1.5], [1.0, 1.0, 3.0]]
    for values, dt, lay in [(isph, "int64", "C"), (isph, "int32", "F"), (fsph, "float32", "C"), (fsph, "float64", "F"), (fsph, "float64", "strided"), (fsph, "float64", "readonly")]:
        S_ = make_array(values, dt, lay)
        key = f"solid_harmonics({Ls})[{dt},{lay}]:{values}"
        rp = {"kind": "solidv", "l_max": Ls, "pts": values, "dtype": dt, "layout": lay}
        ctx.case(("solidv", dt, lay))
        try:
            out = np.asarray(gu.solid_harmonics(Ls, S_), dtype=float)
        except Exception as e:  # noqa: BLE001
            pend.add(0, "search_solid", key, f"{type(e).__name__}", f"solid_harmonics({Ls}, {dt} array [{lay}]) raised {type(e).__name__}: {str(e)[:100]}", rp)
            continue
        tol = 1e-4 if dt == "float32" else TOL
        bad = None
        for j, (r, t, p) in enumerate(values):
            for l in range(Ls + 1):
                for m in m_order(l):
                    yo = float(mp.sqrt(4 * mp.pi / (2 * l + 1)) * mp.mpf(r) ** l * o_Y(mp, l, m, mp.mpf(t), mp.mpf(p)))
                    got = float(out[row(l, m), j]) if out.shape == ((Ls + 1) ** 2, len(values)) else float("nan")
                    if bad is None and not close(got, yo, tol):
                        bad = (l, m, j, got, yo)
        if bad:
            l, m, j, got, yo = bad
            pend.add(l, "search_solid", f"{key}:{l}:{m}:{j}", got,
                     f"solid_harmonics({Ls}, {dt} array [{lay}]) (l,m)=({l},{m}) at (r,theta,phi)={values[j]} is {got!r}; sqrt(4pi/(2l+1)) r^l Y_lm = {yo!r}",
                     {**rp, "l": l, "m": m, "index": j, "expected": yo})


def solid_range(ctx: Ctx, gu, mp, pend: Pending):
    """solid_harmonics over the whole range of its result type: radii far from one combined with degrees for which r^l leaves the
    double range (the routine returns extended precision), and integer-typed points whose r^l exceeds 2^63.  Compared in
    multiprecision with a RELATIVE tolerance (1e-9), on the rows m = 0, +-1, +-(l-1), +-l and a random one, for a ladder of degrees."""
    rng = ctx.rng
    pi = math.pi
    configs = [("float64", 140, [[250.0, 0.5, 1.0], [2.0e-3, -2.5, 2.0], [250.0, 1.0, 0.0], [1.0e3, 7.9, pi / 2], [1.0e-2, 0.3, pi - 0.5]]),
               ("int64", 45, [[10, 0, 0], [3, 1, 2], [7, -2, 1], [1000, 2, 3]]),
               ("int32", 30, [[10, 1, 1], [100, 0, 2]]),
               ("float32", 60, [[100.0, 0.5, 1.0], [0.0078125, 2.0, 2.5]])]
    lmaxld = float(np.finfo(np.longdouble).max)
    for dt, L, values in configs:
        key0 = f"solid_harmonics({L})[{dt}]:{values}"
        rp0 = {"kind": "solidv", "l_max": L, "pts": values, "dtype": dt, "layout": "C"}
        ctx.case(("solid-range", dt, L))
        try:
            out = np.asarray(gu.solid_harmonics(L, make_array(values, dt, "C")))
        except Exception as e:  # noqa: BLE001
            pend.add(0, "search_solid", key0, f"{type(e).__name__}", f"solid_harmonics({L}, {dt} array {values}) raised {type(e).__name__}: {str(e)[:100]}", rp0)
            continue
        if out.shape != ((L + 1) ** 2, len(values)):
            pend.add(0, "search_solid", key0, str(out.shape), f"solid_harmonics({L}, {dt} array) has shape {out.shape}", rp0)
            continue
        degs = sorted(set(range(0, L + 1, 7)) | {L, L - 1, 19, 20, 40} & set(range(L + 1)))
        rtol = 1e-4 if dt == "float32" else TOL
        done = False
        for l in degs:
            ms = {0, min(1, l), -min(1, l), l, -l, max(l - 1, 0), -max(l - 1, 0), rng.randint(-l, l)}
            for m in sorted(ms):
                for j, (r, t, p) in enumerate(values):
                    with mp.workdps(max(120, 2 * l)):
                        exp = mp.sqrt(4 * mp.pi / (2 * l + 1)) * mp.mpf(r) ** l * o_Y(mp, l, m, mp.mpf(t), mp.mpf(p))
                        if abs(exp) > lmaxld / 1e10:
                            continue
                        raw = out[row(l, m), j]
                        got = mp.mpf(str(raw)) if np.isfinite(raw) else mp.mpf("nan")
                        ok = mp.isfinite(got) and abs(got - exp) <= rtol * abs(exp) + mp.mpf(10) ** -300
                    ctx.count("solid_range_values")
                    if not ok and not done:
                        done = True     # first failing row of this configuration
                        pend.add(l, "search_solid", f"{key0}:{l}:{m}:{j}", str(raw),
                                 f"solid_harmonics({L}, {dt} array) (l,m)=({l},{m}) at (r,theta,phi)={values[j]} is {raw!r}; sqrt(4pi/(2l+1)) r^l Y_lm = {mp.nstr(exp, 17)} "
                                 f"(r^l = {mp.nstr(mp.mpf(r) ** l, 6)})",
                                 {**rp0, "l": l, "m": m, "index": j, "expected": mp.nstr(exp, 25), "relative": True})


def outside_principal_range(ctx: Ctx, gu, mp, pend):
    """Polar angles outside [0, pi] ("If this angle is outside of bounds, then periodicity is used" in both docstrings):
    the two implementations and the derivative routine are probed at fixed inputs; each disagreement is reported with a stable key
    (listed in known_findings.jsonl when it is a defect of the unchanged code)."""
    t = 1.0
    # negative with sin < 0, beyond pi, negative with sin > 0, beyond 2 pi, below -2 pi
    for p in (-0.5, 4.0, -4.0, 7.5, -7.0):
        tm, pm = mp.mpf(t), mp.mpf(p)
        try:
            A = np.asarray(gu.generate_real_spherical_harmonics(3, np.array([t]), np.array([p])), dtype=float)[:, 0]
            B = np.asarray(gu.generate_real_spherical_harmonics_scipy(3, np.array([t]), np.array([p])), dtype=float)[:, 0]
            D = np.asarray(gu.generate_derivative_real_spherical_harmonics(3, np.array([t]), np.array([p])), dtype=float)[:, :, 0]
        except Exception as e:  # noqa: BLE001
            pend.add(1, "range_phi_outside", f"phi-outside:crash:{p!r}", f"{type(e).__name__}", f"a harmonics routine raised {type(e).__name__} at theta={t}, phi={p}",
                     {"kind": "outside", "theta": t, "phi": p})
            continue
        first = {"ab": True, "d": True, "a": True}
        for i in range(16):
            l, m = lm_of(i)
            yo = float(o_Y(mp, l, m, tm, pm))     # analytic continuation (signed sine) = value at the point the parametrisation reaches
            ctx.case(("outside", p, l, m))
            if not close(A[i], yo) and first["a"]:
                first["a"] = False
                pend.add(1, "range_phi_outside", f"generate_real_spherical_harmonics({l},[{t}],[{p}])[{i}]", float(A[i]),
                         f"recursion at polar angle {p} outside [0,pi], (l,m)=({l},{m}): {float(A[i])!r}, Y_lm of the point r(sin phi cos theta, sin phi sin theta, cos phi) is {yo!r}",
                         {"kind": "outside", "what": "A", "l": l, "m": m, "theta": t, "phi": p, "expected": yo})
            if not close(B[i], A[i]) and first["ab"]:
                first["ab"] = False
                pend.add(1, "range_phi_outside", f"generate_real_spherical_harmonics_scipy({l},[{t}],[{p}])[{i}]", float(B[i]),
                         f"polar angle {p} outside [0,pi] (both docstrings: 'periodicity is used'): the SciPy-based routine returns {float(B[i])!r} for (l,m)=({l},{m}) at theta={t}, "
                         f"the recursion returns {float(A[i])!r} (= Y_lm of the point the parametrisation reaches, {yo!r}); the implementations disagree in sign for odd m",
                         {"kind": "outside", "what": "B", "l": l, "m": m, "theta": t, "phi": p, "expected": yo})
            e1 = float(o_dF(mp, l, abs(m), pm) * o_az(mp, m, tm))
            if not close(D[1, i], e1, 1e-8) and first["d"]:
                first["d"] = False
                pend.add(1, "range_phi_outside", f"generate_derivative_real_spherical_harmonics({l},[{t}],[{p}])[1,{i}]", float(D[1, i]),
                         f"polar angle {p} outside [0,pi]: the routine's d/dphi of (l,m)=({l},{m}) at theta={t} is {float(D[1, i])!r}, the derivative of the function "
                         f"generate_real_spherical_harmonics returns is {e1!r} (the raising term comes from SciPy, which uses |sin phi|)",
                         {"kind": "outside", "what": "D", "l": l, "m": m, "theta": t, "phi": p, "expected": e1})


# ====================================================================== replay
def replay(rp):
    import grid.utils as gu

    print(json.dumps({k: v for k, v in rp.items() if k not in ("traceback", "coq_log_tail")}, indent=1, default=str)[:3000])
    mp = _mp()
    kind = rp.get("kind")
    if kind in ("sph", "outside") and rp.get("what", rp.get("impl")) in ("A", "B"):
        w = rp.get("what", rp.get("impl"))
        fn = gu.generate_real_spherical_harmonics if w == "A" else gu.generate_real_spherical_harmonics_scipy
        L = rp.get("l_max", max(rp["l"], 1))
        v = float(np.asarray(fn(L, np.array([rp["theta"]]), np.array([rp["phi"]])), dtype=float)[row(rp["l"], rp["m"]), 0])
        with mp.workdps(max(120, rp["l"])):
            exp = float(o_Y(mp, rp["l"], rp["m"], mp.mpf(rp["theta"]), mp.mpf(rp["phi"])))
        print(f"{fn.__name__}({L}, [{rp['theta']!r}], [{rp['phi']!r}])[{row(rp['l'], rp['m'])}] = {v!r}; definition: {exp!r}")
        return 0 if close(v, exp) else 1
    if kind == "der" or (kind == "outside" and rp.get("what") == "D"):
        L = rp.get("l_max", max(rp["l"], 1))
        k = rp.get("block", 1)
        v = float(np.asarray(gu.generate_derivative_real_spherical_harmonics(L, np.array([rp["theta"]]), np.array([rp["phi"]])), dtype=float)[k, row(rp["l"], rp["m"]), 0])
        print(f"generate_derivative_real_spherical_harmonics({L}, [{rp['theta']!r}], [{rp['phi']!r}])[{k}, {row(rp['l'], rp['m'])}] = {v!r}; expected {rp['expected']!r}")
        return 0 if close(v, rp["expected"], 1e-8) else 1
    if kind == "solid":
        v = float(np.asarray(gu.solid_harmonics(rp["l_max"], np.array([rp["pt"]], dtype=float)), dtype=float)[row(rp["l"], rp["m"]), 0])
        print(f"solid_harmonics({rp['l_max']}, [{rp['pt']}])[{row(rp['l'], rp['m'])}] = {v!r}; expected {rp['expected']!r}")
        return 0 if close(v, rp["expected"]) else 1
    if kind == "cart":
        c = rp.get("center")
        v = [float(x) for x in np.asarray(gu.convert_cart_to_sph(np.array([rp["point"]], dtype=float), None if c is None else np.array(c, dtype=float)))[0]]
        exp = rp.get("expected") or cart_expected(rp["point"], c)
        print(f"convert_cart_to_sph({rp['point']}, center={c}) = {v}; expected {exp}")
        return 0 if all(close(a, b) for a, b in zip(v, exp)) else 1
    if kind == "jac":
        v = [float(x) for x in gu.convert_derivative_from_spherical_to_cartesian(*rp["d"], *rp["sph"])]
        exp = rp.get("expected") or jac_expected(rp["d"], rp["sph"])
        print(f"convert_derivative_from_spherical_to_cartesian{(*rp['d'], *rp['sph'])} = {v}; expected {exp}")
        return 0 if all(close(a, b, 1e-8) for a, b in zip(v, exp)) else 1
    if kind == "add":
        fn = gu.generate_real_spherical_harmonics if rp["impl"] == "A" else gu.generate_real_spherical_harmonics_scipy
        l = rp["l"]
        ya = np.asarray(fn(l, np.array([rp["a"][0]]), np.array([rp["a"][1]])), dtype=float)[l * l:, 0]
        yb = np.asarray(fn(l, np.array([rp["b"][0]]), np.array([rp["b"][1]])), dtype=float)[l * l:, 0]
        s = float(np.dot(ya, yb))
        print(f"sum_m Y_lm(a) Y_lm(b) = {s!r}; (2l+1)/(4 pi) P_l(cos gamma) = {rp['expected']!r}")
        return 0 if abs(s - rp["expected"]) <= 1e-9 * (2 * l + 1) else 1
    if kind == "cartv":
        P, c = make_array(rp["points"], rp["pdtype"], rp["layout"]), make_center(rp["center"], rp["ctype"])
        out = np.asarray(gu.convert_cart_to_sph(P, c), dtype=float)
        k = rp.get("index", 0)
        exp = cart_expected(rp["points"][k], rp["center"])
        print(f"convert_cart_to_sph({rp['pdtype']} points [{rp['layout']}], center={rp['center']} as {rp['ctype']})[{k}] = {out[k].tolist()}; expected {exp}")
        return 0 if all(close(a, b, 1e-5) for a, b in zip(out[k], exp)) and (P.dtype == np.float32 or all(close(a, b) for a, b in zip(out[k], exp))) else 1
    if kind == "sphv":
        fn = getattr(gu, rp["fn"])
        out = np.asarray(fn(rp["l_max"], make_array(rp["theta"], rp["dtype"], rp["layout"]), make_array(rp["phi"], rp["dtype"], rp["layout"])), dtype=float)
        idx = tuple(rp.get("index", [0, 0]))
        print(f"{rp['fn']}(..., {rp['dtype']} arrays [{rp['layout']}]){list(idx)} = {float(out[idx])!r}; expected {rp.get('expected')!r}")
        return 0 if close(out[idx], rp.get("expected", out[idx]), 1e-3 if rp["dtype"] in ("float32", "int16") else 1e-8) else 1
    if kind == "solidv" and rp.get("relative"):
        raw = np.asarray(gu.solid_harmonics(rp["l_max"], make_array(rp["pts"], rp["dtype"], rp["layout"])))[row(rp["l"], rp["m"]), rp["index"]]
        exp = mp.mpf(rp["expected"])
        print(f"solid_harmonics({rp['l_max']}, {rp['dtype']} array)[{row(rp['l'], rp['m'])}, {rp['index']}] = {raw!r}; expected {rp['expected']}")
        return 0 if np.isfinite(raw) and abs(mp.mpf(str(raw)) - exp) <= (1e-4 if rp["dtype"] == "float32" else 1e-9) * abs(exp) else 1
    if kind == "solidv":
        out = np.asarray(gu.solid_harmonics(rp["l_max"], make_array(rp["pts"], rp["dtype"], rp["layout"])), dtype=float)
        v = float(out[row(rp["l"], rp["m"]), rp["index"]])
        print(f"solid_harmonics({rp['l_max']}, {rp['dtype']} array [{rp['layout']}])[{row(rp['l'], rp['m'])}, {rp['index']}] = {v!r}; expected {rp['expected']!r}")
        return 0 if close(v, rp["expected"], 1e-4 if rp["dtype"] == "float32" else TOL) else 1
    if kind == "oracle":
        from scipy.special import sph_harm_y

        z = complex(sph_harm_y(rp["l"], rp["m"], rp["polar"], rp["azimuth"]))
        print(f"sph_harm_y = {z!r}; expected {rp['expected']}")
        return 0 if close(z.real, rp["expected"][0]) and close(z.imag, rp["expected"][1]) else 1
    print("reproduce:", rp.get("reproduce", "(see text)"))
    return 0
