"""C20 — library calls never modify the caller's arrays, dictionaries or callback results.

gen:   every function / method / nested function / lambda of the ten anchored modules is translated
       (props/c20_translate.py, Python ast -> effect IR, fail closed) into build/C20/C20_gen.v together with
       the summaries (ok / may run user code / fresh result) found by the Python mirror of the checker
       (props/c20_absint.py); C20_proofs_gen.v re-checks everything with the Coq checker by vm_compute.
prove: coq/C20/*.v: heap semantics of the IR, flow-sensitive partition-based may-alias checker, and
       `analysis_sound` (for all programs, summaries, call depths, executions).
tie:   (static)  the set of functions the checker rejects must be exactly the pinned exception list, with
                 exactly the pinned failing sites (a new write site anywhere = violation);
       (dynamic) props/c20_dyn.py: >120 public calls in 5 aliasing modes (plain snapshots, read-only
                 arrays, same array for two parameters, callbacks returning their argument / a cached
                 array); every observed mutation must be predicted by the static analysis (entry point
                 rejected by the checker and write site among its failing sites), otherwise the tie is
                 broken; every observed mutation is a violation of the property itself (known findings
                 for the defects of the pinned commit).
"""
from __future__ import annotations

import ast
import hashlib
import importlib
import json
import sys
import time

from vlib.core import SRC, Ctx, src_sha

from props import c20_absint as AI
from props import c20_translate as TR

# ---------------------------------------------------------------------------------------------------------
# Pinned expectations for the commit under verification.  A root cause is a function whose own body
# contains a failing write site; "defect" = genuine defect of the code (known finding, re-derived on every
# run), "subset" = the body leaves what the IR can express precisely (calls of closures stored in a list
# are treated as user callbacks, whose results are protected) - these are covered by the dynamic tie only.
EXPECTED_ROOTS = {
    # (the three genuine defects of the originally pinned commit - ode._rearrange_to_explicit_ode `result -= ...`,
    #  poisson._solve_poisson_{ivp,bvp}_atomgrid `ode_params.setdefault` - are fixed in /repo; their findings are
    #  recorded as fixed in known_findings.jsonl, so a re-introduction is reported as a new violation)
    "poisson._interpolate_molgrid_helper.sum_of_interpolation_functions": ("subset", [
        ("augmented assignment", "output += interpolate(points)")]),
    "poisson.interpolate_laplacian.sum_of_interpolation_funcs": ("subset", [
        ("augmented assignment", "output += interpolate(points, cut_off)")]),
    "molgrid.MolGrid.interpolate.interpolate_low": ("subset", [
        ("augmented assignment", "output += interpolate(points, deriv, deriv_spherical, only_radial_derivs)")]),
}
# functions rejected only because they call / create closures of rejected functions
EXPECTED_DEPENDENTS = {
    "poisson._interpolate_molgrid_helper", "poisson.solve_poisson_ivp", "poisson.solve_poisson_bvp",
    "poisson.interpolate_laplacian", "molgrid.MolGrid.interpolate", "robust_poisson.solve_poisson_robust",
}
EXPECTED_UNSUPPORTED: set = set()


def norm_name(n: str) -> str:
    """lambda names carry line:col; the pinned lists do not"""
    import re

    return re.sub(r"<lambda@\d+:\d+>", "<lambda>", n)


# ====================================================================== gen
def build_static(src_dir):
    prog = TR.translate_program(src_dir)
    funs = []
    for u in prog.units:
        if u.ir is None:
            body, np_, nv = TR.stub_ir(u)
        else:
            body, np_, nv = u.ir, u.nparams, u.nvars
        funs.append({"nparams": np_, "nvars": nv, "body": body})
    Sg, verd = AI.solve_summaries(funs)
    return prog, funs, Sg, verd


def gen(ctx: Ctx, prog, funs, Sg, verd):
    L = ["(* generated from /repo/src/grid/{" + ",".join(prog.modules) + "}.py on every run; do not edit *)",
         "From Coq Require Import List.", "From P Require Import C20_ir.", "Import ListNotations.", ""]
    units = []
    for u, fn in zip(prog.units, funs):
        L.append(f"(* {u.fid}: {u.name}  [{u.module}.py:{u.lines[0]}-{u.lines[1]}]" + (f"  UNSUPPORTED: {u.error}" if u.ir is None else "") + " *)")
        L.append(f"Definition f_{u.fid} : fundef := {{| f_nparams := {fn['nparams']}; f_nvars := {fn['nvars']}; f_body :=")
        L.append("  " + TR.coq_block(fn["body"]) + " |}.")
        seg = ast.get_source_segment(prog.sources[u.module], u.node) or ""
        units.append({"unit": u.name, "file": f"src/grid/{u.module}.py", "lines": list(u.lines), "sha": src_sha(seg)})
    L.append("")
    L.append("Definition prog : program := [" + "; ".join(f"f_{u.fid}" for u in prog.units) + "].")
    b = lambda x: "true" if x else "false"
    L.append("Definition sigma_gen : sigma := [" + ";\n  ".join(
        f"{{| s_ok := {b(s['ok'])}; s_user := {b(s['user'])}; s_fresh := {b(s['fresh'])} |}}" for s in Sg) + "].")
    exc = [u.fid for u, s in zip(prog.units, Sg) if not s["ok"]]
    L.append("Definition exceptions : list nat := [" + "; ".join(map(str, exc)) + "].")
    roots = [(u.fid, v[1], v[2]) for u, s, v in zip(prog.units, Sg, verd) if not s["ok"] and v[0] == "bad" and v[2] in (1, 2)]
    L.append("Definition defect_sites : list (nat * nat * nat) := [" + "; ".join(f"({a}, {c}, {d})" for a, c, d in roots) + "].")
    ctx.gen("C20_gen.v", "\n".join(L) + "\n", units)
    P = """(* generated: the Coq checker re-checks the generated program and summaries by vm_compute *)
From Coq Require Import Arith List Bool.
From P Require Import C20_ir C20_proofs_main C20_gen.
Import ListNotations.

Lemma static_lemma :
  check_prog sigma_gen prog = true /\\
  forallb (fun f => s_ok (sig sigma_gen f) || existsb (Nat.eqb f) exceptions) (seq 0 (length prog)) = true.
Proof. split; vm_compute; reflexivity. Qed.

Lemma generated_sound_lemma : forall f, f < length prog -> existsb (Nat.eqb f) exceptions = false ->
  forall n vs h h' s s' r,
    heap_wf h -> (forall l0, In (Some l0) vs -> l0 < next h) -> entry_snap h vs s ->
    callsem prog n f vs h s h' s' r ->
    (forall l, reachl h vs l -> data h' l = data h l) /\\
    (forall l d, s' l = Some d -> data h' l = d).
Proof.
  intros f Hf HE. apply (analysis_sound_lemma sigma_gen prog f).
  exact (not_exception_ok sigma_gen prog exceptions f (proj1 static_lemma) (proj2 static_lemma) Hf HE).
Qed.

Lemma exceptions_fail_lemma :
  forallb (fun f => match nth_error prog f with
                    | Some fd => negb (is_ok (verdict sigma_gen f fd))
                    | None => false end) exceptions = true.
Proof. vm_compute. reflexivity. Qed.

Lemma refuted_lemma :
  forallb (fun t => match t with (f, site, why) =>
     match nth_error prog f with
     | Some fd => match verdict sigma_gen f fd with Bad s w => Nat.eqb s site && Nat.eqb w why | Ok _ => false end
     | None => false end end) defect_sites = true.
Proof. vm_compute. reflexivity. Qed.
"""
    ctx.gen("C20_proofs_gen.v", P)
    return exc, roots


# ====================================================================== static expectations
def site_key(prog, sid):
    s = prog.sites[sid]
    return (s["what"], s["text"])


def site_str(prog, sid):
    s = prog.sites[sid]
    return f"{s['file']}:{s['func']}:{s['line']}: {s['text']}  [{s['what']}]"


def static_report(ctx: Ctx, prog, funs, Sg, verd):
    """compare the rejected functions and their failing sites with the pinned expectation; returns
    (alarms, info): alarms = list of dicts for unexpected failing sites / functions"""
    alarms = []
    info = {"roots": {}, "dependents": [], "bad_sites": {}}
    for u, fn, s, v in zip(prog.units, funs, Sg, verd):
        nm = norm_name(u.name)
        if u.ir is None and nm not in EXPECTED_UNSUPPORTED:
            alarms.append({"kind": "unsupported", "func": u.name, "text": u.error, "sites": []})
            continue
        if s["ok"]:
            continue
        sites = AI.all_bad_sites(Sg, fn)
        own = [(sid, w) for sid, w in sites if w in (1, 2)]
        other = [(sid, w) for sid, w in sites if w not in (1, 2, 3)]
        info["bad_sites"][u.name] = [site_str(prog, sid) + f" why={w}" for sid, w in sites]
        exp = EXPECTED_ROOTS.get(nm)
        exp_sites = set(exp[1]) if exp else set()
        new = [(sid, w) for sid, w in own if site_key(prog, sid) not in exp_sites]
        if other:
            alarms.append({"kind": "checker-failure", "func": u.name, "text": f"checker failed with reason {other}", "sites": []})
        if new:
            alarms.append({"kind": "new-write-site", "func": u.name, "sites": [sid for sid, _ in new],
                           "text": "; ".join(site_str(prog, sid) for sid, _ in new)})
        if own:
            info["roots"][u.name] = {"category": exp[0] if exp else "NEW", "sites": [site_str(prog, sid) for sid, _ in own]}
        else:
            info["dependents"].append(u.name)
            if nm not in EXPECTED_DEPENDENTS and nm not in EXPECTED_ROOTS:
                # rejected only through a rejected callee: acceptable iff that callee is itself accounted for;
                # still pinned so that a change of the call graph is visible
                alarms.append({"kind": "new-dependent", "func": u.name, "sites": [sid for sid, _ in sites],
                               "text": "rejected because it calls / creates a closure of a rejected function: " +
                                       "; ".join(site_str(prog, sid) for sid, _ in sites)})
    return alarms, info


# ====================================================================== run
def run(ctx: Ctx):
    t0 = time.time()
    prog, funs, Sg, verd = build_static(SRC)
    exc, roots = gen(ctx, prog, funs, Sg, verd)
    ctx.copy_coq("C20")
    status = ctx.coq_build()
    ctx.register_props(status)
    ctx.notes.append(f"static: {len(prog.units)} functions translated, {sum(s['ok'] for s in Sg)} accepted, "
                     f"{len(exc)} exceptions, coq build {time.time() - t0:.1f}s")
    alarms, info = static_report(ctx, prog, funs, Sg, verd)
    ctx.cov["static"] = {
        "functions": len(prog.units), "accepted": sum(s["ok"] for s in Sg),
        "fresh_result": sum(s["fresh"] for s in Sg), "may_run_user_code": sum(s["user"] for s in Sg),
        "root_causes": info["roots"], "rejected_only_through_callees": info["dependents"],
        "covered_by_dynamic_tie_only": sorted(n for n, r in info["roots"].items() if r["category"] == "subset") + info["dependents"],
    }
    # translation validation: the python mirror and the Coq checker agree (the Coq side is authoritative)
    if not status.get("C20_proofs_gen.v", False):
        ctx.fail("C20_static", "static:coq-checker-disagrees", None,
                 "the Coq checker does not accept the generated program with the generated summaries "
                 "(C20_proofs_gen.v failed)", {"log": ctx.logs.get("C20_proofs_gen.v", "")[-2000:]}, found_input=False)
    validate_externals(ctx)
    dyn = run_dynamic(ctx, prog, Sg, info)
    if any(a["kind"] != "new-dependent" for a in alarms):
        alarms = [a for a in alarms if a["kind"] != "new-dependent"]  # consequences of the root alarms
    # ---- unexpected static alarms: look for a concrete failing input among the dynamic observations, then by
    # a targeted search over systematic variations of the entry points that reach the rejected function
    for a in alarms:
        lines = {(prog.sites[sid]["file"], prog.sites[sid]["line"]) for sid in a["sites"]}
        hit = None
        for o in dyn["observations"]:
            if any(st.startswith(f"{f}:") and st.endswith(f":{ln}") for st in o.get("all_sites", []) for f, ln in lines):
                hit = o
                break
        if hit is not None:
            ctx.fail("C20_static", f"static:{a['kind']}:{norm_name(a['func'])}:{hit['key']}", hit["observed"],
                     f"the checker rejects {a['func']} ({a['text']}); concrete input: {hit['text']}",
                     {"static": a, "dynamic": hit, "reproduce": hit.get("repro")})
            continue
        cands = targeted_search(ctx, prog, funs, a, lines, dyn)
        ctx.broken_tie("C20_static", f"{a['kind']}: {a['func']}: {a['text']}", cands)
    ctx.cov["rule"] = (
        "static: every function/method/nested function/lambda of the 10 anchored modules is translated and checked; "
        "dynamic: one case = one public call with fresh small inputs, run in the modes plain / readonly / same-array / "
        "callback-returns-argument / callback-returns-cached-array; distinct = (case id, mode)")
    ctx.trusted += [
        "py2coq/effects translator props/c20_translate.py (Python ast -> effect IR): abstraction choices listed in its "
        "docstring; effect tables of NumPy/SciPy/builtin functions and methods (fresh / view / mutating); "
        "grid functions outside the 10 modules assumed non-mutating: " + ", ".join(sorted(TR.GRID_EXT)),
        "parameters annotated int/float/str/bool and values of len/int/float/.shape/.size/.ndim are no objects",
        "binary arithmetic on operands that are not syntactically lists yields a fresh object; subscript assignment "
        "into an object not known to be a list/dict copies values",
        "user callbacks and SciPy solvers do not modify arrays they are given (CallUser semantics)",
        "module-level constants and caches are not caller data (property C19 covers caches)",
        "the python mirror props/c20_absint.py only proposes summaries; Coq re-checks them (C20_static)",
    ]


# ====================================================================== external assumptions
def _arrays_in(x, depth=0):
    import numpy as np

    if isinstance(x, np.ndarray):
        yield x
    elif isinstance(x, (list, tuple)) and depth < 4:
        for y in x:
            yield from _arrays_in(y, depth + 1)
    elif isinstance(x, dict) and depth < 4:
        for y in x.values():
            yield from _arrays_in(y, depth + 1)
    elif hasattr(x, "__dict__") and depth < 3:
        for y in vars(x).values():
            yield from _arrays_in(y, depth + 1)


def validate_externals(ctx: Ctx):
    """the grid functions outside the translated modules that the translator assumes non-mutating (and,
    for "fresh", not sharing their result with the arguments) are run on samples with read-only arguments"""
    import numpy as np

    import grid.angular as ga
    import grid.coulomb as gc
    import grid.onedgrid as go
    import grid.utils as gu

    rs = np.random.RandomState(ctx.seed + 20)
    pts = rs.rand(7, 3) + 0.1
    th, ph = rs.rand(6) * 3, rs.rand(6) * 6
    samples = {
        "grid.utils.convert_cart_to_sph": lambda: (gu.convert_cart_to_sph, (pts.copy(), np.array([0.1, 0.2, 0.3]))),
        "grid.utils.generate_real_spherical_harmonics": lambda: (gu.generate_real_spherical_harmonics, (3, th.copy(), ph.copy())),
        "grid.utils.generate_derivative_real_spherical_harmonics": lambda: (gu.generate_derivative_real_spherical_harmonics, (2, th.copy(), ph.copy())),
        "grid.utils.solid_harmonics": lambda: (gu.solid_harmonics, (2, gu.convert_cart_to_sph(pts))),
        "grid.utils.generate_orders_horton_order": lambda: (gu.generate_orders_horton_order, (2, "cartesian", 3)),
        "grid.utils.get_cov_radii": lambda: (gu.get_cov_radii, (np.arange(1, 10), "bragg")),
        "grid.utils.convert_derivative_from_spherical_to_cartesian": lambda: (gu.convert_derivative_from_spherical_to_cartesian, (0.3, 0.2, 0.1, 1.2, 0.7, 0.4)),
        "grid.coulomb.coulomb_potential": lambda: (gc.coulomb_potential, (pts.copy(), pts[:2].copy(), np.array([1.0, 2.0]), np.array([0.5, 1.5]))),
        "grid.coulomb.load_atomic_gaussian_params": lambda: (gc.load_atomic_gaussian_params, (6,)),
        "grid.angular.AngularGrid": lambda: (lambda d: ga.AngularGrid(degree=d), (5,)),
        "grid.onedgrid.UniformInteger": lambda: (go.UniformInteger, (8,)),
        "convert_angular_sizes_to_degrees": lambda: (ga.AngularGrid.convert_angular_sizes_to_degrees, (np.array([6, 14, 26]), "lebedev")),
        "_get_degree_and_size": lambda: (lambda: ga.AngularGrid._get_degree_and_size(degree=5, size=None, method="lebedev"), ()),
    }
    kinds = dict(TR.GRID_EXT)
    kinds.update(TR.GRID_EXT_METHODS)
    n = 0
    for name, kind in kinds.items():
        if kind == "const":
            continue
        if name not in samples:
            ctx.fail("ext_assumption", f"ext:{name}:no-sample", None, f"no validation sample for external {name}", found_input=False)
            continue
        f, args = samples[name]()
        arrs = [a for a in args if isinstance(a, np.ndarray)]
        before = [a.tobytes() for a in arrs]
        for a in arrs:
            a.flags.writeable = False
        try:
            res = f(*args)
        except Exception as e:  # noqa: BLE001
            ctx.fail("ext_assumption", f"ext:{name}", type(e).__name__,
                     f"external {name} raised {type(e).__name__}: {e} on read-only sample arguments",
                     {"reproduce": f"{name} with read-only arrays"})
            continue
        n += 1
        ctx.case(("ext", name))
        if any(a.tobytes() != b for a, b in zip(arrs, before)):
            ctx.fail("ext_assumption", f"ext:{name}:mutates", "mutated", f"external {name} modifies its argument")
        if kind == "fresh":
            for r in _arrays_in(res):
                if any(np.shares_memory(r, a) for a in arrs):
                    ctx.fail("ext_assumption", f"ext:{name}:shares", "shares", f"result of external {name} shares memory with an argument (assumed fresh)")
    ctx.count("external_assumptions_validated", n)


# ====================================================================== targeted search
def _calls_of(stmts, acc):
    for s in stmts:
        k = s[0]
        if k == "calllib":
            acc.add(s[2])
        elif k == "branch":
            _calls_of(s[1], acc)
            _calls_of(s[2], acc)
        elif k == "loop":
            _calls_of(s[1], acc)
    return acc


def entry_points_reaching(prog, funs, target_name):
    """names of all program functions that may (transitively) call, or create a closure of, the target"""
    callers = {}
    for u, fn in zip(prog.units, funs):
        for c in _calls_of(fn["body"], set()):
            callers.setdefault(c, set()).add(u.fid)
    tgt = [u.fid for u in prog.units if u.name == target_name]
    dist = {f: 0 for f in tgt}
    queue = list(tgt)
    while queue:
        f = queue.pop(0)
        for g in sorted(callers.get(f, ())):
            if g not in dist:
                dist[g] = dist[f] + 1
                queue.append(g)
    return {norm_name(prog.units[f].name): d for f, d in dist.items()}


def targeted_search(ctx: Ctx, prog, funs, alarm, lines, dyn):
    """systematic variations (coefficient patterns / orders / transforms / solver methods / callbacks returning
    their argument, a cached or a read-only array for the ODE and Poisson entry points; dtype / contiguity /
    container / length-1 / untabulated degrees and sizes / angular method for constructors) of every public entry
    point that reaches the rejected function; returns candidates for Ctx.broken_tie, best match first"""
    import random

    from props import c20_dyn as DY

    entries = entry_points_reaching(prog, funs, alarm["func"])
    cases = DY.make_cases(random.Random(f"C20:targeted:{ctx.seed}"), quick=False, only_funcs=entries, targeted=True)
    done = dyn.get("ran", set())
    cases = [c for c in cases if c.cid not in done]
    random.Random(f"C20:order:{ctx.seed}").shuffle(cases)
    cases.sort(key=lambda c: min([entries.get(n, 99) for n in [c.func] + list(c.also)]))  # nearest entry points first (stable)
    budget = 80.0 if ctx.quick else 900.0
    t0 = time.time()
    exact, other = [], []
    nrun = 0
    for case in cases:
        if time.time() - t0 > budget or exact:
            break
        for mode in DY.MODES:
            res = DY.run_case(case, mode)
            if res.get("skipped"):
                continue
            nrun += 1
            ctx.case(("targeted", case.cid, mode))
            for o in res["observations"]:
                if o["kind"] not in VIOLATION_KINDS:
                    continue
                if not o.get("site") and o.get("via") and o["kind"] == "readonly_error":
                    o["site"] = o["via"]
                st = o.get("site") or ""
                key = f"{case.cid}|{mode}|{o['kind']}|{o.get('what') or ''}"
                text = (f"{case.func}: {o['kind']} ({o.get('what')}) in mode {mode}" + (f", write site {st}" if st else "") +
                        f": {o.get('detail', '')}")
                replay = {"reproduce": case.repro, "mode": mode, "observation": o, "static": alarm,
                          "callback_variants": {k: str(getattr(case, k)) for k in ("_cbarg_src", "_cbcache_src", "alias_pairs") if getattr(case, k, None)}}
                cand = (key, st or o["kind"], text, replay)
                if st and any(st.startswith(f"{f}:") and st.endswith(f":{ln}") for f, ln in lines):
                    exact.append(cand)
                else:
                    other.append(cand)
            if exact:
                break
    ctx.notes.append(f"targeted search for {alarm['func']}: {len(entries)} entry points, {len(cases)} candidate cases, {nrun} runs, "
                     f"{len(exact)} exact / {len(other)} other hits in {time.time() - t0:.1f}s")
    ctx.count("targeted_runs", nrun)
    return exact + other


# ====================================================================== dynamic
VIOLATION_KINDS = {"arg_mutated", "callback_result_mutated", "callback_arg_mutated", "readonly_error", "alias_result_differs"}


def run_dynamic(ctx: Ctx, prog, Sg, info):
    """run the public-call harness; every observed mutation is (1) checked against the static prediction
    (tie) and (2) reported as a violation of the property (known finding if listed)"""
    import random

    from props import c20_dyn as DY

    cases = DY.make_cases(random.Random(f"C20:{ctx.seed}"), ctx.quick, targeted=not ctx.quick)
    okmap = {norm_name(u.name): bool(Sg[u.fid]["ok"]) for u in prog.units}
    # static failing sites (file, line) of all rejected functions
    bad_lines = set()
    for u in prog.units:
        if not Sg[u.fid]["ok"]:
            fn = {"nparams": u.nparams if u.ir is not None else len(u.params) + len(u.captured),
                  "nvars": u.nvars if u.ir is not None else 0, "body": u.ir or []}
            if u.ir is None:
                continue
            for sid, w in AI.all_bad_sites(Sg, fn):
                if w in (1, 2):
                    bad_lines.add((prog.sites[sid]["file"], prog.sites[sid]["line"]))
    groups = {}
    unknown_entries = set()
    nrun = 0
    t0 = time.time()
    per_mode = {}
    for case in cases:
        entries = [case.func] + list(getattr(case, "also", []) or [])
        for nme in entries:
            if norm_name(nme) not in okmap:
                unknown_entries.add(nme)
        for mode in DY.MODES:
            res = DY.run_case(case, mode)
            if res.get("skipped"):
                continue
            nrun += 1
            per_mode[mode] = per_mode.get(mode, 0) + 1
            ctx.case((case.cid, mode))
            if nrun <= 6:
                ctx.sample({"case": case.cid, "func": case.func, "mode": mode, "observations": len(res["observations"]),
                            "exception": res.get("exception")})
            for o in res["observations"]:
                if o["kind"] not in VIOLATION_KINDS:
                    ctx.count("dyn_other:" + o["kind"])
                    continue
                if not o.get("site") and o.get("via") and o["kind"] == "readonly_error":
                    o["site"] = o["via"]  # raised inside NumPy, directly below this grid frame
                st = o.get("site") or ""
                # one group per (entry point, write site): a listed finding can never hide a write at another site
                g = (case.func, st)
                groups.setdefault(g, []).append((case.cid, mode, o, case))
    ctx.count("dynamic_cases", len(cases))
    ctx.count("dynamic_runs", nrun)
    for m, c in per_mode.items():
        ctx.count("mode:" + m, c)
    ctx.notes.append(f"dynamic: {len(cases)} cases, {nrun} runs in {time.time() - t0:.1f}s")
    if unknown_entries:
        ctx.notes.append("dynamic entry points without a static counterpart (inherited from outside the 10 modules or "
                         "harness naming): " + ", ".join(sorted(unknown_entries)))
    # observations without a write site (results that differ under aliasing) join the entry point's group
    for (func, root), lst in list(groups.items()):
        if root == "":
            others = [g for g in groups if g[0] == func and g[1] != ""]
            if len(others) >= 1:
                groups[sorted(others)[0]].extend(lst)
                del groups[(func, root)]
    mode_pri = {"cb_arg": 0, "cb_cached": 1, "plain": 2, "readonly": 3, "same": 4}
    kind_pri = {"arg_mutated": 0, "callback_arg_mutated": 1, "callback_result_mutated": 2, "readonly_error": 3, "alias_result_differs": 4}
    out = []
    reproduced_sites = set()
    for g, lst in sorted(groups.items()):
        func, root = g
        lst.sort(key=lambda x: (not (x[2].get("site") or ""), mode_pri.get(x[1], 9), kind_pri.get(x[2]["kind"], 9), x[0]))
        # representative: the first observation that is not a listed known finding (a known one must not mask a
        # new failing configuration of the same group)
        cid, mode, o, case = lst[0]
        for c_, m_, o_, case_ in lst:
            if not ctx.is_known(f"{c_}|{m_}|{o_['kind']}|{o_.get('what') or ''}", (o_.get("site") or "") or o_["kind"]):
                cid, mode, o, case = c_, m_, o_, case_
                break
        kind, site, what = o["kind"], o.get("site") or "", o.get("what") or ""
        entries = [case.func] + list(getattr(case, "also", []) or [])
        may_write = any(not okmap.get(norm_name(n), True) for n in entries)
        sites = sorted({x[2].get("site") for x in lst if x[2].get("site")})
        site_ok = True
        for s_ in sites:
            parts = s_.split(":")
            try:
                ok_ = (parts[0], int(parts[-1])) in bad_lines
            except ValueError:
                ok_ = False
            site_ok = site_ok and ok_
            if ok_:
                reproduced_sites.add((parts[0], int(parts[-1])))
        kinds = sorted({x[2]["kind"] for x in lst})
        key = f"{cid}|{mode}|{kind}|{what}"
        observed = site or kind
        text = (f"{func}: {kind} ({what}) in mode {mode}" + (f", write site {site}" if site else "") +
                f": {o.get('detail', '')}  [{len(lst)} observations in {len({(c, m) for c, m, _, _ in lst})} runs; kinds: "
                f"{', '.join(kinds)}; sites: {', '.join(sites)}]")
        rec = {"key": key, "observed": observed, "text": text, "site": site, "all_sites": sites, "repro": getattr(case, "repro", None)}
        out.append(rec)
        replay = {"reproduce": getattr(case, "repro", None), "mode": mode, "observation": o,
                  "mode_meaning": {"plain": "the call as shown", "readonly": "every argument array (and callback result) read-only",
                                   "same": "the same array passed for two parameters", "cb_arg": "callbacks replaced by the variants below (they return their argument)",
                                   "cb_cached": "callbacks return one cached constant array per shape"}[mode],
                  "callback_variants": {k: str(getattr(case, k)) for k in ("cb_arg_variants", "cb_arg_reference", "cb_cached_constants", "alias_pairs") if getattr(case, k, None)},
                  "all_sites": sites, "kinds": kinds, "runs": sorted({(c, m) for c, m, _, _ in lst})[:30]}
        if not (may_write and site_ok):
            ctx.fail("C20_tie", key, observed,
                     "BROKEN TIE (the static analysis did not predict this write: entry point accepted by the checker"
                     " or write site not among its failing sites) - " + text, replay)
        else:
            ctx.fail("C20_dynamic", key, observed, text, replay)
    # every pinned genuine defect must be reproduced by the harness
    for u in prog.units:
        nm = norm_name(u.name)
        exp = EXPECTED_ROOTS.get(nm)
        if exp and exp[0] == "defect" and not Sg[u.fid]["ok"] and u.name in info["roots"]:
            lines = set()
            for sid, w in AI.all_bad_sites(Sg, {"nparams": u.nparams, "nvars": u.nvars, "body": u.ir}):
                if w in (1, 2):
                    lines.add((prog.sites[sid]["file"], prog.sites[sid]["line"]))
            if not (lines & reproduced_sites):
                ctx.fail("C20_tie", f"static-defect-not-reproduced:{nm}", None,
                         f"the checker rejects {u.name} (pinned as a genuine defect) but no public call of the dynamic "
                         f"harness exhibits the write", found_input=False)
    ctx.cov["dynamic_groups"] = [r["text"] for r in out]
    return {"observations": out, "ran": {c.cid for c in cases}}
